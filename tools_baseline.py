#!/usr/bin/env python3
"""Runs the repository's own suite (no guard exists: no hooks) and compares with /root/.vp/BASELINE.json stable_pass."""
import json, subprocess, sys, xml.etree.ElementTree as ET
out = "/tmp/verif_baseline.junit.xml"
subprocess.run("cd /repo && /venv/bin/python -m pytest -ra -q -p no:cacheprovider --timeout=900 --continue-on-collection-errors "
               "--junitxml=%s > /tmp/verif_baseline.log 2>&1" % out, shell=True)
base = json.load(open("/root/.vp/BASELINE.json"))
passed = set()
for tc in ET.parse(out).getroot().iter("testcase"):
    if not list(tc):
        passed.add("%s::%s" % (tc.get("classname"), tc.get("name")))
missing = [t for t in base["stable_pass"] if t not in passed]
print("stable_pass: %d, passing now: %d, missing: %s" % (len(base["stable_pass"]), len(base["stable_pass"]) - len(missing), missing))
sys.exit(1 if missing else 0)
