#!/usr/bin/env python3
"""Regenerates MANIFEST.json from the table below (keeps it valid at all times)."""
import json, os
HERE = os.path.dirname(os.path.abspath(__file__))
props = [json.loads(l) for l in open(os.path.join(HERE, "properties.jsonl"))]

CHECKS = {
 "C12": dict(
    spec="RpycSend", design="5/C12",
    technique="TLA+ spec RpycSend model-checked by TLC; TLC state-graph transition cover replayed into real threads under a deterministic scheduler; implementation schedules (random + preemption-bounded DFS, line granularity in thorough) trace-validated by TLC and judged at a recording transport",
    text="TLC exhausts the _send protocol (2-3 threads, re-entrant activation, multi-write packets) for mutual exclusion, contiguity, issue order, no stranded message, termination; every edge of the dumped state graph is replayed on the real Connection with state comparison, and implementation executions under controlled schedules are validated against the spec by TLC and by a byte-level oracle",
    note="bounded configurations; CPython-level atomicity of list/lock operations; simulated Lock/list/stream wrappers stand in for the OS scheduler"),
 "C13": dict(
    spec="RpycServe", design="5/C13",
    technique="TLA+ spec RpycServe (serve/wait/dispatch, one action per shared operation; client threads, BgServingThread, serving-only threads as in serve_threaded) model-checked by TLC; state-graph transition cover replayed into real client threads + BgServingThread under a deterministic scheduler; random and preemption-bounded exhaustive implementation schedules trace-validated by TLC and judged by per-request oracles; every source line of serve/_dispatch/_seq_request_callback/_async_request/AsyncResult.wait/__call__/value as the one forced preemption point, including requests the peer answers with an exception; TLA+ spec RpycServeNested (replies carrying references: INSPECT round trip inside the dispatch, serve() re-entered on the dispatching thread, activation stacks) model-checked and bound by judged and trace-validated implementation schedules",
    text="TLC exhausts 2-3 client threads (+ background server) against a peer answering in any order for receive-lock exclusion, exactly-once dispatch, reply/request matching, no lost wake-up, no hang, termination; the real serve()/AsyncResult code is driven along every edge of the state graph with state comparison, and implementation schedules are checked against the spec by TLC and by direct oracles (result identity, dispatch counts, sequence numbers, deadlock / lost wake-up detection in virtual time)",
    note="bounded configurations; sending is one step (C12); preemption at shared-object operations (source lines in the thorough tier); simulated Lock/Condition/clock/transport"),
 "C14": dict(
    spec="RpycServe", design="5/C14",
    technique="TLA+ spec RpycServe with both variants of serve() (constant Handoff): TLC proves NoStall for the repaired hand-off (replies in transit counted under the receive lock, readiness re-checked under both locks, notification after dispatch) and keeps producing the NoStall counterexample for the pinned one; the driver takes the variant from the working tree, replays the state graph and the pinned counterexample on the real code in virtual time, and explores implementation schedules (random, every source line as forced preemption point, background thread, exception replies) with a stall oracle and TLC trace validation; RpycServeNested: the same with replies that carry references (nested INSPECT round trips inside the dispatch)",
    text="TLC exhausts 1-3 client threads (+ background server) of the serve() in the working tree: no reachable state has a waiter blocked in poll or in the condition wait after its result was published with nobody left to wake it; the real code is driven along the state graph and along thousands of schedules under virtual time, each waiter's return time compared with the time its reply was dispatched, and every trace validated by TLC against the same specification; on a tree with the pinned serve() the counterexample schedule is replayed and the 30 s stall reported",
    note="bounded configurations; virtual time: timeouts only run out at quiescence; the hand-off stall of the pinned tree was repaired (fixed: entry in known_findings.json)"),
 "C10": dict(
    spec="RpycLifetime", design="5/C10",
    technique="TLA+ specs RpycLifetime (owner table counts, proxy counts, two FIFO streams) and RpycLifetimeInspect (objects of user classes: unboxing suspended in a nested INSPECT round trip that serves further references, several proxy objects per key) model-checked by TLC with the Accounting invariant; transition-cover and random histories executed on two real Connections with frame-by-frame manual delivery, compared state by state and trace-validated by TLC; reference-count and identity oracles; TLA+ spec RpycRefColl (owner's table under a sending and a serving thread) with line-granularity schedules of the real RefCountingColl; the reference traffic of the repository's own test suite validated by TLC against RpycEndpointRefs (owner's end)",
    text="TLC exhausts all interleavings of send / send-in-tuple / request / drop / pass-back / deliver-either-stream / close for 2 objects and proves Accounting, Safety, LeakFree; the same histories are executed on a real connection pair whose two directions are released frame by frame, with the owner's table, the holder's proxy counts and the decoded frames in flight compared with the TLC state after every step, and longer random histories are validated against the spec by TLC",
    note="bounded model (2 objects, 3 boxings, streams of 3); lent objects are lists (built-in netref classes, RpycLifetime) and instances of a user class (nested INSPECT during delivery, RpycLifetimeInspect); CPython refcounting with automatic GC disabled"),
 "C08": dict(
    spec="RpycLedger", design="5/C08",
    technique="TLA+ spec RpycLedger (two peers, request/reply/exception frames, re-entrant serve with unwinding) model-checked by TLC; transition-cover and random request histories executed on two real Connections with frame-by-frame delivery, compared with the TLC state and trace-validated by TLC; frame-level ledger oracle over all traffic; every connection of the repository's own test suite recorded message by message (pytest plugin wrapping Channel.send/recv) and validated by TLC against RpycEndpoint (sequence numbers never reused, every response answers an open request, one response per request)",
    text="TLC exhausts request streams of 3 top-level requests over 7 outcome classes (value, reference, raises, undecodable arguments, unknown handler, unencodable result, nested callback), sync and async, in both directions, for exactly-one-response, routing by sequence number, kind, completeness and connection survival; the histories are executed on a real pair and every frame crossing the transport is accounted for",
    note="single-threaded sides (C13 covers threads); bounded histories; exception payloads that are themselves unencodable (an int beyond the digit limit inside exception args) are not generated"),
 "C11": dict(
    spec="RpycTeardown", design="5/C11", level="model_checking",
    technique="TLA+ spec RpycTeardown (connection life cycle at public-call granularity with read/write faults) model-checked by TLC; fault enumeration on the real Connection+Channel+SocketStream stack over scripted sockets (failure at every recv/send call, fragmented runs for mid-packet positions, all close orders) with every run's event log trace-validated by TLC and judged at each public-call boundary; TLA+ spec RpycServeEof (RpycServe plus the peer vanishing: liveness EveryoneEnds, counterexample without the notification in serve()'s finally block) model-checked; the peer vanishing at arbitrary scheduling points while 2-3 real threads share the connection; real OS pipes whose peer disappears without CLOSE; every statement of close()/_cleanup() as a window in which a second thread of the same side closes (sys.monitoring breakpoints)",
    text="TLC exhausts issue/serve/close/wait with socket read and write faults at any point and all orders of the two close() calls for hook-at-most-once, closed-implies-clean, no invented value, no hang; the same obligations are checked on the real stack for every single transport call position of four workloads (sync, async, nested callbacks, references both ways), and the recorded event logs are accepted by the spec",
    note="one fault per run; the readiness call (poll) is failed only for a side sitting in serve_all(); sides single-threaded and serving while idle; a reply-send failure in a bare serve() may leave closed false until the next serve (reading note in DESIGN.md)"),
 "C15": dict(
    spec="RpycAsync", design="5/C15; two genuine defects found by these additions are recorded as fixed (concurrent clean-up)",
    technique="TLA+ spec RpycAsync (one AsyncResult in discrete virtual time: reply, unrelated traffic, expiry, queries, callbacks, wait) model-checked by TLC; TLC -simulate behaviours replayed on a real AsyncResult/Connection under a virtual clock with the program's observation log compared with the specification's; sync_request and timed() driven through the same behaviours",
    text="TLC exhausts all orderings within T=3 of reply arrival, unrelated traffic, expiry and the program's operations for finality, callbacks-once-in-order and timeout timing; each simulated behaviour is a test of the real AsyncResult: results of ready/error/expired/wait and the instant of every return or raise must equal the specification's observation log",
    note="discrete virtual time (1 tick = 1 s); 'reply came first' = processed before the expiry instant; bounded behaviours (depth <= 22)"),
 "C05": dict(
    spec="RpycChannel", design="5/C05",
    technique="TLA+ spec RpycChannel (writer/reader over a fragmenting, stalling, failing byte stream; byte offsets, write splitting, header/body read loops) model-checked by TLC; every edge of the small-constant state graph dictated as transport decisions to the real Channel + SocketStream/PipeStream over fake sockets / fake os.read-write with state comparison; real-size transfers with random fragmentation whose I/O call logs are trace-validated by TLC; a reader or writer failing although the transport neither failed nor ended is a violation",
    text="TLC exhausts all splits of every send and recv, transient timeouts/EAGAIN and a fault at every position for CHUNK=8/THRESHOLD=2 packets (single-write, multi-write, empty, compressed) for frame alignment, no over-read, prefix delivery and clean failure; the real code is driven through every such decision and compared (bytes moved, size of every I/O request, packets delivered, closed flags, exception class), and at real sizes (0..128001, around 3000 and 64000) the logged I/O calls must be a behaviour of the spec and the bytes received must equal the bytes sent",
    note="reliable in-order byte stream until failure; one writer and one reader per direction; zlib bodies compared after decompression"),
 "C06": dict(
    spec="RpycAttr", design="5/C06",
    technique="TLA+ spec RpycAttr: decision table Decide (set of permitted outcomes per configuration x operation x name class x object shape, written from the statement) evaluated and exported by TLC with its meta-properties as ASSUMEs, plus a TLC-checked state machine of connection histories; all 10752 table cases, the hook/service/restricted-view cases and every history edge executed on real connections and compared with the table",
    text="the complete finite decision space (2^5 switches x 3 prefixes x 7 name classes x 4 shapes x 4 operations) is decided by the specification and executed case by case against the real request handlers (directly and as real HANDLE_* requests with text, bytes and non-text names), observing which attribute was actually read/written/deleted/called and which exception the peer saw; histories of opening/closing default, classic and public connections are enumerated by TLC and replayed, re-probing every open connection and DEFAULT_CONFIG after each step",
    note="names are instance attributes of plain objects; where the statement is silent (permitted plain name missing but twin present) both accesses are accepted; invalid-UTF-8 bytes names are not exercised"),
 "C07": dict(
    spec="RpycHostile", design="5/C07",
    technique="TLA+ spec RpycHostile: response table Expect(template, abstract state) over ~1500 hostile message templates (every handler number, every argument label incl. forged/stale/other-connection identifiers, wrong arity, crafted reply and exception payloads, invalid message kinds) with TLC-checked meta-properties and a TLC-checked attack state machine; every (template, reachable state) pair sent as raw bytes by a frame-level peer to a real Connection in virtual time with canary / import / pickle / foreign-object / second-connection oracles",
    text="the finite template space is decided by the specification (permitted response classes per state) and executed exhaustively against the real dispatcher under the default configuration; after every message: response class permitted, no canary callable ran, no denied attribute read, nothing pickled, no module imported, no constructor run by the exception loader, requests aimed at objects not handed to this peer never answered with a result, the process's other connection untouched; random 12-message sequences follow the state machine",
    note="default configuration; well-framed messages only; resource exhaustion out of scope; the attacker never answers the service's own requests (virtual-time timeouts)"),
 "C09": dict(
    spec="RpycVinegar", design="5/C09",
    technique="TLA+ spec RpycVinegar: outcome table (class category x argument shape x attribute shape x sender switches x receiver switches) evaluated and exported by TLC with its safety meta-properties as ASSUMEs; every case refined to concrete exceptions (all built-in exception classes) and pushed through vinegar.dump -> brine -> vinegar.load and through real connection pairs; crafted records checked for imports / constructors",
    text="the complete switch matrix is decided by the specification and executed with every built-in exception class of the interpreter as representative, comparing class, isinstance, args, attributes, traceback/version disclosure, sys.modules delta and constructor canaries; the two exception-group classes that cannot be rebuilt on Python 3.11+ are a recorded known finding",
    note="KeyboardInterrupt is routed locally by default and not sent; classes with mandatory constructor arguments are built with fixed arguments"),
 "C04": dict(
    spec="RpycWire", design="5/C04",
    technique="TLA+ spec RpycWire: the brine format as an executable reference (Enc, strict Dec, Dumpable) written from the tag table; TLC proves round-trip / injectivity / prefix-freeness / self-delimitation on a bounded universe and evaluates Enc, Dumpable and Dec in batches on seeded random Python values and byte strings, which are compared with brine.dump / dumpable / load",
    text="the laws of the format are checked by TLC on an 822-value universe; every vector and thousands of random values covering every length class, 1-300 digit integers, raw float/complex bit patterns, all UTF-8 widths and lone surrogates, nested containers and non-serializable values are encoded by the specification (evaluated by TLC) and compared byte for byte and by type-exact round trip with brine; all byte strings up to length 2 plus sampled longer ones and mutated encodings are decoded by the specification and by brine.load",
    note="codec fidelity is not TLA+'s home ground: the specification is an independently written reference codec whose algebraic properties TLC checks; floats are opaque 8-byte payloads; ints beyond the int->str digit limit are out of scope"),
 "C19": dict(
    spec="RpycWire", design="5/C19",
    technique="TLA+ spec RpycWire as independent reference for the 5.x wire format (tag table, shortest form, frame layout, numeric constants): constants, vectors and frames compared byte for byte with the implementation; a reference peer whose every frame is encoded/decoded by TLC converses with a real Connection in both roles",
    text="the published constants, encodings and frame layout are literals of the specification; TLC exports them and evaluates Enc/Dec on vectors and on every frame of scripted conversations (GETROOT, GETATTR, CALL/CALLATTR with each label, PING, exception, DEL, CLOSE) between the reference peer and a real client and a real server",
    note="the reference is only as independent as its author (constants taken from the pinned release and documentation); zlib output compared after decompression"),
 "C03": dict(
    spec="RpycBoxing", design="5/C03",
    technique="TLA+ spec RpycBoxing: boxing/arrival table for all value shapes to nesting depth 2 (exported by TLC with meta-properties as ASSUMEs) and a TLC-checked identity state machine (send / echo / re-send / drop); every shape refined to concrete objects and sent, inspected and passed back over a real connection pair; every history edge replayed with identity checks; obtain/deliver under classic mode",
    text="for 7734 shapes (exact plain values, subclass instances, containers, functions, classes, modules; tuples, frozensets, slices of them) the specification says what must arrive (exact-type copy, fresh tuple, reference); the receiving handler checks exactly that on a real connection and the sender checks that references come home as the original object; histories check that a re-received object is the same proxy while one is alive and that echoes resolve to the original; mutation through references and obtain/deliver independence are checked",
    note="leaves refined to representative concrete types; quick tier executes a seeded third of the shapes"),
 "C01": dict(
    spec="RpycCallTree", design="5/C01",
    technique="TLA+ spec RpycCallTree: call trees spread over two peers evaluated by a message-passing state machine (stacks of activations, FIFO streams, re-entrant serve, routing by sequence number) vs. structural recursion EvalLocal, model-checked by TLC for all 3158 enumerated trees; every tree instantiated as real closures on two real Connections and compared with EvalLocal (result, exception class/args, per-node invocation counts, received arguments), with single-process execution as second oracle for the spec",
    text="TLC proves for every enumerated tree (depth<=3, fan-out<=2, all raise/catch placements) that the distributed evaluation equals local recursion and runs every reached node exactly once; each tree is executed on a real connection pair with callbacks nesting in both directions, argument shapes covering values, nested tuples, mixed tuples, references, keyword-only and mixed calls, and results returned by value and by reference; deeper/wider random trees are judged by single-process evaluation",
    note="quick tier executes a seeded third of the enumerated trees plus 60 random deeper ones; node bodies are pure apart from counters"),
 "C20": dict(
    spec="RpycFiles", design="5/C20",
    technique="TLA+ spec RpycFiles: the chunked copy loop as a state machine model-checked by TLC for every chunk 1..4 and size 0..2*chunk+1, and the filtered directory walk as a function exported by TLC for every abstract tree x filter; every case materialised and pushed through the real classic.upload/download over a classic-mode connection with recursive byte-wise comparison; recorded read/write sizes trace-validated by TLC",
    text="TLC proves prefix-copied / complete / read-count / termination of the copy loop and enumerates 6285 (tree, filter) cases with the destination each must produce (filter applied to base names at every level, empty files and directories, seven size classes relative to the chunk); the cases run through the real code with chunk sizes 1-3 (7 and 64000 in samples) in both directions, and the local read/write size sequences of real transfers are accepted by the copy-loop specification",
    note="both 'machines' share one file system; quick tier executes a seeded sample of the walk table"),
 "C18": dict(
    spec="RpycRegistry", design="5/C18",
    technique="TLA+ spec RpycRegistry (table with refresh times, pruning, notifications, malformed and silent input) model-checked by TLC; TLC -simulate behaviours replayed on real UDPRegistryServer / TCPRegistryServer objects with scripted fake sockets and a virtual clock, one main-loop iteration per step, comparing reply, notifications, table and loop liveness; real loopback UDP/TCP confirmation run",
    text="TLC exhausts register/unregister/query/clock/malformed input for 3 addresses x 2 mixed-case names; each simulated behaviour is executed on real registry objects over UDP and TCP receive paths: replies must list exactly the live registrations oldest-refresh-first, notifications must match membership changes exactly, 13 kinds of malformed or silent input must neither change registrations nor stop or block the main loop",
    note="virtual clock and fake listening sockets (plus one real-socket run per transport); order among equal refresh times unspecified; three genuine defects found here were repaired by fix: commits"),
    "C02": dict(
        spec="RpycProxyOps", design="5/C02",
        technique="TLA+ specs RpycProxyOps (operation semantics of 8 kinds of targets + the attribute access each proxy operation needs + configuration gate) and RpycBuffiter model-checked by TLC; the step function exported as a table and every row executed on a real proxy over a real connection pair, on a local twin and in the specification; random walks through the table on one proxy / one twin, proxy-side outcomes validated by TLC (Trace_RpycProxyOps); real buffiter runs validated against RpycBuffiter (Trace_RpycBuffiter)",
        text="TLC checks the step laws over the whole abstract state space (list, dict, set, deque, generator, BytesIO, bytearray, user class; ~26000 state x operation rows) and the buffered-iteration loop for every chunk/factor/max_chunk in 1..4; each row must give, through the proxy, the same result / exception class / result type and leave the target in the same state as on a local twin, under classic, public-attribute and default configuration (operations the configuration refuses are outside the claim)",
        note="finite operation vocabulary; operands are small ints, tuples, bytes, frozensets; the twin is a second oracle for the specification's Python semantics (disagreement = machinery failure); one genuine defect (PEP 688 __buffer__ forwarded by netrefs on Python 3.12) repaired by a fix: commit"),
    "C16": dict(
        spec="RpycServer", design="5/C16",
        technique="TLA+ spec RpycServer (accept, authenticate, serve, misbehaving clients, close) model-checked by TLC; state-graph paths replayed against real ThreadedServer / ThreadPoolServer / OneShotServer over real TCP and unix sockets (with and without authenticator) plus a ForkingServer probe in a child process; every good client's per-connection counter, service instance, credentials and exported object are compared with the specification after every bad client; TLA+ spec RpycServerSteps (accept loop, serving threads and close() as separate steps) model-checked, its schedules forced on the real server threads at statement granularity with sys.monitoring breakpoints (one thread held in a window while another client connects, calls or leaves)",
        text="TLC exhausts 2 good clients x bad clients of 9 kinds x server close; transition-cover paths are executed on the real servers: after any misbehaving client (random bytes, truncated packet, absurd length, corrupt compressed data, garbage payload, connect-and-leave, failed authentication, half a header, a well-formed conversation that answers the server's own request with SystemExit / KeyboardInterrupt / GeneratorExit) every good client's next call must return its own counter, a new good client must be accepted and served, no object exported to one connection is reachable from another",
        note="real sockets and threads, conditions awaited with deadlines; stalled clients stay below the pool size"),
    "C17": dict(
        spec="RpycServer", design="5/C17",
        technique="TLA+ spec RpycServer model-checked by TLC; state-graph paths replayed against real ThreadedServer / ThreadPoolServer / OneShotServer over real TCP and unix sockets (with and without authenticator) and a ForkingServer probe in a child process; oracles: EOF-not-timeout for every client after close, on_disconnect exactly once per connection, empty tracked tables and poll registrations, listener closed, file-descriptor accounting back to the baseline; TLA+ spec RpycServerSteps (accept loop, serving threads and close() as separate steps; pinned and repaired accept) model-checked incl. liveness, TLC's counterexample and every statement-level window of accept / serve / drop / close executed on the real server threads with sys.monitoring breakpoints while close() runs inside the window",
        text="TLC exhausts connect / call / leave (graceful or reset) / misbehave / close interleavings; transition-cover paths are executed on the real servers: after close() returns every connected client's next operation ends in EOF, never a timeout; each connection's on_disconnect ran exactly once; the server's tables are empty; descriptors and threads return to the baseline",
        note="real sockets and threads, conditions awaited with deadlines; one genuine defect (ThreadPoolServer.close) repaired by a fix: commit, two ForkingServer defects recorded as known findings"),
}
NA = {}

def main():
    m = {"version": 1, "setup_cmd": "./setup.sh",
         "hooks": {"guard": "RPYC_VERIF",
                   "enable": "no source hooks are needed: rpyc is pure Python and every check imports it from /repo's working tree (PYTHONPATH=/repo); instrumentation wraps instance attributes and module globals at run time",
                   "baseline_off_cmd": "cd /repo && /venv/bin/python -m pytest -ra -q -p no:cacheprovider --timeout=900 --continue-on-collection-errors",
                   "source_commits": [], "add_only": True},
         "engines": [{"name": "tlc", "path": "/opt/veriftools/tla/tla2tools.jar", "serves_properties": sorted(CHECKS),
                      "kind_free_text": "TLC 1.8 explicit-state model checker over the TLA+ modules in /verif/spec (exhaustive, -simulate, state-graph dump, batch trace validation)"},
                     {"name": "sim", "path": "/verif/harness/sim.py", "serves_properties": sorted(CHECKS),
                      "kind_free_text": "deterministic scheduler / virtual clock / in-memory transports that run the unmodified rpyc code along TLC behaviours and record traces for TLC"}],
         "checks": [], "notes": "see DESIGN.md; ./check <id> [--tier quick|thorough] [--replay file]",
         "not_applicable": []}
    for p in props:
        pid = p["id"]
        if pid in CHECKS:
            c = CHECKS[pid]
            m["checks"].append({
                "property_id": pid,
                "quick_cmd": "./check %s --tier quick" % pid,
                "thorough_cmd": "./check %s --tier thorough" % pid,
                "evidence_file": "/verif/evidence/%s.json" % pid,
                "replay_cmd_template": "./check %s --replay {path}" % pid,
                "engine": "tlc",
                "level_claimed": {"category": c.get("level", "model_checking"), "text": c["text"], "design_ref": c["design"]},
                "level_note": c["note"],
                "technique": c["technique"]})
        else:
            m["not_applicable"].append({"property_id": pid, "reason": NA.get(pid, "check not built yet (work in progress): no claim is made for this property until its TLA+ specification and conformance driver exist")})
    json.dump(m, open(os.path.join(HERE, "MANIFEST.json"), "w"), indent=1)
    print("claimed:", [c["property_id"] for c in m["checks"]])

if __name__ == "__main__":
    main()
