#!/bin/sh
# usage: tools_mut.sh <patch> <id> [<id>...]   -- apply a seeded change to /repo, run quick checks, undo it
p="$1"; shift
git -C /repo apply "$p" || exit 3
# the evidence of a run against a changed tree must not replace the evidence of the working tree
export VERIF_EVIDENCE_DIR=/verif/out/evidence_alt
for id in "$@"; do
  /verif/check "$id" > /tmp/mut_$id.log 2>&1; rc=$?
  echo "$id rc=$rc $(grep -c '^VIOLATION' /tmp/mut_$id.log) violation line(s); $(grep -m1 'violation:' /tmp/mut_$id.log)"
done
git -C /repo checkout -- .
git -C /repo status --short
