"""Recordings of the repository's own test suite as traces (code -> spec, executions nobody scheduled)."""
import json
import os
import subprocess
import sys
import uuid

from harness import tlc
from harness.common import OUT

QUICK_FILES = ["tests/test_custom_service.py", "tests/test_async.py", "tests/test_remoting.py", "tests/test_refcount.py",
               "tests/test_threads.py", "tests/test_context_managers.py"]
ALL_FILES = QUICK_FILES + ["tests/test_classic.py", "tests/test_remote_exception.py", "tests/test_attr_access.py",
                           "tests/test_netref_hierachy.py", "tests/test_magic.py", "tests/test_oneshot_server.py"]


def record(files, timeout=900):
    """run the given test files of the working tree with the recording plugin; -> list of per-channel event lists"""
    repo = os.environ.get("VERIF_REPO", "/repo")
    verif = os.path.dirname(os.path.dirname(os.path.abspath(__file__)))
    os.makedirs(os.path.join(OUT, "suite"), exist_ok=True)
    log = os.path.join(OUT, "suite", "frames.%d.%s.json" % (os.getpid(), uuid.uuid4().hex[:6]))
    env = dict(os.environ, PYTHONPATH=repo + ":" + verif, VERIF_FRAME_LOG=log, PYTHONDONTWRITEBYTECODE="1")
    files = [f for f in files if os.path.exists(os.path.join(repo, f))]
    p = subprocess.run([sys.executable, "-m", "pytest", "-q", "-p", "no:cacheprovider", "-p", "harness.plugins.record_frames",
                        "--timeout=300"] + files, cwd=repo, env=env, stdout=subprocess.PIPE, stderr=subprocess.STDOUT, timeout=timeout)
    try:
        with open(log) as f:
            chans = json.load(f)
    except Exception:
        raise tlc.MachineryError("the recording run of the repository's tests produced no frame log:\n" + p.stdout.decode("utf8", "replace")[-1500:])
    finally:
        try:
            os.remove(log)
        except OSError:
            pass
    tail = p.stdout.decode("utf8", "replace").strip().splitlines()[-1:] or [""]
    return chans, tail[0], files


def validate_endpoint(chk, pid, chans, label):
    """every channel's recording must be a behaviour of RpycEndpoint"""
    traces = [c for c in chans if c]
    if not traces:
        return
    batch = [list(t) for t in traces]
    n = len(batch)
    # self-test: a duplicated response and a response to a request never made must be rejected
    src = max(traces, key=len)
    i = next((j for j, e in enumerate(src) if e["d"] == "R" and e["k"] in ("reply", "exc")), None)
    if i is not None:
        batch.append(src[:i + 1] + [src[i]] + src[i + 1:])
        batch.append(src[:i] + [dict(src[i], seq=src[i]["seq"] + 77777)] + src[i + 1:])
    out, res = tlc.validate_traces("Trace_RpycEndpoint", batch, "", ["MaxSeq = 1"], invariants=["OutSubset", "InSubset"], name="ep")
    chk.add_tlc(res, "trace validation: per-channel message recordings of %s against RpycEndpoint" % label)
    for j in range(n, len(batch)):
        if out[j] is not None and out[j][0] == out[j][1]:
            raise tlc.MachineryError("self-test: a corrupted recording was accepted by Trace_RpycEndpoint")
    acc = 0
    for j in range(n):
        if out[j] is not None and out[j][0] == out[j][1]:
            acc += 1
            continue
        k = out[j][0] if out[j] else 0
        ev = traces[j][k] if k < len(traces[j]) else None
        what = "?"
        if ev:
            if ev["d"] == "R" and ev["k"] in ("reply", "exc"):
                what = "a response with sequence number %s arrived that answers no open request of this end" % ev["seq"]
            elif ev["d"] == "S" and ev["k"] in ("reply", "exc"):
                what = "this end sent a response with sequence number %s for which it has no unanswered request" % ev["seq"]
            elif ev["k"] == "req":
                what = "a request reuses the sequence number %s" % ev["seq"]
            else:
                what = "a message that is neither request nor response: %r" % (ev,)
        chk.violation("suite:%s" % (ev["k"] if ev else "?"), "%s while the repository's tests ran (%s), message %d of a connection: %s" % (
            pid, label, k + 1, what), {"recording": traces[j][max(0, k - 10):k + 2]})
    chk.validated(acc)
    chk.evaluated(sum(len(t) for t in traces))
    chk.cov["suite_channels"] = n
    chk.cov["suite_messages"] = sum(len(t) for t in traces)
    chk.cov["suite_channels_accepted"] = acc


def validate_refs(chk, pid, chans, label):
    """the reference traffic of every channel, seen from the end that lends the objects, must be a behaviour of RpycEndpointRefs"""
    traces = []
    for c in chans:
        ids, evs = {}, []
        for m in c:
            for r in m.get("refs", ()):
                kind = r[0]
                if kind == "unparsed":
                    continue
                # sent "remote": this end boxes its own object; received "local": the peer names an object of this end;
                # received "del": the peer gives references back.  (sent "local" / received "remote" concern the peer's objects.)
                if m["d"] == "S" and kind == "remote":
                    evs.append({"e": "box", "k": ids.setdefault(r[1], len(ids) + 1), "c": 0})
                elif m["d"] == "R" and kind == "local":
                    evs.append({"e": "use", "k": ids.setdefault(r[1], len(ids) + 1), "c": 0})
                elif m["d"] == "R" and kind == "del":
                    evs.append({"e": "del", "k": ids.setdefault(r[1], len(ids) + 1), "c": r[2]})
        if evs:
            traces.append({"n": len(ids), "events": evs})
    if not traces:
        return
    nobj = max(t["n"] for t in traces)
    batch = list(traces)
    n = len(batch)
    src = max(traces, key=lambda t: sum(1 for e in t["events"] if e["e"] == "del"))
    i = next((j for j, e in enumerate(src["events"]) if e["e"] == "del"), None)
    if i is not None:
        batch.append({"n": src["n"], "events": src["events"][:i + 1] + [src["events"][i]] + src["events"][i + 1:]})
    out, res = tlc.validate_traces("Trace_RpycEndpointRefs", batch, "", ["NObj = %d" % nobj], invariants=["NonNegative"], name="epr")
    chk.add_tlc(res, "trace validation: reference traffic of %s, owner's end, against RpycEndpointRefs" % label)
    for j in range(n, len(batch)):
        if out[j] is not None and out[j][0] == out[j][1]:
            raise tlc.MachineryError("self-test: a recording with a duplicated release notice was accepted by Trace_RpycEndpointRefs")
    acc = 0
    for j in range(n):
        if out[j] is not None and out[j][0] == out[j][1]:
            acc += 1
            continue
        k = out[j][0] if out[j] else 0
        ev = traces[j]["events"][k] if k < len(traces[j]["events"]) else None
        what = "?"
        if ev and ev["e"] == "del":
            what = "a release notice gives back %d reference(s) to an object of which fewer are handed out" % ev["c"]
        elif ev and ev["e"] == "use":
            what = "the peer used an object that this end no longer holds for it"
        chk.violation("suite:%s" % (ev["e"] if ev else "?"), "%s while the repository's tests ran (%s), reference event %d of a "
                      "connection: %s" % (pid, label, k + 1, what), {"recording": traces[j]["events"][max(0, k - 10):k + 2]})
    chk.validated(acc)
    chk.evaluated(sum(len(t["events"]) for t in traces))
    chk.cov["suite_channels_with_references"] = n
    chk.cov["suite_reference_events"] = sum(len(t["events"]) for t in traces)
    chk.cov["suite_channels_accepted"] = acc
