"""setup_cmd: offline. Parses every specification with SANY (so a broken spec is found at setup, not in a check)."""
import os
import sys
from harness import tlc

def main():
    os.makedirs(tlc.OUT, exist_ok=True)
    bad = 0
    for fn in sorted(os.listdir(tlc.SPEC)):
        if fn.endswith(".tla") and not fn.startswith("Trace_"):
            ok, out = tlc.sany(fn[:-4])
            print("SANY %-28s %s" % (fn, "ok" if ok else "FAILED"))
            if not ok:
                print(out[-2000:])
                bad += 1
    return 1 if bad else 0

if __name__ == "__main__":
    sys.exit(main())
