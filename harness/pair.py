"""Two real Connections, one managed thread per side, commanded by the (unmanaged) driver.

Each side thread executes commands given by the driver ("do this call", "serve one frame") and, when idle,
serves whatever arrives.  With manual=True frames are held per direction and released by the driver, so the order in
which the two one-way streams are consumed is under the driver's control.  Frame-level observation: every frame that
crosses the link is decoded (kind, seq, payload) in `frames`.
"""
import collections

from harness import sim


class Side(object):
    def __init__(self, pair, name, conn, stream):
        self.pair = pair
        self.name = name
        self.conn = conn
        self.stream = stream
        self.cmds = collections.deque()
        self.results = {}
        self.errors = []           # exceptions escaping serve() while idle
        self.serve_all_result = None
        self.thread = pair.sched.spawn(name, self._serve_all if name in pair.serve_all_sides else self._loop)

    def readable(self):
        st = self.stream
        if hasattr(st, "inbox"):                      # SimStream
            return st._readable()
        if st.closed:                                 # real SocketStream over a FakeSocket
            return True
        return st.sock._readable()

    def _ready(self):
        if self.cmds:
            return True
        if not self.pair.autoserve or self.conn.closed:
            return False
        if self.pair.serve_eof:
            return self.readable()
        return bool(getattr(self.stream, "inbox", b"")) and not self.stream.closed

    def _serve_all(self):
        """a plain server: the side's thread sits in Connection.serve_all() until the connection ends"""
        try:
            self.conn.serve_all()
            self.serve_all_result = ("returned", None)
        except BaseException as ex:  # noqa
            if isinstance(ex, sim.SimAbort):
                raise
            self.serve_all_result = ("raised", ex)

    def _loop(self):
        s = self.pair.sched
        while True:
            s.yield_op("idle", self, enabled=self._ready)
            if self.cmds:
                cmd = self.cmds.popleft()
            else:
                cmd = ("serve",)
            if cmd[0] == "stop":
                return
            if cmd[0] == "serve":
                try:
                    self.conn.serve(0)
                except BaseException as ex:  # noqa
                    if isinstance(ex, sim.SimAbort):
                        raise
                    self.errors.append(ex)
            elif cmd[0] == "do":
                tag, fn = cmd[1], cmd[2]
                try:
                    self.results[tag] = ("ok", fn())
                except BaseException as ex:  # noqa
                    if isinstance(ex, sim.SimAbort):
                        raise
                    self.results[tag] = ("exc", ex)

    @property
    def idle(self):
        t = self.thread
        return (not t.done) and t.pending is not None and t.pending.kind == "idle"

    def do(self, tag, fn, settle=True):
        """have the side's thread run fn(); result in results[tag] once it completes"""
        self.cmds.append(("do", tag, fn))
        if settle:
            self.pair.sched.settle(max_steps=self.pair.max_steps)

    def call(self, fn):
        """run fn on the side's thread to completion and return its value / raise its exception"""
        tag = object()
        self.do(tag, fn)
        if tag not in self.results:
            raise sim.Deadlock("%s: call did not complete (blocked at %r)" % (self.name, self.thread.pending))
        kind, val = self.results.pop(tag)
        if kind == "exc":
            raise val
        return val


class Pair(object):
    def __init__(self, service_a, service_b, config_a=None, config_b=None, manual=False, compress=True,
                 autoserve=True, patch_time=True, transport="sim", script=None, serve_eof=False, serve_all_sides=(),
                 prepare=None):
        self.sched = s = sim.make_sched()
        self.undo_time = sim.patch_time(s) if patch_time else (lambda: None)
        self.autoserve = autoserve
        self.serve_all_sides = tuple(serve_all_sides)
        self.max_steps = 200000        # of one settle(): a run that needs more is not coming to rest
        self.serve_eof = serve_eof     # idle sides also serve when only an end-of-stream / closed stream is visible
        self._undo = []
        if transport == "sim":
            ca, cb, net = sim.connect_pair(s, service_a, service_b, config_a, config_b, manual=False, compress=compress)
            sa, sb = net.a, net.b
        else:
            # the real SocketStream over scripted fake sockets; Stream.poll uses a fake poll object
            from rpyc.core import stream as stream_mod
            from rpyc.core.channel import Channel
            net = sim.FakeSocketNet(s, script)
            old = stream_mod.poll
            stream_mod.poll = type("BoundFakePoll", (sim.FakePoll,), {"net": net})
            self._undo.append(lambda: setattr(stream_mod, "poll", old))
            sa, sb = stream_mod.SocketStream(net.a), stream_mod.SocketStream(net.b)
            ca = service_a._connect(Channel(sa, compress=compress), config_a or {})
            cb = service_b._connect(Channel(sb, compress=compress), config_b or {})
            sim.simulate_conn_locks(s, ca, "A")
            sim.simulate_conn_locks(s, cb, "B")
        if prepare is not None:
            # instrumentation that must be in place before a side's thread makes its first call (a serve_all() side calls at once)
            prepare("A", ca)
            prepare("B", cb)
        self.net = net
        self.a = Side(self, "A", ca, sa)
        self.b = Side(self, "B", cb, sb)
        s.settle()
        net.manual = manual
        self._decoded = 0

    def side(self, name):
        return self.a if name == "A" else self.b

    def peer(self, side):
        return self.b if side is self.a else self.a

    def settle(self):
        self.sched.settle(max_steps=self.max_steps)

    def deliver_to(self, side):
        """manual mode: release the next frame travelling to `side` and let it be processed"""
        frm = self.peer(side).stream
        n = self.net.deliver(frm)
        if side.idle and not self.autoserve:
            side.cmds.append(("serve",))
        self.sched.settle()
        return n

    def in_flight_to(self, side):
        return self.net.in_flight(self.peer(side).stream)

    def frames(self):
        """all frames written so far, decoded: list of dict(side, kind, seq, args); A's frames first (each side in
        order of transmission).  Decoding is incremental."""
        from rpyc.core import brine
        if not hasattr(self, "_fcache"):
            self._fcache = {"A": ([], 0), "B": ([], 0)}
        out = []
        for name, st in (("A", self.net.a), ("B", self.net.b)):
            lst, off = self._fcache[name]
            frs, rest = sim.split_frames(bytes(st.written[off:]))
            for fr in frs:
                off += len(fr)
                try:
                    body = fr[5:-1]
                    if fr[4]:
                        import zlib
                        body = zlib.decompress(body)
                    msg, seq, args = brine.load(body)
                    lst.append({"side": name, "kind": msg, "seq": seq, "args": args})
                except Exception as ex:
                    lst.append({"side": name, "kind": None, "seq": None, "args": repr(ex)})
            self._fcache[name] = (lst, off)
            out += lst
        return out

    def close(self):
        self.sched.abort()
        self.undo_time()
        for u in self._undo:
            u()
