"""Deterministic simulation substrate for running the real rpyc code.

* Scheduler: managed Python threads pass a baton (exactly one runs at a time).  A managed thread
  *announces* its next shared operation (`yield_op`) and is suspended; the schedule policy picks
  which announced operation happens next.  Blocking operations carry an `enabled` predicate and an
  optional virtual deadline; when nothing is enabled the virtual clock jumps to the earliest
  deadline; if there is none, the run is a deadlock.
* SimLock / SimCondition / SimTime: drop-in replacements for threading.Lock / Condition / time.
* SimStream: in-memory duplex transport implementing rpyc's Stream interface (byte exact), with
  optional manual frame delivery and fault injection.  It also works with no scheduler at all
  ("pump mode"): a poll on an empty inbox runs the peer until it has nothing left to do.
* FakeSocket / FakePoll: socket-level fakes under the *real* SocketStream.

Nothing in /repo is modified: the objects above are installed as instance attributes / module
globals by the drivers.
"""
import errno
import random
import socket
import threading


class Deadlock(Exception):
    pass


class StepLimit(Exception):
    pass


class SimAbort(BaseException):
    """raised inside managed threads to unwind them when a run is torn down"""


class Op(object):
    __slots__ = ("kind", "obj", "enabled", "deadline", "info")

    def __init__(self, kind, obj=None, enabled=None, deadline=None, info=None):
        self.kind = kind
        self.obj = obj
        self.enabled = enabled
        self.deadline = deadline
        self.info = info

    def is_enabled(self):
        return True if self.enabled is None else bool(self.enabled())

    def __repr__(self):
        return "Op(%s,%s,%s)" % (self.kind, getattr(self.obj, "name", None), self.info)


class SimThread(object):
    def __init__(self, sched, name, fn, args, kwargs):
        self.sched = sched
        self.name = name
        self.fn = fn
        self.args = args
        self.kwargs = kwargs
        self.go = threading.Semaphore(0)
        self.pending = Op("start")
        self.wake = None
        self.done = False
        self.exc = None
        self.result = None
        self.notified = False
        self.inject = None
        self.depth = 0
        self.idx = len(sched.threads)
        self.thread = threading.Thread(target=self._main, name="sim-" + name)
        self.thread.daemon = True

    def _main(self):
        s = self.sched
        s._by_ident[threading.get_ident()] = self
        self.go.acquire()
        try:
            if s.aborted:
                raise SimAbort()
            self.result = self.fn(*self.args, **self.kwargs)
        except SimAbort:
            pass
        except BaseException as ex:  # noqa
            self.exc = ex
        finally:
            self.done = True
            self.pending = None
            s._by_ident.pop(threading.get_ident(), None)
            s._back.release()

    def __repr__(self):
        return "<SimThread %s>" % self.name

    def join(self, timeout=None):
        """threading.Thread.join for managed threads: the caller (a managed thread) waits until this one has ended"""
        s = self.sched
        if s.current() is None:
            if not self.done:
                raise Deadlock("unmanaged thread would wait for %s to end" % self.name)
            return
        s.yield_op("join", self, enabled=lambda: self.done, deadline=None if timeout is None else s.now + timeout)

    def is_alive(self):
        return not self.done


class Scheduler(object):
    def __init__(self):
        self.now = 0.0
        self.threads = []
        self._by_ident = {}
        self._back = threading.Semaphore(0)
        self.steps = 0
        self.aborted = False
        self.last = None           # thread that ran last
        self.trace = []            # (thread name, op kind, wake) per step
        self.on_step = None        # callback(sched, thread, op, wake) after each step
        self.preemptions = 0

    # -- thread side
    def current(self):
        return self._by_ident.get(threading.get_ident())

    def yield_op(self, kind, obj=None, enabled=None, deadline=None, info=None):
        t = self.current()
        if t is None:
            return "unmanaged"
        if self.aborted:
            raise SimAbort()
        while True:
            t.pending = Op(kind, obj, enabled, deadline, info)
            self._back.release()
            t.go.acquire()
            if self.aborted:
                raise SimAbort()
            if t.inject is None:
                return t.wake
            # the schedule asks this thread to run something re-entrantly (a finalizer) before the
            # operation it announced; afterwards the operation is announced again
            f, t.inject = t.inject, None
            t.depth += 1
            try:
                f()
            finally:
                t.depth -= 1

    # -- driver side
    def spawn(self, name, fn, *args, **kwargs):
        t = SimThread(self, name, fn, args, kwargs)
        self.threads.append(t)
        t.thread.start()
        return t

    def thread(self, name):
        for t in self.threads:
            if t.name == name:
                return t
        raise KeyError(name)

    def live(self):
        return [t for t in self.threads if not t.done]

    def quiescent(self):
        """no managed thread can take a step right now (all blocked or done); the clock is not advanced"""
        return not any(t.pending.is_enabled() for t in self.live())

    def settle(self, policy=None, max_steps=200000):
        """run until every managed thread is blocked, without advancing virtual time"""
        self.run(policy or FirstPolicy(), until=self.quiescent, max_steps=max_steps)

    def call(self, fn, *args, policy=None, name=None, max_steps=200000):
        """run fn in a fresh managed thread to completion (other managed threads run as scheduled);
        returns its result or re-raises its exception in the calling (unmanaged) thread"""
        t = self.spawn(name or "call%d" % len(self.threads), fn, *args)
        self.run(policy or FirstPolicy(), until=lambda: t.done, max_steps=max_steps)
        self.threads.remove(t)
        for i, x in enumerate(self.threads):
            x.idx = i
        if t.exc is not None:
            raise t.exc
        return t.result

    def choices(self):
        """list of (thread, wake) that may happen next; advances the clock if nobody is enabled"""
        live = self.live()
        if not live:
            return []
        en = [(t, "go") for t in live if t.pending.is_enabled()]
        if not en:
            dl = [t.pending.deadline for t in live if t.pending.deadline is not None]
            if not dl:
                raise Deadlock("deadlock: " + "; ".join("%s blocked at %r" % (t.name, t.pending) for t in live))
            self.now = max(self.now, min(dl))
        to = [(t, "timeout") for t in live
              if t.pending.deadline is not None and t.pending.deadline <= self.now and not t.pending.is_enabled()]
        return en + to

    def step(self, t, wake="go", inject=None):
        op = t.pending
        if inject is not None:
            t.inject = inject
        self.steps += 1
        if self.last is not None and self.last is not t and not self.last.done \
                and self.last.pending is not None and self.last.pending.is_enabled():
            self.preemptions += 1
        t.wake = wake
        self.trace.append((t.name, op.kind, wake))
        t.go.release()
        self._back.acquire()
        self.last = t
        if self.on_step:
            self.on_step(self, t, op, wake)
        return op

    def run(self, policy, until=None, max_steps=200000):
        max_steps += self.steps          # a budget for this call, not for the scheduler's lifetime
        while True:
            if until is not None and until():
                return
            ch = self.choices()
            if not ch:
                return
            if self.steps >= max_steps:
                raise StepLimit("step limit %d reached" % max_steps)
            t, wake = policy.choose(self, ch)
            self.step(t, wake)

    def abort(self):
        """tear down: unwind every managed thread"""
        self.aborted = True
        for t in self.threads:
            if not t.done:
                t.go.release()
        for t in self.threads:
            t.thread.join(5)


# --------------------------------------------------------------------------- policies
def _order(sched, choices):
    """deterministic order: the thread that ran last first (non-preemptive default), then by index"""
    last = sched.last
    return sorted(choices, key=lambda c: (0 if c[0] is last else 1, c[0].idx, 0 if c[1] == "go" else 1))


class FirstPolicy(object):
    def choose(self, sched, choices):
        return _order(sched, choices)[0]


class RandomPolicy(object):
    def __init__(self, rng, stickiness=0.0):
        self.rng = rng
        self.stickiness = stickiness
        self.record = []

    def choose(self, sched, choices):
        ch = _order(sched, choices)
        if self.stickiness and ch[0][0] is sched.last and self.rng.random() < self.stickiness:
            i = 0
        else:
            i = self.rng.randrange(len(ch))
        self.record.append(i)
        return ch[i]


class IndexPolicy(object):
    """replays a recorded list of choice indices (as produced by RandomPolicy.record / DFS), then first"""

    def __init__(self, indices):
        self.indices = list(indices)
        self.record = []
        self.trace = []

    def choose(self, sched, choices):
        ch = _order(sched, choices)
        i = len(self.record)
        idx = self.indices[i] if i < len(self.indices) else 0
        if idx >= len(ch):
            idx = 0
        self.record.append(idx)
        self.trace.append((len(ch), idx))
        return ch[idx]


class NamePolicy(object):
    """replays a list of thread names (a TLC behaviour); raises if the named thread cannot run"""

    def __init__(self, names):
        self.names = list(names)
        self.i = 0

    def choose(self, sched, choices):
        if self.i >= len(self.names):
            return _order(sched, choices)[0]
        want = self.names[self.i]
        self.i += 1
        wake = "go"
        if isinstance(want, tuple):
            want, wake = want
        for c in choices:
            if c[0].name == want and c[1] == wake:
                return c
        for c in choices:
            if c[0].name == want:
                return c
        raise KeyError("thread %s not schedulable at step %d; choices=%s" % (
            want, self.i - 1, [(c[0].name, c[1], c[0].pending) for c in choices]))


class BoundedDFSPolicy(IndexPolicy):
    """IndexPolicy that restricts choices once the preemption bound is used up"""

    def __init__(self, indices, bound):
        IndexPolicy.__init__(self, indices)
        self.bound = bound

    def choose(self, sched, choices):
        ch = _order(sched, choices)
        if self.bound is not None and sched.preemptions >= self.bound and ch[0][0] is sched.last:
            ch = [c for c in ch if c[0] is sched.last]
        i = len(self.record)
        idx = self.indices[i] if i < len(self.indices) else 0
        if idx >= len(ch):
            idx = 0
        self.record.append(idx)
        self.trace.append((len(ch), idx))
        return ch[idx]


def dfs_explore(run_one, max_runs=None, bound=None):
    """Stateless DFS over schedules.  run_one(policy) executes one complete run.  Yields (run_no, policy)."""
    prefix = []
    runs = 0
    while True:
        pol = BoundedDFSPolicy(prefix, bound)
        run_one(pol)
        runs += 1
        yield runs, pol
        tr = pol.trace
        while tr and tr[-1][1] + 1 >= tr[-1][0]:
            tr.pop()
        if not tr:
            return
        prefix = [idx for _, idx in tr[:-1]] + [tr[-1][1] + 1]
        if max_runs is not None and runs >= max_runs:
            return


# --------------------------------------------------------------------------- primitives
class SimLock(object):
    def __init__(self, sched, name="lock"):
        self.sched = sched
        self.name = name
        self.owner = None
        self.log = None    # optional list receiving (event, thread name)

    def _me(self):
        t = self.sched.current()
        return t if t is not None else "unmanaged-%d" % threading.get_ident()

    def acquire(self, blocking=True, timeout=-1):
        s = self.sched
        if s.current() is None:
            if self.owner is None:
                self.owner = self._me()
                return True
            if not blocking:
                return False
            raise Deadlock("unmanaged thread would block on %s" % self.name)
        if not blocking:
            s.yield_op("trylock", self)
            if self.owner is None:
                self.owner = s.current()
                return True
            return False
        dl = None if timeout is None or timeout < 0 else s.now + timeout
        r = s.yield_op("lock", self, enabled=lambda: self.owner is None, deadline=dl)
        if r == "timeout":
            return False
        self.owner = s.current()
        return True

    def release(self):
        self.sched.yield_op("unlock", self)
        if self.owner is None:
            raise RuntimeError("release unlocked lock")
        self.owner = None

    def locked(self):
        return self.owner is not None

    def __enter__(self):
        self.acquire()
        return self

    def __exit__(self, *a):
        self.release()


class QuietSimLock(object):
    """a (re-entrant) lock for auxiliary critical sections: schedulable when contended - a managed thread that finds it taken
    waits as a scheduling operation instead of blocking for real - but taking or releasing it uncontended is not a step of
    its own, so the operation sequences the specifications speak of stay as they are"""

    def __init__(self, sched, name="aux"):
        self.sched = sched
        self.name = name
        self.owner = None
        self.depth = 0

    def _me(self):
        t = self.sched.current()
        return t if t is not None else "unmanaged-%d" % threading.get_ident()

    def acquire(self, blocking=True, timeout=-1):
        me = self._me()
        if self.owner is me:
            self.depth += 1
            return True
        if self.owner is not None:
            if not blocking:
                return False
            if self.sched.current() is None:
                raise Deadlock("unmanaged thread would block on %s" % self.name)
            self.sched.yield_op("lock", self, enabled=lambda: self.owner is None)
        self.owner = me
        self.depth = 1
        return True

    def release(self):
        self.depth -= 1
        if self.depth <= 0:
            self.owner = None
            self.depth = 0

    def locked(self):
        return self.owner is not None

    def __enter__(self):
        self.acquire()
        return self

    def __exit__(self, *a):
        self.release()


class SimCondition(object):
    def __init__(self, sched, lock=None, name="cond"):
        self.sched = sched
        self.name = name
        self._lock = lock if lock is not None else SimLock(sched, name + ".lock")
        self.waiters = []

    def acquire(self, *a, **k):
        return self._lock.acquire(*a, **k)

    def release(self):
        return self._lock.release()

    def __enter__(self):
        self._lock.acquire()
        return self

    def __exit__(self, *a):
        self._lock.release()

    def wait(self, timeout=None):
        s = self.sched
        t = s.current()
        if t is None:
            raise Deadlock("unmanaged thread would wait on %s" % self.name)
        s.yield_op("cond_wait", self)
        # atomically: enter wait set and release the lock
        t.notified = False
        self.waiters.append(t)
        self._lock.owner = None
        dl = None if timeout is None else s.now + max(0, timeout)
        r = s.yield_op("cond_blocked", self, enabled=lambda: t.notified, deadline=dl)
        got = True
        if r == "timeout" and not t.notified:
            got = False
            if t in self.waiters:
                self.waiters.remove(t)
        s.yield_op("lock", self._lock, enabled=lambda: self._lock.owner is None)
        self._lock.owner = t
        return got

    def wait_for(self, predicate, timeout=None):
        """as threading.Condition.wait_for"""
        end = None if timeout is None else self.sched.now + max(0, timeout)
        result = predicate()
        while not result:
            if end is not None:
                left = end - self.sched.now
                if left <= 0:
                    break
                self.wait(left)
            else:
                self.wait(None)
            result = predicate()
        return result

    def notify(self, n=1):
        self.sched.yield_op("notify", self)
        for w in self.waiters[:n]:
            w.notified = True
        del self.waiters[:n]

    def notify_all(self):
        self.sched.yield_op("notify_all", self)
        for w in self.waiters:
            w.notified = True
        del self.waiters[:]

    notifyAll = notify_all


class SimTime(object):
    """stand-in for the `time` module inside rpyc modules"""

    def __init__(self, sched):
        self.sched = sched

    def time(self):
        return self.sched.now

    monotonic = time

    def sleep(self, d):
        s = self.sched
        if s.current() is None:
            s.now += max(0, d)
            return
        s.yield_op("sleep", None, enabled=lambda: False, deadline=s.now + max(0, d))

    def __getattr__(self, name):
        import time as _t
        return getattr(_t, name)


# --------------------------------------------------------------------------- in-memory stream
class Net(object):
    """a duplex link between two SimStreams.  manual=True holds written bytes back per direction until
    deliver() releases the next frame."""

    def __init__(self, sched, manual=False):
        self.sched = sched
        self.manual = manual
        self.a = SimStream(self, "A")
        self.b = SimStream(self, "B")
        self.a.peer, self.b.peer = self.b, self.a
        self.frames = []          # every complete frame written: (side name, bytes of frame payload incl header)
        self.fault = None         # callable(stream, op, callno) -> None | 'eof' | 'error'
        self.calls = 0
        self.wire_log = []        # (side, bytes) per write call

    def deliver(self, frm):
        """manual mode: move the next held frame written by stream `frm` into the peer's inbox"""
        st = frm
        n = _frame_len(st.held)
        if n is None:
            raise IndexError("no complete frame in flight from %s" % st.name)
        st.peer.inbox += st.held[:n]
        del st.held[:n]
        return n

    def in_flight(self, frm):
        """complete frames currently held back (manual mode), as list of raw frames"""
        out = []
        buf = bytes(frm.held)
        while True:
            n = _frame_len(buf)
            if n is None:
                break
            out.append(buf[:n])
            buf = buf[n:]
        return out


def _frame_len(buf):
    if len(buf) < 5:
        return None
    n = int.from_bytes(bytes(buf[:4]), "big") + 5 + 1
    return n if len(buf) >= n else None


def split_frames(data):
    out = []
    data = bytes(data)
    while True:
        n = _frame_len(data)
        if n is None:
            break
        out.append(data[:n])
        data = data[n:]
    return out, data


class SimStream(object):
    MAX_IO_CHUNK = 64000

    def __init__(self, net, name):
        self.net = net
        self.name = name
        self.inbox = bytearray()
        self.held = bytearray()      # manual mode: bytes written, not yet delivered
        self.peer = None
        self._closed = False
        self.pump = None             # pump mode: callable() -> bool (peer did something)
        self.written = bytearray()   # everything ever written (for frame-level oracles)
        self.nwrites = 0
        self.in_pump = False
        self.read_log = []           # (thread name or None, nbytes) per completed read

    # -- Stream interface
    @property
    def closed(self):
        return self._closed

    def close(self):
        self._closed = True

    def fileno(self):
        if self._closed:
            raise EOFError("stream has been closed")
        return 1000 + (0 if self.name == "A" else 1)

    def _fault(self, op):
        net = self.net
        net.calls += 1
        if net.fault is not None:
            f = net.fault(self, op, net.calls)
            if f:
                self.close()
                raise EOFError("injected %s at call %d (%s %s)" % (f, net.calls, self.name, op))

    def _readable(self):
        return bool(self.inbox) or self._closed or (self.peer._closed and not self.peer.held)

    def poll(self, timeout):
        from rpyc.lib import Timeout
        s = self.net.sched
        if self._closed:
            raise EOFError("stream has been closed")
        self._fault("poll")
        tl = Timeout(timeout).timeleft()
        if s.current() is None:
            if not self._readable():
                self._run_pump()
            if self._readable():
                if self._closed:
                    raise EOFError("stream has been closed")
                return True
            if tl is None:
                raise Deadlock("%s: poll(None) with nothing in flight would block forever" % self.name)
            s.now += tl
            return False
        dl = None if tl is None else s.now + tl
        r = s.yield_op("poll", self, enabled=self._readable, deadline=dl)
        if self._closed:
            raise EOFError("stream has been closed")
        if r == "timeout" and not self._readable():
            return False
        return True

    def _run_pump(self):
        if self.pump is None or self.in_pump:
            return
        self.in_pump = True
        try:
            self.pump()
        finally:
            self.in_pump = False

    def read(self, count):
        s = self.net.sched
        if self._closed:
            raise EOFError("stream has been closed")
        self._fault("read")

        def ready():
            return len(self.inbox) >= count or self._closed or (self.peer._closed and not self.peer.held)
        if s.current() is None:
            if not ready():
                self._run_pump()
            if not ready():
                raise Deadlock("%s: read(%d) would block forever (%d available)" % (self.name, count, len(self.inbox)))
        else:
            s.yield_op("read", self, enabled=ready, info=count)
        if self._closed:
            raise EOFError("stream has been closed")
        if len(self.inbox) < count:
            self.close()
            raise EOFError("connection closed by peer")
        data = bytes(self.inbox[:count])
        del self.inbox[:count]
        cur = s.current()
        self.read_log.append((cur.name if cur is not None else None, count))
        return data

    def write(self, data):
        s = self.net.sched
        if self._closed:
            raise EOFError("stream has been closed")
        s.yield_op("write", self, info=len(data))
        if self._closed:
            raise EOFError("stream has been closed")
        self._fault("write")
        if self.peer._closed:
            self.close()
            raise EOFError("injected: peer closed (EPIPE)")
        self.nwrites += 1
        self.written += data
        self.net.wire_log.append((self.name, bytes(data)))
        if self.net.manual:
            self.held += data
        else:
            self.peer.inbox += data


# --------------------------------------------------------------------------- fake sockets
class FakeSocketNet(object):
    """pair of connected fake sockets with scripted fragmentation and faults.

    script: callable(sock, op, callno, arg) -> action
        recv actions: ('data', k) return up to k bytes (default: all available up to n) | ('timeout',) | ('eagain',)
                      | ('error', errno) | ('eof',)
        send actions: ('accept', k) | ('error', errno)
    """

    def __init__(self, sched, script=None):
        self.sched = sched
        self.script = script
        self.calls = 0
        self.directed = False
        self.iolog = []      # one record per completed recv/send: dict(s, op, asked, kind, k)
        self.a = FakeSocket(self, "A", 2001)
        self.b = FakeSocket(self, "B", 2002)
        self.a.peer, self.b.peer = self.b, self.a
        self.log = []

    def by_fd(self, fd):
        return self.a if fd == self.a.fd else self.b if fd == self.b.fd else None


class FakeSocket(object):
    def __init__(self, net, name, fd):
        self.net = net
        self.name = name
        self.fd = fd
        self.buf = bytearray()
        self.peer = None
        self.closed = False
        self.shut_wr = False
        self.pump = None
        self.in_pump = False
        self.sent = bytearray()
        self.decision = None

    def _action(self, op, arg):
        net = self.net
        net.calls += 1
        act = net.script(self, op, net.calls, arg) if net.script else None
        net.log.append((self.name, op, net.calls, arg, act))
        return act

    def fileno(self):
        if self.closed:
            raise socket.error(errno.EBADF, "Bad file descriptor")
        return self.fd

    def _eof(self):
        return self.peer.closed or self.peer.shut_wr

    def _readable(self):
        return bool(self.buf) or self._eof() or self.closed

    def _directed(self, op, arg):
        """directed mode: the driver supplies the outcome of every call (self.decision) before stepping the thread"""
        s = self.net.sched
        s.yield_op(op, self, enabled=lambda: self.decision is not None, info=arg)
        act, self.decision = self.decision, None
        self.net.calls += 1
        self.net.log.append((self.name, op, self.net.calls, arg, act))
        return act

    def recv(self, n):
        if self.closed:
            raise socket.error(errno.EBADF, "Bad file descriptor")
        if self.net.directed:
            act = self._directed("recv", n)
            k = act[0]
            if k in ("timeout", "eagain", "error", "eof"):
                self.net.iolog.append({"s": self.name, "op": "recv", "asked": n, "kind": k, "k": 0})
            if k == "timeout":
                raise socket.timeout("timed out")
            if k == "eagain":
                raise socket.error(errno.EAGAIN, "Resource temporarily unavailable")
            if k == "error":
                raise socket.error(act[1], "injected")
            if k == "eof":
                return b""
            cnt = act[1]
            self.net.iolog.append({"s": self.name, "op": "recv", "asked": n, "kind": "ok", "k": cnt})
            if cnt > len(self.buf) or cnt > n or cnt < 1:
                raise RuntimeError("harness: directed recv of %d bytes impossible (asked %d, available %d)" % (
                    cnt, n, len(self.buf)))
            data = bytes(self.buf[:cnt])
            del self.buf[:cnt]
            return data
        act = self._action("recv", n)
        if act:
            k = act[0]
            if k in ("timeout", "eagain", "error", "eof"):
                self.net.iolog.append({"s": self.name, "op": "recv", "asked": n, "kind": k, "k": 0})
            if k == "timeout":
                raise socket.timeout("timed out")
            if k == "eagain":
                raise socket.error(errno.EAGAIN, "Resource temporarily unavailable")
            if k == "error":
                raise socket.error(act[1], "injected")
            if k == "eof":
                return b""
        s = self.net.sched
        if s.current() is None:
            if not self._readable() and self.pump and not self.in_pump:
                self.in_pump = True
                try:
                    self.pump()
                finally:
                    self.in_pump = False
            if not self._readable():
                raise Deadlock("%s: recv would block forever" % self.name)
        else:
            s.yield_op("recv", self, enabled=self._readable, info=n)
        if self.closed:
            raise socket.error(errno.EBADF, "Bad file descriptor")
        if not self.buf:
            self.net.iolog.append({"s": self.name, "op": "recv", "asked": n, "kind": "eof", "k": 0})
            return b""
        k = n
        if act and act[0] == "data":
            k = max(1, min(n, act[1]))
        data = bytes(self.buf[:k])
        del self.buf[:k]
        self.net.iolog.append({"s": self.name, "op": "recv", "asked": n, "kind": "ok", "k": len(data)})
        return data

    def send(self, data):
        if self.closed:
            raise socket.error(errno.EBADF, "Bad file descriptor")
        if self.net.directed:
            act = self._directed("send", len(data))
            if act[0] == "error":
                self.net.iolog.append({"s": self.name, "op": "send", "asked": len(data), "kind": "error", "k": 0})
                raise socket.error(act[1], "injected")
            cnt = act[1]
            self.net.iolog.append({"s": self.name, "op": "send", "asked": len(data), "kind": "ok", "k": cnt})
            if cnt < 1 or cnt > len(data):
                raise RuntimeError("harness: directed send of %d bytes impossible (offered %d)" % (cnt, len(data)))
            self.peer.buf += data[:cnt]
            self.sent += data[:cnt]
            return cnt
        self.net.sched.yield_op("send", self, info=len(data))
        act = self._action("send", len(data))
        if act and act[0] == "error":
            self.net.iolog.append({"s": self.name, "op": "send", "asked": len(data), "kind": "error", "k": 0})
            raise socket.error(act[1], "injected")
        if act and act[0] == "timeout":
            # a send that times out (possibly after part of the packet went out): for a stream that is as fatal as any error
            self.net.iolog.append({"s": self.name, "op": "send", "asked": len(data), "kind": "error", "k": 0})
            raise socket.timeout("timed out")
        if self.shut_wr or self.peer.closed:
            self.net.iolog.append({"s": self.name, "op": "send", "asked": len(data), "kind": "error", "k": 0})
            raise socket.error(errno.EPIPE, "Broken pipe")
        k = len(data)
        if act and act[0] == "accept":
            k = max(1, min(k, act[1]))
        self.peer.buf += data[:k]
        self.sent += data[:k]
        self.net.iolog.append({"s": self.name, "op": "send", "asked": len(data), "kind": "ok", "k": k})
        return k

    def sendall(self, data):
        while data:
            k = self.send(data)
            data = data[k:]

    def shutdown(self, how):
        if self.closed:
            raise socket.error(errno.EBADF, "Bad file descriptor")
        self.shut_wr = True

    def close(self):
        self.closed = True

    def settimeout(self, t):
        pass

    def setblocking(self, b):
        pass

    def getpeername(self):
        return ("sim-" + self.peer.name, self.peer.fd)

    def getsockname(self):
        return ("sim-" + self.name, self.fd)


class FakePoll(object):
    """stand-in for rpyc.lib.compat.poll as used by Stream.poll (one fd, mode 'r')"""
    net = None   # set by subclassing:  type('P', (FakePoll,), {'net': net})

    def __init__(self):
        self.fds = []

    def register(self, fd, mode):
        self.fds.append(fd)

    def unregister(self, fd):
        self.fds.remove(fd)

    def poll(self, timeout=None):
        net = self.net
        s = net.sched
        socks = [net.by_fd(fd) for fd in self.fds]
        act = socks[0]._action("poll", timeout) if socks and socks[0] else None
        if act and act[0] == "error":
            raise socket.error(act[1], "injected")

        def ready():
            # Linux semantics: data, end-of-stream from the peer, or a shutdown() of the socket itself wake a poller;
            # a mere close() of the descriptor by another thread does not
            return any(k is not None and (bool(k.buf) or k._eof() or k.shut_wr) for k in socks)
        if s.current() is None:
            k = socks[0]
            if not ready() and k.pump and not k.in_pump:
                k.in_pump = True
                try:
                    k.pump()
                finally:
                    k.in_pump = False
            if not ready():
                if timeout is None:
                    raise Deadlock("poll(None) would block forever")
                s.now += timeout
        else:
            dl = None if timeout is None else s.now + timeout
            s.yield_op("poll", socks[0], enabled=ready, deadline=dl)
        return [(k.fd, "r") for k in socks if k is not None and (bool(k.buf) or k._eof() or k.shut_wr)]


# --------------------------------------------------------------------------- wiring rpyc
def make_sched():
    return Scheduler()


def patch_time(sched, modules=("rpyc.lib", "rpyc.utils.helpers", "rpyc.core.async_", "rpyc.core.protocol")):
    """point the `time` global of the given rpyc modules at the virtual clock; returns an undo function"""
    import importlib
    st = SimTime(sched)
    saved = []
    for m in modules:
        mod = importlib.import_module(m)
        if hasattr(mod, "time"):
            saved.append((mod, mod.time))
            mod.time = st

    def undo():
        for mod, old in saved:
            mod.time = old
    return undo


def simulate_conn_locks(sched, conn, name):
    """replace the locks a Connection created for itself by schedulable ones (instance attributes only)"""
    for attr, cls in (("_recvlock", SimLock), ("_sendlock", SimLock)):
        if hasattr(conn, attr):
            setattr(conn, attr, cls(sched, name + "." + attr))
    if hasattr(conn, "_recv_event"):
        conn._recv_event = SimCondition(sched, name=name + "._recv_event")
    # auxiliary locks (whatever the working tree has of them): managed threads must never block on a real lock
    for attr in ("_cleanup_lock", "_proxy_count_lock"):
        if hasattr(conn, attr):
            setattr(conn, attr, QuietSimLock(sched, name + "." + attr))


def connect_pair(sched, service_a, service_b, config_a=None, config_b=None, manual=False, compress=True,
                 sim_locks=True):
    """two real Connections joined by an in-memory link.  Returns (conn_a, conn_b, net)."""
    from rpyc.core.channel import Channel
    net = Net(sched, manual=manual)
    ca = service_a._connect(Channel(net.a, compress=compress), config_a or {})
    cb = service_b._connect(Channel(net.b, compress=compress), config_b or {})
    if sim_locks:
        simulate_conn_locks(sched, ca, "A")
        simulate_conn_locks(sched, cb, "B")
    return ca, cb, net


def pump_pair(ca, cb, net):
    """pump mode (single thread): when one side polls/reads with an empty inbox, let the other side serve
    whatever it has received, until it has nothing left to do."""
    def mk(conn, stream):
        def pump():
            did = False
            while stream.inbox and not stream.closed and not conn.closed:
                try:
                    if not conn.serve(0):
                        break
                except EOFError:
                    break
                did = True
            return did
        return pump
    net.a.pump = mk(cb, net.b)
    net.b.pump = mk(ca, net.a)


# --------------------------------------------------------------------------- line-granularity yields
class LineYields(object):
    """Makes every source line of the given functions a scheduling point for managed threads
    (sys.monitoring LINE events, enabled per code object so nothing else is slowed down)."""
    TOOL = 3

    def __init__(self, sched, funcs):
        import sys
        self.sched = sched
        self.codes = []
        for f in funcs:
            f = getattr(f, "__func__", f)
            f = getattr(f, "fget", f)
            c = getattr(f, "__code__", None)
            if c is not None:
                self.codes.append(c)
        self.mon = sys.monitoring

    def __enter__(self):
        mon = self.mon
        try:
            mon.use_tool_id(self.TOOL, "verif-lines")
        except ValueError:
            mon.free_tool_id(self.TOOL)
            mon.use_tool_id(self.TOOL, "verif-lines")
        mon.register_callback(self.TOOL, mon.events.LINE, self._line)
        for c in self.codes:
            mon.set_local_events(self.TOOL, c, mon.events.LINE)
        return self

    def _line(self, code, lineno):
        s = self.sched
        if s.current() is not None and not s.aborted:
            s.yield_op("line", None, info=(code.co_name, lineno - code.co_firstlineno))

    def __exit__(self, *a):
        mon = self.mon
        for c in self.codes:
            mon.set_local_events(self.TOOL, c, 0)
        mon.register_callback(self.TOOL, mon.events.LINE, None)
        mon.free_tool_id(self.TOOL)


class SimList(list):
    """a list whose operations are scheduling points (used for Connection._send_queue)"""
    sched = None
    name = "list"

    def append(self, x):
        self.sched.yield_op("qappend", self)
        list.append(self, x)

    def pop(self, *a):
        self.sched.yield_op("qpop", self)
        return list.pop(self, *a)

    def __bool__(self):
        self.sched.yield_op("qbool", self)
        return list.__len__(self) > 0

    def __len__(self):
        return list.__len__(self)


def _install_unraisable_filter():
    import sys
    old = sys.unraisablehook

    def hook(u):
        if isinstance(u.exc_value, (SimAbort, Deadlock)) or u.exc_type in (SimAbort, Deadlock):
            return
        old(u)
    sys.unraisablehook = hook


_install_unraisable_filter()
