"""Breakpoints on real threads, without touching the code under test (sys.monitoring, PEP 669).

A Window names a place in a function of the working tree: the moment just before a given source line executes.  Arming it
makes the first thread that reaches the line stop there until the harness releases it, so that the harness can run some
other operation of the system to completion inside that window - a schedule chosen, not hoped for.  Lines are found from
the function's own code object (co_lines), so the windows follow whatever the working tree contains.
"""
import inspect
import sys
import threading

_mon = sys.monitoring
TOOL = _mon.DEBUGGER_ID
_lock = threading.Lock()
_armed = {}          # (code, line) -> Breakpoint
_active = False


class Breakpoint(object):
    def __init__(self, code, line, thread_filter=None, skip=0):
        self.code, self.line = code, line
        self.hit = threading.Event()
        self.go = threading.Event()
        self.thread = None
        self.filter = thread_filter
        self.skip = skip
        self.done = False

    def wait_hit(self, timeout):
        return self.hit.wait(timeout)

    def release(self):
        self.go.set()


def _on_line(code, line):
    bp = _armed.get((code, line))
    if bp is None or bp.done:
        return None
    me = threading.current_thread()
    if bp.filter is not None and not bp.filter(me):
        return None
    with _lock:
        if bp.done:
            return None
        if bp.skip > 0:
            bp.skip -= 1
            return None
        bp.done = True
        bp.thread = me
    bp.hit.set()
    bp.go.wait(20.0)          # a forgotten breakpoint must not hang the run for ever
    return None


def _ensure():
    global _active
    if not _active:
        _mon.use_tool_id(TOOL, "verif-linepause")
        _mon.register_callback(TOOL, _mon.events.LINE, _on_line)
        _active = True


def arm(func, line, thread_filter=None, skip=0):
    """stop the first (matching) thread about to execute `line` of `func` (a function or code object)"""
    _ensure()
    code = func if inspect.iscode(func) else func.__code__
    bp = Breakpoint(code, line, thread_filter, skip)
    _armed[(code, line)] = bp
    _mon.set_local_events(TOOL, code, _mon.events.LINE)
    return bp


def disarm_all():
    for (code, line), bp in list(_armed.items()):
        bp.done = True
        bp.go.set()
        try:
            _mon.set_local_events(TOOL, code, 0)
        except Exception:
            pass
    _armed.clear()


def shutdown():
    global _active
    disarm_all()
    if _active:
        _mon.register_callback(TOOL, _mon.events.LINE, None)
        _mon.free_tool_id(TOOL)
        _active = False


def lines_of(func):
    """[(line number, stripped source text)] for every line of the function's body that carries code"""
    code = func.__code__
    nums = sorted({ln for (_, _, ln) in code.co_lines() if ln is not None and ln != code.co_firstlineno})
    try:
        src, first = inspect.getsourcelines(func)
    except (OSError, TypeError):
        return [(n, "") for n in nums]
    out = []
    for n in nums:
        i = n - first
        text = src[i].strip() if 0 <= i < len(src) else ""
        out.append((n, text))
    return out


def find_line(func, text):
    """line number of the first line of func whose source contains `text`, or None"""
    for n, t in lines_of(func):
        if text in t:
            return n
    return None
