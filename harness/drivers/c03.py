"""C03 - immutable values travel by copy, everything else by reference; identity survives (spec: RpycBoxing).

TLC evaluates the boxing table of the specification for every value shape up to nesting depth 2 (7734 shapes: leaves
= exact plain value / subclass instance / container / function / class / module, combined in tuples, frozensets and
slices), checks its meta-properties and exports it, and enumerates the identity histories (send, echo back, send again,
drop) for two objects.  Every shape is refined to concrete Python objects and sent over a real connection pair: the
receiving handler inspects what arrived (exact type and equality for copies, proxy-of-the-right-object for references,
fresh tuples for mixed tuples), passes it back, and the sender checks that references come home as the original object
itself; containers are mutated through the proxy.  Every history edge is replayed with `is` checks on the holder's
proxies.  obtain / deliver are checked under classic mode.
"""
import collections
import enum
import gc
import json
import os
import random
import shutil
import sys

from harness import sim, tlc
from harness.common import Check, main_wrapper, OUT
from harness.pair import Pair

PID = "C03"


class Color(enum.IntEnum):
    RED = 1
    BLUE = 2


Point = collections.namedtuple("Point", "x y")


class MyStr(str):
    pass


class MyInt(int):
    pass


class MyTuple(tuple):
    pass


class MyBytes(bytes):
    pass


class MyFloat(float):
    pass


class UserClass(object):
    def __init__(self, v=0):
        self.v = v


class Falsy(object):
    """an object that is false: whoever tests a proxy for truth instead of for presence treats it as absent"""

    def __bool__(self):
        return False


class Empty(object):
    def __len__(self):
        return 0


def make_row_class():
    class Row(object):
        def __init__(self):
            self.v = 1
    return Row


def a_function(x=1):
    return x + 1


def make_leaf(leaf, rnd, hashable=False):
    if leaf == "plain":
        return rnd.choice([5, -300, 10 ** 30, "txt", "", b"by", 2.5, None, True, False, 3 + 4j, Ellipsis, NotImplemented,
                           (1, "a"), frozenset([1, 2]), slice(1, 5, None)])
    if leaf == "subclass":
        return rnd.choice([Color.RED, Point(1, 2), MyStr("s"), MyInt(7), MyTuple((1, 2)), MyBytes(b"b"), MyFloat(1.5)])
    if leaf == "container":
        return rnd.choice([[1, 2], {"a": 1}, {1, 2}, bytearray(b"x")])
    if leaf == "function":
        return a_function
    if leaf == "class":
        return UserClass
    return rnd.choice([sys, os, json])


def build(shape, rnd, leaves):
    """concrete value for a shape; `leaves` collects (path, leaf kind, object)"""
    k = shape["k"]
    if k == "leaf":
        v = make_leaf(shape["leaf"], rnd)
        leaves.append((shape["leaf"], v))
        return v
    items = [build(s, rnd, leaves) for s in shape["items"]]
    if k == "tuple":
        return tuple(items)
    if k == "fset":
        return frozenset(items)
    return slice(items[0], items[1], None)


def is_proxy(x):
    return hasattr(type(x), "____id_pack__") or "netref" in type(type(x)).__name__.lower()


def proxied_id(x):
    return object.__getattribute__(x, "____id_pack__")[2] or object.__getattribute__(x, "____id_pack__")[1]


def obj_ident(o):
    import inspect
    return id(o)


def check_arrival(arr, got, orig, where):
    """structural check of what arrived against the specification; returns list of messages"""
    bad = []
    if arr["as"] == "copy":
        if is_proxy(got):
            bad.append("%s: a plain value %r arrived as a reference" % (where, orig))
        elif type(got) is not type(orig):
            bad.append("%s: %r arrived with type %s instead of %s" % (where, orig, type(got).__name__, type(orig).__name__))
        elif not (got == orig or (got != got and orig != orig) or got is orig):
            bad.append("%s: %r arrived as %r" % (where, orig, got))
    elif arr["as"] == "proxy":
        if not is_proxy(got):
            bad.append("%s: %s %r arrived by value as %s %r" % (where, type(orig).__name__, orig, type(got).__name__, got))
        else:
            idp = object.__getattribute__(got, "____id_pack__")
            if id(orig) not in (idp[1], idp[2]):
                bad.append("%s: the reference does not designate the object that was sent" % where)
    else:
        if type(got) is not tuple or len(got) != len(arr["items"]):
            bad.append("%s: a tuple mixing values and references arrived as %s" % (where, type(got).__name__))
        else:
            for i, (a, g, o) in enumerate(zip(arr["items"], got, orig)):
                bad += check_arrival(a, g, o, "%s[%d]" % (where, i))
    return bad


def check_home(arr, back, orig, where):
    """what the sender gets when the receiver passes the thing back"""
    bad = []
    if arr["as"] == "copy":
        if type(back) is not type(orig) or not (back == orig or (back != back and orig != orig)):
            bad.append("%s: value %r came back as %r" % (where, orig, back))
    elif arr["as"] == "proxy":
        if back is not orig:
            bad.append("%s: a reference passed back to its owner is %s, not the original %s object" % (
                where, "a proxy" if is_proxy(back) else repr(back)[:40], type(orig).__name__))
    else:
        if type(back) is not tuple or len(back) != len(orig):
            bad.append("%s: tuple came back as %r" % (where, type(back)))
        else:
            for i, (a, g, o) in enumerate(zip(arr["items"], back, orig)):
                bad += check_home(a, g, o, "%s[%d]" % (where, i))
    return bad


class Fixture(object):
    def __init__(self):
        import rpyc
        fx = self
        self.expect = None
        self.report = []
        self.kept = {}

        class Recv(rpyc.Service):
            def exposed_receive(self, x):
                arr, orig = fx.expect
                fx.report += check_arrival(arr, x, orig, "received")
                return x

            def exposed_keep(self, name, x):
                items = x if type(x) is tuple else (x,)
                for it in items:
                    if type(it) is not int:          # the tuple variants carry a plain 5 next to the object
                        fx.kept.setdefault(name, []).append(it)
                return len(fx.kept[name])

            def exposed_mutate(self, x, how):
                if how == "list":
                    x.append(99)
                elif how == "dict":
                    x["new"] = 99
                elif how == "set":
                    x.add(99)
                elif how == "bytearray":
                    x.append(9)
                return None

        class Owner(rpyc.Service):
            def exposed_check(self, name, x):
                return x is fx.objs[name]
        self.objs = {}
        self.pair = Pair(Owner(), Recv(), config_a={"allow_all_attrs": True, "allow_setattr": True},
                         config_b={}, patch_time=False)
        a = self.pair.a
        self.root = a.call(lambda: a.conn.root)
        self.m_receive = a.call(lambda: self.root.receive)
        self.m_keep = a.call(lambda: self.root.keep)
        self.m_mutate = a.call(lambda: self.root.mutate)

    def close(self):
        self.pair.close()


def run_shapes(chk, rows, rnd, frac):
    fx = Fixture()
    a = fx.pair.a
    n = 0
    try:
        for r in rows:
            if frac < 1.0 and rnd.random() > frac:
                continue
            leaves = []
            try:
                val = build(r["shape"], rnd, leaves)
            except TypeError:
                continue
            fx.expect = (r["arrives"], val)
            fx.report = []
            tag = object()
            a.do(tag, lambda: fx.m_receive(val))
            kind, back = a.results.pop(tag, ("none", None))
            n += 1
            chk.evaluated()
            chk.distinct(("shape", json.dumps(r["shape"], sort_keys=True)))
            bad = list(fx.report)
            if kind != "ok":
                bad.append("sending %r failed: %r" % (val, back))
            else:
                bad += check_home(r["arrives"], back, val, "returned")
            for msg in bad:
                chk.violation("shape:%s" % msg.split(":")[1].strip()[:40], "C03 %s [shape %s, value %s]" % (msg, json.dumps(r["shape"]), repr(val)[:80]),
                              {"mode": "shape", "shape": r["shape"]})
            if not bad:
                chk.validated()
            if n % 2500 == 1:
                chk.sample({"kind": "shape sent over a real connection pair", "shape": r["shape"], "value": repr(val)[:80],
                            "specified": r["arrives"]})
            del back
            if n % 400 == 0:
                gc.collect()
        # a change made through the reference is a change to the owner's object
        for how, obj, test in (("list", [1], lambda o: o == [1, 99]), ("dict", {}, lambda o: o == {"new": 99}),
                               ("set", {1}, lambda o: o == {1, 99}), ("bytearray", bytearray(b"a"), lambda o: o == bytearray(b"a\x09"))):
            a.call(lambda: fx.m_mutate(obj, how))
            chk.evaluated()
            if not test(obj):
                chk.violation("mutation:" + how, "C03 a %s mutated through its reference did not change at its owner: %r" % (how, obj),
                              {"mode": "mutation", "how": how})
    finally:
        fx.close()
    return n


def run_histories(chk, g, rnd, max_paths):
    paths = tlc.edge_cover_paths(g)
    if len(paths) > max_paths:
        rnd.shuffle(paths)
        paths = paths[:max_paths]
    for pi, path in enumerate(paths):
        fx = Fixture()
        a, b = fx.pair.a, fx.pair.b
        # the objects are true or false, built-in or not: identity must not depend on what the object says about itself
        fx.objs = {"o1": [[1], [], Falsy(), set()][pi % 4], "o2": [{"k": 2}, {}, Empty(), bytearray()][(pi // 2) % 4]}
        if pi % 5 == 4:
            # two distinct classes that say the same about themselves (module, name): made twice by one factory
            fx.objs = {"o1": make_row_class(), "o2": make_row_class()}
        elif pi % 5 == 3 and pi % 2:
            # a class and an instance of it: their identifiers differ in the instance part only
            cls = make_row_class()
            fx.objs = {"o1": cls, "o2": cls()}
        labels = []
        try:
            cur = path[0]
            for (label, dst) in path[1:]:
                if g.nodes[cur] == g.nodes[dst]:
                    cur = dst
                    continue
                labels.append(label)
                act = label.split("(")[0]
                o = label.split('"')[1]
                obj = fx.objs[o]
                chk.evaluated()
                if act == "SendObj":
                    before = list(fx.kept.get(o, []))
                    payload = rnd.choice([obj, (obj, 5), (obj, obj)])
                    a.call(lambda: fx.m_keep(o, payload))
                    handles = fx.kept[o]
                    if not all(is_proxy(h) for h in handles):
                        chk.violation("hist:by-value", "C03 after %s: a mutable object arrived by value" % labels, {"labels": labels})
                    elif before and any(h is not before[0] for h in handles):
                        chk.violation("hist:second-proxy", "C03 after %s: the same remote object received again while its proxy is "
                                      "alive is a different proxy object" % labels, {"mode": "history", "labels": labels})
                    elif any(fx.kept.get(p) and fx.kept[p][0] is handles[0] for p in fx.objs if p != o):
                        chk.violation("hist:shared-proxy", "C03 after %s: two different remote objects are represented by one proxy"
                                      % labels, {"mode": "history", "labels": labels})
                    elif len({id(h) for h in handles}) != 1:
                        chk.violation("hist:second-proxy", "C03 after %s: two occurrences of one object in a tuple became two proxies"
                                      % labels, {"mode": "history", "labels": labels})
                elif act == "Echo":
                    root_b = b.call(lambda: b.conn.root)
                    h = fx.kept[o][0]
                    res = b.call(lambda: root_b.check(o, h))
                    del h
                    if res is not True:
                        chk.violation("hist:echo", "C03 after %s: a reference handed back to its owner is not the original object"
                                      % labels, {"mode": "history", "labels": labels})
                else:
                    b.call(fx.kept[o].clear)
                    fx.pair.settle()
                chk.distinct(("hist", cur, label, dst))
                cur = dst
            chk.validated()
            if pi < 1:
                chk.sample({"kind": "identity history replayed", "steps": labels})
        finally:
            fx.close()
        if pi % 30 == 29:
            gc.collect()
    return len(paths)


def classic_copy(chk):
    """obtain / deliver: an equal but independent object"""
    import rpyc
    from rpyc.core.service import ModuleNamespace
    from rpyc.utils import classic
    p = Pair(rpyc.VoidService(), rpyc.SlaveService(), patch_time=False)
    try:
        a = p.a
        root = a.call(lambda: a.conn.root)
        a.conn.modules = ModuleNamespace(a.call(lambda: root.getmodule))
        remote = a.call(lambda: root.eval("[1, [2, 3], {'k': (4, 5)}]"))
        local = a.call(lambda: classic.obtain(remote))
        chk.evaluated()
        if is_proxy(local) or local != [1, [2, 3], {"k": (4, 5)}] or type(local) is not list:
            chk.violation("obtain", "C03 obtain() returned %r" % (local,), {"mode": "obtain"})
        local.append("mine")
        rl = a.call(lambda: len(remote))
        if rl != 3:
            chk.violation("obtain:independent", "C03 changing the obtained copy changed the remote original", {"mode": "obtain"})
        # a value that travelled by copy but carries references inside: obtain must copy those too
        mixed = a.call(lambda: root.eval("((1, 2), 'txt', [1, 2, 3], {'k': 1})"))
        chk.evaluated()
        if type(mixed) is tuple and len(mixed) == 4 and is_proxy(mixed[2]):
            got = a.call(lambda: classic.obtain(mixed))
            if type(got) is not tuple or is_proxy(got[2]) or is_proxy(got[3]) or got != ((1, 2), "txt", [1, 2, 3], {"k": 1}):
                chk.violation("obtain:nested", "C03 obtain() of a tuple holding references returned %s" % (
                    [type(x).__name__ for x in got] if type(got) is tuple else type(got),), {"mode": "obtain"})
            else:
                got[2].append(4)
                if a.call(lambda: len(mixed[2])) != 3:
                    chk.violation("obtain:nested-independent", "C03 changing the obtained copy changed the owner's object", {"mode": "obtain"})
        else:
            chk.violation("obtain:setup", "C03 a tuple mixing values and containers did not arrive as a tuple with references", {})
        del mixed
        mine = {"a": [1, 2], "b": (3,)}
        delivered = a.call(lambda: classic.deliver(a.conn, mine))
        chk.evaluated()
        if not is_proxy(delivered):
            chk.violation("deliver", "C03 deliver() did not return a reference to the remote copy", {"mode": "deliver"})
        else:
            txt = a.call(lambda: str(delivered))
            mine["a"].append(99)
            txt2 = a.call(lambda: str(delivered))
            if txt != "{'a': [1, 2], 'b': (3,)}" or txt2 != txt:
                chk.violation("deliver:independent", "C03 delivered copy is %s then %s" % (txt, txt2), {"mode": "deliver"})
        del remote, delivered
    finally:
        p.close()


def main():
    chk = Check(PID)
    gc.disable()
    rnd = random.Random(chk.seed + 3)
    d = os.path.join(OUT, "c03.%d" % os.getpid())
    os.makedirs(d, exist_ok=True)
    f1 = os.path.join(d, "shapes.ndjson")
    res = tlc.require_ok(tlc.run_tlc("RpycBoxing", "MC_RpycBoxing.cfg", workers=4, coverage=True, env={"OUT_FILE": f1},
                                     dump=os.path.join(d, "graph")), "RpycBoxing")
    if res.violation:
        raise tlc.MachineryError("RpycBoxing violates " + res.violation)
    chk.add_tlc(res, "boxing table (7734 shapes, meta-properties as ASSUMEs) + identity histories of 2 objects, 5 steps")
    rows = [json.loads(l) for l in open(f1)]
    g = tlc.load_dot(os.path.join(d, "graph.dot"))
    shutil.rmtree(d, ignore_errors=True)
    n = run_shapes(chk, rows, rnd, 0.35 if not chk.thorough else 1.0)
    chk.cov["shapes_executed"] = n
    chk.cov["histories"] = run_histories(chk, g, rnd, 60 if not chk.thorough else 10 ** 6)
    classic_copy(chk)
    chk.assumptions += ["leaves are refined to representative concrete objects (enum members, named tuples, str/int/tuple/bytes/float "
                        "subclasses; list, dict, set, bytearray; a function, a class, modules)",
                        "the owner side runs with allow_all_attrs so that the receiver can mutate containers through the reference"]
    return chk.finish(rule="evaluations = shapes sent and passed back over a real connection pair + history steps; distinct = "
                      "distinct shapes and history edges", exhaustive=chk.thorough)


if __name__ == "__main__":
    main_wrapper(main)
