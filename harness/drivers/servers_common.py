"""Shared by C16 and C17: real rpyc servers over real loopback / unix sockets with real threads, driven along
behaviours of spec/RpycServer.tla.  No fixed sleeps: conditions are awaited with generous deadlines and outcomes are
classified by kind (EOFError vs. the request's own timeout), never by duration."""
import gc
import logging
import os
import random
import shutil
import socket
import struct
import tempfile
import threading
import time
import zlib

from harness import tlc
from harness.common import OUT

MAGIC = b"Ma6ik"
CALL_TIMEOUT = 8


def fd_count():
    return len(os.listdir("/proc/self/fd"))


def wait_for(pred, deadline=5.0, step=0.01):
    end = time.time() + deadline
    while time.time() < end:
        if pred():
            return True
        time.sleep(step)
    return pred()


class Registry(object):
    def __init__(self):
        self.hooks = {}
        self.connects = 0
        self.lock = threading.Lock()


def make_service(reg):
    import rpyc

    class CounterService(rpyc.Service):
        def on_connect(self, conn):
            self.n = 0
            self.lst = ["mine"]
            self.cred = conn._config.get("credentials")
            with reg.lock:
                reg.connects += 1
                reg.hooks[id(self)] = 0

        def on_disconnect(self, conn):
            with reg.lock:
                reg.hooks[id(self)] = reg.hooks.get(id(self), 0) + 1

        def exposed_inc(self):
            self.n += 1
            return (self.n, id(self), self.cred)

        def exposed_getlist(self):
            return self.lst
    return CounterService


def authenticator(sock):
    from rpyc.utils.authenticators import AuthenticationError
    sock.settimeout(2)
    try:
        got = b""
        while len(got) < len(MAGIC) + 8:
            part = sock.recv(len(MAGIC) + 8 - len(got))
            if not part:
                break
            got += part
            if not MAGIC.startswith(got[:len(MAGIC)]):
                break
    except socket.error:
        raise AuthenticationError("no credentials")
    finally:
        sock.settimeout(None)
    if got[:len(MAGIC)] != MAGIC or len(got) < len(MAGIC) + 8:
        raise AuthenticationError("wrong magic word")
    # the credentials are the name the client announced: every connection must be served under its own
    return sock, got[len(MAGIC):].decode("ascii", "replace").strip()


def hello(name):
    return MAGIC + name.encode("ascii")[:8].ljust(8)


class PollRecorder(object):
    """stands in for ThreadPoolServer.poll_object: forwards everything, remembers which descriptors are registered"""

    def __init__(self, real):
        self._real = real
        self.registered = set()
        self.calls = 0

    def register(self, fd, mode):
        r = self._real.register(fd, mode)
        self.registered.add(fd)
        return r

    def modify(self, fd, mode):
        return self._real.modify(fd, mode)

    def unregister(self, fd):
        self.registered.discard(fd)
        return self._real.unregister(fd)

    def poll(self, timeout=None):
        self.calls += 1
        return self._real.poll(timeout)


class ServerFixture(object):
    def __init__(self, flavour, transport="tcp", auth=False):
        from rpyc.utils import server as srvmod
        self.flavour, self.transport, self.auth = flavour, transport, auth
        self.reg = Registry()
        self.fd0 = fd_count()
        lg = logging.getLogger("verif-server-%d" % id(self))
        lg.disabled = True
        lg.propagate = False
        cls = {"threaded": srvmod.ThreadedServer, "pool": srvmod.ThreadPoolServer, "oneshot": srvmod.OneShotServer}[flavour]
        kw = dict(authenticator=authenticator if auth else None, logger=lg, listener_timeout=0.05, auto_register=False)
        if flavour == "pool":
            kw["nbThreads"] = 4
        self.tmp = None
        if transport == "unix":
            self.tmp = tempfile.mkdtemp(prefix="verif-c17-")
            self.path = os.path.join(self.tmp, "s")
            self.server = cls(make_service(self.reg), socket_path=self.path, **kw)
        else:
            self.server = cls(make_service(self.reg), hostname="127.0.0.1", port=0, **kw)
        self.pollrec = None
        if flavour == "pool" and hasattr(self.server, "poll_object"):
            self.pollrec = self.server.poll_object = PollRecorder(self.server.poll_object)
        self.thread = self.server._start_in_thread()
        self.clients = {}      # name -> dict(sock, conn, sid, calls)
        self.closed = False

    # -- clients
    def raw_socket(self):
        if self.transport == "unix":
            s = socket.socket(socket.AF_UNIX, socket.SOCK_STREAM)
            s.settimeout(3)
            s.connect(self.path)
        else:
            s = socket.create_connection(("127.0.0.1", self.server.port), timeout=3)
        return s

    def connect(self, name):
        import rpyc
        from rpyc.core.stream import SocketStream
        s = self.raw_socket()
        if self.auth:
            s.sendall(hello(name))
        conn = rpyc.connect_stream(SocketStream(s), config={"sync_request_timeout": CALL_TIMEOUT})
        self.clients[name] = {"sock": s, "conn": conn, "sid": None, "calls": 0, "objid": None}
        return conn

    def call(self, name):
        """-> ('ok', n, sid) | ('eof',) | ('timeout',) | ('exc', repr)"""
        c = self.clients[name]
        try:
            n, sid, cred = c["conn"].root.inc()
            if self.auth and cred != name[:8]:
                return ("credentials", cred, name)        # served under somebody else's credentials
            return ("ok", n, sid)
        except EOFError:
            return ("eof",)
        except TimeoutError:
            return ("timeout",)
        except Exception as ex:  # noqa
            if isinstance(ex, (ConnectionError, OSError)):
                return ("eof",)
            return ("exc", repr(ex))

    def leave(self, name, how):
        c = self.clients[name]
        if how == "graceful":
            try:
                c["conn"].close()
            except Exception:
                pass
        else:
            try:
                c["sock"].setsockopt(socket.SOL_SOCKET, socket.SO_LINGER, struct.pack("ii", 1, 0))
            except Exception:
                pass
            try:
                c["sock"].close()
            except Exception:
                pass
            try:
                c["conn"].close()
            except Exception:
                pass

    def misbehave(self, kind, rnd):
        try:
            s = self.raw_socket()
        except Exception:
            return
        try:
            if self.auth:
                s.sendall(b"WRONG" if kind == "auth_fail" else hello("bad"))
            if kind == "random_bytes":
                s.sendall(bytes(rnd.getrandbits(8) for _ in range(rnd.randint(1, 200))))
            elif kind == "truncated_packet":
                s.sendall(struct.pack("!LB", 100, 0) + b"only-part")
            elif kind == "huge_length":
                s.sendall(struct.pack("!LB", 0xfffffff0, 0) + b"x" * 20)
            elif kind == "corrupt_zlib":
                body = b"this is not zlib data at all"
                s.sendall(struct.pack("!LB", len(body), 1) + body + b"\n")
            elif kind == "garbage_payload":
                body = bytes(rnd.getrandbits(8) for _ in range(30))
                s.sendall(struct.pack("!LB", len(body), 0) + body + b"\n")
            elif kind == "half_header":
                s.sendall(b"\x00\x00")
                time.sleep(0.05)
            elif kind == "poison_reply":
                # a well-formed but hostile conversation: a request whose argument is a reference to an object "of the client's", so
                # that the server asks back for its class (its own request number 0) - and the answer is an exception that is not
                # an Exception (SystemExit, KeyboardInterrupt, GeneratorExit), which the server's handler must not let through
                from harness import refbrine
                name = rnd.choice(["SystemExit", "KeyboardInterrupt", "GeneratorExit"])
                ref = (4, ("evil.Thing", 1000 + rnd.randrange(1000), 2000 + rnd.randrange(1000)))      # LABEL_REMOTE_REF
                for msg in ((1, 1, (1, (2, (ref,)))),                                                  # MSG_REQUEST, HANDLE_PING
                            (3, 0, (("builtins", name), (), (), "no traceback"))):                     # MSG_EXCEPTION to request 0
                    body = refbrine.dump(msg)
                    s.sendall(struct.pack("!LB", len(body), 0) + body + b"\n")
                time.sleep(0.15)
            elif kind in ("connect_only", "auth_fail"):
                pass
            if rnd.random() < 0.5:
                try:
                    s.setsockopt(socket.SOL_SOCKET, socket.SO_LINGER, struct.pack("ii", 1, 0))
                except Exception:
                    pass
        except Exception:
            pass
        finally:
            try:
                s.close()
            except Exception:
                pass

    def server_close(self):
        self.server.close()
        self.closed = True

    # -- observation
    def tracked(self):
        """how many client connections the server still holds (white box where available)"""
        n = 0
        try:
            n += len(self.server.clients)
        except Exception:
            pass
        if self.flavour == "pool":
            try:
                n = len(self.server.fd_to_conn)
            except Exception:
                pass
        return n

    def poll_leftovers(self):
        """descriptors still registered with the pool server's poll object that belong to no connection it serves"""
        if self.pollrec is None:
            return []
        try:
            return sorted(fd for fd in set(self.pollrec.registered) if fd not in self.server.fd_to_conn)
        except Exception:
            return []

    def listener_open(self):
        try:
            s = self.raw_socket()
        except Exception:
            return False
        try:
            if self.auth:
                s.sendall(hello("probe"))
            import rpyc
            from rpyc.core.stream import SocketStream
            conn = rpyc.connect_stream(SocketStream(s), config={"sync_request_timeout": 2})
            conn.root.inc()
            conn.close()
            return True
        except Exception:
            try:
                s.close()
            except Exception:
                pass
            return False

    def teardown(self):
        for c in self.clients.values():
            for f in (lambda: c["conn"].close(), lambda: c["sock"].close()):
                try:
                    f()
                except Exception:
                    pass
        try:
            self.server.close()
        except Exception:
            pass
        self.thread.join(5)
        if self.tmp:
            shutil.rmtree(self.tmp, ignore_errors=True)


def spec_graph(chk, oneshot, label):
    d = os.path.join(OUT, "srv.%d.%s" % (os.getpid(), label))
    os.makedirs(d, exist_ok=True)
    res = tlc.run_tlc("MC_RpycServer", "MC_RpycServer_oneshot.cfg" if oneshot else "MC_RpycServer.cfg", workers=4, coverage=True,
                      dump=os.path.join(d, "graph"))
    tlc.require_ok(res, "RpycServer")
    if res.violation:
        raise tlc.MachineryError("RpycServer violates " + res.violation)
    chk.add_tlc(res, "RpycServer (%s): 2 good + 2 bad clients, 9 misbehaviours, close at any point" % ("one-shot" if oneshot else "multi-client"))
    g = tlc.load_dot(os.path.join(d, "graph.dot"))
    shutil.rmtree(d, ignore_errors=True)
    return g


def replay_path(chk, g, path, flavour, transport, auth, rnd, focus):
    """focus: 'c16' | 'c17' | 'both'; returns list of (key, msg, which)"""
    fx = ServerFixture(flavour, transport, auth)
    bad = []
    labels = []
    sids = {}
    try:
        cur = path[0]
        for (label, dst) in path[1:]:
            st0, st = g.nodes[cur], g.nodes[dst]
            cur = dst
            if st0 == st:
                continue
            labels.append(label)
            name = label.split("(")[0]
            chk.evaluated()
            where = "after %s" % (labels[-7:],)
            if name == "Connect":
                c = label.split('"')[1]
                try:
                    fx.connect(c)
                except Exception as ex:
                    bad.append(("connect-refused", "%s a well-behaved client could not connect: %r" % (where, ex), "c16"))
                    break
            elif name == "Call":
                c = label.split('"')[1]
                r = fx.call(c)
                want = st["calls"][c]
                if r[0] != "ok" or r[1] != want:
                    bad.append(("wrong-result", "%s the call of %s returned %r, its own counter says %d" % (where, c, r, want), "c16"))
                    break
                if sids.setdefault(c, r[2]) != r[2]:
                    bad.append(("instance-changed", "%s %s is served by a different service instance than before" % (where, c), "c16"))
                    break
                if len(set(sids.values())) != len(sids):
                    bad.append(("shared-instance", "%s two connections are served by the same service instance" % where, "c16"))
                    break
            elif name == "Leave":
                c, how = label.split('"')[1], label.split('"')[3]
                fx.leave(c, how)
            elif name == "Misbehave":
                kind = label.split('"')[3]
                fx.misbehave(kind, rnd)
                # the server must still be accepting and serving
                if st["listener"] == "open" and not fx.listener_open():
                    if not wait_for(fx.listener_open, 3):
                        bad.append(("not-accepting:%s" % kind, "%s the server no longer accepts / serves a well-behaved client" % where, "c16"))
                        break
            elif name == "ServerClose":
                try:
                    fx.server_close()
                except Exception as ex:
                    bad.append(("close-raised", "%s close() raised %r" % (where, ex), "c17"))
                    break
            # ---- compare with the specification's state
            n_tracked = len(st["tracked"])
            if not wait_for(lambda: fx.tracked() <= n_tracked, 4):
                bad.append(("left-behind:%s" % name, "%s the server still holds %d client connection(s), %d are being served" % (
                    where, fx.tracked(), n_tracked), "c17"))
                break
            if not wait_for(lambda: not fx.poll_leftovers(), 3):
                bad.append(("poll-left-behind:%s" % name, "%s the server's poll set still holds descriptor(s) %s of departed clients" % (
                    where, fx.poll_leftovers()), "c17"))
                break
            for c, info in fx.clients.items():
                if st["cst"][c] == "up" and st["eof"][c]:
                    # cut off by the server: the next request must fail with EOFError, not with its timeout
                    if not info.get("checked_eof"):
                        r = fx.call(c)
                        info["checked_eof"] = True
                        if r[0] != "eof":
                            bad.append(("no-eof:%s" % flavour, "%s client %s of a closed server got %r instead of end-of-stream" % (where, c, r), "c17"))
                            break
                sid = sids.get(c)
                if sid is not None:
                    want_h = st["hooks"][c]
                    if not wait_for(lambda: fx.reg.hooks.get(sid, 0) == want_h, 4):
                        bad.append(("hook:%s" % name, "%s the disconnect hook of %s's service ran %d time(s), expected %d" % (
                            where, c, fx.reg.hooks.get(sid, 0), want_h), "c17"))
                        break
            if bad:
                break
            if st["listener"] == "closed" and name in ("ServerClose", "Leave", "Misbehave"):
                if fx.listener_open():
                    bad.append(("listener-open", "%s the listener still accepts connections" % where, "c17"))
                    break
        # quiescence: everybody leaves, the server is closed; nothing may remain
        for c in list(fx.clients):
            fx.leave(c, "graceful")
        if not bad:
            if not wait_for(lambda: fx.tracked() == 0, 4):
                bad.append(("left-behind:end", "after everybody left the server still holds %d connection(s)" % fx.tracked(), "c17"))
            if any(v > 1 for v in fx.reg.hooks.values()):
                bad.append(("hook-twice", "a disconnect hook ran twice", "c17"))
            if not wait_for(lambda: all(v == 1 for v in fx.reg.hooks.values()), 4):
                bad.append(("hook-missing", "after everybody left %d service instance(s) were never told (hooks %s)" % (
                    sum(1 for v in fx.reg.hooks.values() if v == 0), sorted(fx.reg.hooks.values())), "c17"))
        return bad, labels
    finally:
        fx.teardown()
        gc.collect()
        if not bad:
            if not wait_for(lambda: fd_count() <= fx.fd0, 4):
                bad.append(("fd-leak", "file descriptors: %d before the server existed, %d after it was closed and everybody left"
                            % (fx.fd0, fd_count()), "c17"))
