"""C07 - a hostile peer cannot step outside what the service exposes (spec: RpycHostile).

TLC evaluates the response table Expect(template, state) of the specification, checks its meta-properties and the safety
invariants of the attack state machine, and exports every (template, abstract state) pair.  A raw frame-level peer (it
writes bytes, it is not an rpyc Connection) puts a real Connection of a real service, under the default configuration
and in virtual time, into each reachable abstract state and sends each template as concrete bytes.  Checked after every
message: the response class is one the table permits, no canary callable ran, no denied attribute was read, nothing was
pickled or unpickled, no module was imported, no object that was not handed to this peer on this connection was operated
on (requests aimed at such identifiers are never answered with a result), the second connection of the process is
untouched.  Random sequences of templates follow the specification's state machine.
"""
import gc
import json
import os
import random
import shutil
import struct
import sys

from harness import sim, tlc
from harness.common import Check, main_wrapper, OUT

PID = "C07"
DENIED = ("_private", "secret", "_hidden", "shadow")


from harness.canary import CanaryExc, NotAnException


def frame(payload):
    return struct.pack("!LB", len(payload), 0) + payload + b"\n"


class World(object):
    """the serving process: the attacked connection, plus a second, well-behaved connection"""

    def __init__(self):
        import rpyc
        from rpyc.core import consts, brine, protocol
        from rpyc.core.channel import Channel
        from rpyc.lib import get_id_pack
        self.consts, self.brine, self.get_id_pack = consts, brine, get_id_pack
        w = self
        self.touched = []
        self.canaries = {"secret": 0, "_hidden": 0, "os.system": 0, "pickle": 0, "shadow": 0}

        class Obj(object):
            def __init__(self):
                self.exposed_data = "D"
                self._private = "OP"
                self.pub = "PUB"

            def exposed_meth(self):
                return "M"

            def secret(self, *a):
                w.canaries["secret"] += 1

            # the object has an internal `shadow` and an exposed twin: a peer asking for "shadow" gets the twin
            def shadow(self, *a):
                w.canaries["shadow"] += 1

            def exposed_shadow(self, *a):
                return "twin"

            def __getattribute__(self, name):
                if name in DENIED:
                    w.touched.append(("obj", name))
                return object.__getattribute__(self, name)

        class Svc(rpyc.Service):
            def __init__(self):
                self._private = "SP"

            def exposed_echo(self, x):
                return x

            def exposed_getobj(self):
                return w.obj

            def exposed_mklist(self):
                return [1, 2, 3]

            def secret(self, *a):
                w.canaries["secret"] += 1

            def shadow(self, *a):
                w.canaries["shadow"] += 1

            def exposed_shadow(self, *a):
                return "twin"

            def _hidden(self, *a):
                w.canaries["_hidden"] += 1

            def __getattribute__(self, name):
                if name in DENIED:
                    w.touched.append(("root", name))
                return object.__getattribute__(self, name)
        self.obj = Obj()
        self.other = Obj()
        self.never = Obj()
        self.sched = s = sim.make_sched()
        self.undo_time = sim.patch_time(s)
        self.net = sim.Net(s)
        self.svc = Svc()
        self.conn = self.svc._connect(Channel(self.net.a, compress=False), {})
        sim.simulate_conn_locks(s, self.conn, "S")
        self.thread = s.spawn("S", self._serve, self.conn)
        # the second connection: a legitimate peer holds `other`
        self.net2 = sim.Net(s)
        self.svc2 = Svc()
        self.conn2 = self.svc2._connect(Channel(self.net2.a, compress=False), {})
        sim.simulate_conn_locks(s, self.conn2, "S2")
        self.thread2 = s.spawn("S2", self._serve, self.conn2)
        self.conn2._local_objects.add(get_id_pack(self.other), self.other) if hasattr(self.conn2, "_local_objects") else None
        # tripwires
        self._undo = []
        real_system = os.system
        os.system = lambda *a: w.canaries.__setitem__("os.system", w.canaries["os.system"] + 1)
        self._undo.append(lambda: setattr(os, "system", real_system))
        real_pickle = protocol.pickle

        class Trip(object):
            def dumps(self, *a, **k):
                w.canaries["pickle"] += 1
                return real_pickle.dumps(*a, **k)

            def loads(self, *a, **k):
                w.canaries["pickle"] += 1
                return real_pickle.loads(*a, **k)

            def __getattr__(self, n):
                return getattr(real_pickle, n)
        protocol.pickle = Trip()
        self._undo.append(lambda: setattr(protocol, "pickle", real_pickle))
        self.modules0 = set(sys.modules)
        CanaryExc.inits = 0
        NotAnException.inits = 0
        self.seq = 5000
        self.nread = 0
        self.settle()
        self.table2 = self.table_of(self.conn2)

    @staticmethod
    def _serve(conn):
        try:
            conn.serve_all()
        except BaseException as ex:  # noqa
            if isinstance(ex, sim.SimAbort):
                raise

    @staticmethod
    def table_of(conn):
        try:
            return sorted(conn._local_objects._dict)
        except AttributeError:
            return None

    def settle(self):
        """run the serving threads; let the service's own request timeouts (it asking the attacker, who never answers)
        run out in virtual time"""
        s = self.sched
        for _ in range(200):
            s.settle()
            t = self.thread
            if t.done:
                return
            dl = [x.pending.deadline for x in s.live() if x.pending.deadline is not None]
            if not dl:
                return
            s.now = max(s.now, min(dl))
            for x in s.live():
                if x.pending.deadline is not None and x.pending.deadline <= s.now and not x.pending.is_enabled():
                    s.step(x, "timeout")

    # -- the attacker
    def send_raw(self, data):
        self.net.a.inbox += data
        self.settle()

    def new_frames(self):
        frs, _ = sim.split_frames(self.net.a.written)
        out = frs[self.nread:]
        self.nread = len(frs)
        dec = []
        for fr in out:
            try:
                dec.append(self.brine.load(fr[5:-1]))
            except Exception:
                dec.append(None)
        return dec

    @property
    def alive(self):
        return not self.conn.closed and not self.thread.done

    def close(self):
        for u in self._undo:
            u()
        self.sched.abort()
        self.undo_time()


def boxed_target(w, target, state):
    c = w.consts
    gid = w.get_id_pack
    if target == "root":
        return (c.LABEL_LOCAL_REF, gid(w.svc))
    if target in ("obj", "stale"):
        return (c.LABEL_LOCAL_REF, gid(w.obj))
    if target == "other":
        return (c.LABEL_LOCAL_REF, gid(w.other))
    if target == "never":
        return (c.LABEL_LOCAL_REF, gid(w.never))
    if target == "forged":
        return (c.LABEL_LOCAL_REF, ("builtins.object", 12345, 67890))
    if target in ("never_class", "forged_class"):
        return (c.LABEL_LOCAL_REF, raw_id(w, target))
    if target == "value":
        return (c.LABEL_VALUE, 5)
    if target == "badlabel":
        return (9, "x")
    return (c.LABEL_REMOTE_REF, ("builtins.list", 111, 222))


class Unexported(object):
    """A class of the serving process that no connection ever exports; creating an instance trips a canary."""
    made = []

    def __init__(self, *a, **k):
        Unexported.made.append(1)


def raw_id(w, target):
    gid = w.get_id_pack
    if target == "never_class":
        return gid(Unexported)
    if target == "forged_class":
        return (gid(Unexported)[0], 424242, 0)
    return {"root": gid(w.svc), "obj": gid(w.obj), "stale": gid(w.obj), "other": gid(w.other), "never": gid(w.never)}.get(
        target, ("builtins.object", 12345, 67890))


def concrete_name(t, rnd):
    n, target = t["name"], t["target"]
    if n == "exposed":
        if target == "root":
            return "getobj" if t["handler"] in ("CALLATTR",) else rnd.choice(["echo", "getobj", "exposed_echo"])
        return "data" if t["handler"] == "GETATTR" else "meth"
    if n == "shadowed":
        return "shadow"
    if n == "denied":
        if t["handler"] == "CMP":
            return rnd.choice(["secret", "_hidden", "secret", "__init__", "__getattribute__"])
        return rnd.choice([d for d in DENIED if d != "shadow"] + ["pub", "__class__", "__dict__", "__init__", "__getattribute__",
                                                                   "_rpyc_getattr"])
    if n == "dunder_safe":
        return rnd.choice(["__hash__", "__eq__", "__repr__", "__str__", "__ne__"]) if t["handler"] != "CALLATTR" else \
            rnd.choice(["__hash__", "__repr__", "__str__"])
    return rnd.choice([5, None, ("a",), 1.5])


def build_request(w, t, state, rnd):
    c = w.consts
    V = lambda x: (c.LABEL_VALUE, x)   # noqa
    T = lambda *xs: (c.LABEL_TUPLE, tuple(xs))   # noqa
    tgt = boxed_target(w, t["target"], state)
    name = concrete_name(t, rnd)
    h = t["handler"]
    hn = {"PING": 1, "CLOSE": 2, "GETROOT": 3, "GETATTR": 4, "DELATTR": 5, "SETATTR": 6, "CALL": 7, "CALLATTR": 8, "REPR": 9,
          "STR": 10, "CMP": 11, "HASH": 12, "DIR": 13, "PICKLE": 14, "DEL": 15, "INSPECT": 16, "BUFFITER": 17,
          "OLDSLICING": 18, "CTXEXIT": 19, "INSTANCECHECK": 20, "UNKNOWN": rnd.choice([0, 21, 99, -1, "x", None])}[h]
    args = {
        "PING": [V("data")], "CLOSE": [], "GETROOT": [], "GETATTR": [tgt, V(name)], "DELATTR": [tgt, V(name)],
        "SETATTR": [tgt, V(name), V("NEW")], "CALL": [tgt, V(()), V(())], "CALLATTR": [tgt, V(name), V(()), V(())],
        "REPR": [tgt], "STR": [tgt], "CMP": [tgt, V(5), V(name)], "HASH": [tgt], "DIR": [tgt], "PICKLE": [tgt, V(2)],
        "DEL": [tgt, V(1)], "INSPECT": [V(raw_id(w, t["target"]))], "BUFFITER": [tgt, V(3)],
        # the first name fails (not subscriptable / no such attribute / refused), the template's name is the fallback
        "OLDSLICING": [tgt, V(rnd.choice(["__getitem__", "no_such_attribute", "secret", "_private"])), V(name), V(0), V(1), V(())],
        "CTXEXIT": [tgt, V(None)],
        "INSTANCECHECK": [tgt, V(raw_id(w, "obj"))], "UNKNOWN": [tgt]}[h]
    if t["arity"] == "wrong":
        # always too many arguments (several handlers have optional trailing parameters, so dropping one may be legal)
        args = args + [V(1), V(2), V(3)]
        if h in ("REPR", "STR", "HASH", "DIR", "PING") and rnd.random() < 0.5:
            args = []
    w.seq += 1
    return (c.MSG_REQUEST, w.seq, (hn, T(*args))), w.seq


def build_other(w, t, rnd, pending_seq):
    c = w.consts
    seq = pending_seq if t.get("seq") == "pending" and pending_seq is not None else rnd.choice([0, 7, 99999])
    if t["kind"] == "REPLY":
        p = {"value": (c.LABEL_VALUE, 1), "badlabel": (9, "x"), "remote": (c.LABEL_REMOTE_REF, ("builtins.list", 5, 6))}[t["payload"]]
        return (c.MSG_REPLY, seq, p)
    if t["kind"] == "EXCMSG":
        p = {
            "genuine": (("builtins", "ValueError"), ("x",), (("_remote_version", "5.0.1"),), "tb"),
            "builtin_nonexc": ((rnd.choice(["builtins"]), rnd.choice(["int", "open", "eval", "__import__", "type"])), ("1",), (), "tb"),
            "os_system": (("os", "system"), ("echo pwned",), (), "tb"),
            "unimported_mod": (("colorsys", "ONE_THIRD"), (), (), "tb"),
            "unknown_mod": (("nonexistent_mod_xyz", "Foo"), (), (), "tb"),
            "not_a_tuple": 5,
            "wrong_arity": (("builtins", "ValueError"), ("x",)),
            "dunder_attrs": (("harness.canary", rnd.choice(["CanaryExc", "NotAnException"])), ("x",),
                             (("__class__", "evil"), ("__dict__", "evil"), ("args", "evil")), "tb"),
            "text": "a string exception",
            "int_other": 7}[t["payload"]]
        return (c.MSG_EXCEPTION, seq, p)
    return None


def classify(w, frames, seq):
    c = w.consts
    resp = [f for f in frames if f is not None and f[1] == seq and f[0] in (c.MSG_REPLY, c.MSG_EXCEPTION)]
    if len(resp) > 1:
        return "MULTI"
    if resp:
        return "REPLY" if resp[0][0] == c.MSG_REPLY else "EXC"
    if not w.alive:
        return "END"
    return "NONE"


def enter_state(w, s, rnd):
    """legitimate traffic that brings the connection into abstract state s"""
    c = w.consts
    V = lambda x: (c.LABEL_VALUE, x)   # noqa
    T = lambda *xs: (c.LABEL_TUPLE, tuple(xs))   # noqa
    if s["rootExported"]:
        w.seq += 1
        w.send_raw(frame(w.brine.dump((c.MSG_REQUEST, w.seq, (c.HANDLE_GETROOT, T())))))
        w.new_frames()
    if s["objExported"]:
        w.seq += 1
        root = (c.LABEL_LOCAL_REF, w.get_id_pack(w.svc))
        w.send_raw(frame(w.brine.dump((c.MSG_REQUEST, w.seq, (c.HANDLE_CALLATTR, T(root, V("getobj"), V(()), V(())))))))
        w.new_frames()
    if s["objReleased"]:
        w.seq += 1
        w.send_raw(frame(w.brine.dump((c.MSG_REQUEST, w.seq, (c.HANDLE_DEL, T((c.LABEL_LOCAL_REF, w.get_id_pack(w.obj)), V(1)))))))
        w.new_frames()


def oracles(w, t, resp):
    bad = []
    for k, v in w.canaries.items():
        if v:
            bad.append(("canary:" + k, "the canary %s ran %d time(s)" % (k, v)))
    if w.touched:
        bad.append(("touched", "denied attributes were read: %s" % w.touched[:4]))
    if Unexported.made:
        bad.append(("canary:unexported-class", "a class that was never exported was instantiated %d time(s)" % len(Unexported.made)))
        del Unexported.made[:]
    new = set(sys.modules) - w.modules0
    new = {m for m in new if not m.startswith("encodings")}
    if new:
        bad.append(("import", "modules were imported: %s" % sorted(new)[:5]))
    if CanaryExc.inits or NotAnException.inits:
        bad.append(("constructor", "a constructor ran %d time(s) while loading a crafted exception" % (
            CanaryExc.inits + NotAnException.inits)))
    if object.__getattribute__(w.svc, "_private") != "SP" or object.__getattribute__(w.obj, "_private") != "OP" or \
            w.obj.exposed_data != "D":
        bad.append(("state", "state of the service's objects changed"))
    t2 = w.table_of(w.conn2)
    if t2 is not None and t2 != w.table2:
        bad.append(("other-connection", "the table of the other connection changed"))
    if w.conn2.closed:
        bad.append(("other-connection", "the other connection was closed"))
    return bad


REACHABLE = [
    {"alive": True, "rootExported": False, "objExported": False, "objReleased": False},
    {"alive": True, "rootExported": True, "objExported": False, "objReleased": False},
    {"alive": True, "rootExported": True, "objExported": True, "objReleased": False},
    {"alive": True, "rootExported": True, "objExported": True, "objReleased": True},
]


def skey(s):
    return (s["rootExported"], s["objExported"], s["objReleased"])


def run_table(chk, rows, rnd, frac):
    by_state = {}
    for r in rows:
        by_state.setdefault(skey(r["s"]), []).append(r)
    n = 0
    for s in REACHABLE:
        group = by_state.get(skey(s), [])
        if frac < 1.0:
            group = [r for r in group if rnd.random() < frac or r["t"]["kind"] != "REQ"]
        w = None
        try:
            for r in group:
                if w is None or not w.alive or w.dirty:
                    if w is not None:
                        w.close()
                    w = World()
                    w.dirty = False
                    enter_state(w, s, rnd)
                t = r["t"]
                if t["kind"] == "REQ":
                    msg, seq = build_request(w, t, s, rnd)
                    data = frame(w.brine.dump(msg))
                elif t["kind"] == "BADKIND":
                    seq = None
                    data = {"zero": frame(w.brine.dump((0, 1, ()))), "ninety_nine": frame(w.brine.dump((99, 1, ()))),
                            "text": frame(w.brine.dump(("x", 1, ()))),
                            "garbage_bytes": frame(bytes(rnd.getrandbits(8) for _ in range(rnd.randint(0, 12))))}[t["payload"]]
                else:
                    msg = build_other(w, t, rnd, None)
                    seq = msg[1]
                    data = frame(w.brine.dump(msg))
                w.send_raw(data)
                resp = classify(w, w.new_frames(), seq)
                n += 1
                chk.evaluated()
                chk.distinct(("pair", json.dumps(t, sort_keys=True), skey(s)))
                bad = oracles(w, t, resp)
                if resp not in r["expect"]:
                    bad.append(("response:%s:%s" % (t.get("handler", t["kind"]), t.get("target", t.get("payload"))),
                                "message %s in state %s was answered with %s, permitted: %s" % (t, s, resp, r["expect"])))
                for key, msg_ in bad:
                    chk.violation(key, "C07 %s [template %s, state %s]" % (msg_, t, s), {"mode": "pair", "t": t, "s": s})
                if not bad:
                    chk.validated()
                if r["next"] != r["s"] or bad:
                    w.dirty = True       # the abstract state moved on: the next template gets a fresh connection
                if n % 1500 == 1:
                    chk.sample({"kind": "template sent as bytes to a real Connection", "template": t, "state": s,
                                "response": resp, "permitted": r["expect"]})
        finally:
            if w is not None:
                w.close()
        gc.collect()
    return n


def run_sequences(chk, rows, rnd, nseq, length):
    table = {}
    templates = []
    seen = set()
    for r in rows:
        k = json.dumps(r["t"], sort_keys=True)
        table[(k, skey(r["s"]))] = r
        if k not in seen:
            seen.add(k)
            templates.append(r["t"])
    for i in range(nseq):
        w = World()
        s = dict(REACHABLE[0])
        hist = []
        try:
            for j in range(length):
                t = rnd.choice(templates)
                if t["kind"] == "BADKIND" or (t["kind"] == "REQ" and t["handler"] == "CLOSE" and rnd.random() < 0.8):
                    continue
                r = table[(json.dumps(t, sort_keys=True), skey(s))]
                if t["kind"] == "REQ":
                    msg, seq = build_request(w, t, s, rnd)
                else:
                    msg = build_other(w, t, rnd, None)
                    seq = msg[1]
                w.send_raw(frame(w.brine.dump(msg)))
                resp = classify(w, w.new_frames(), seq)
                hist.append(t)
                chk.evaluated()
                bad = oracles(w, t, resp)
                if resp not in r["expect"]:
                    bad.append(("response:%s:%s" % (t.get("handler", t["kind"]), t.get("target", t.get("payload"))),
                                "message %s in state %s was answered with %s, permitted: %s" % (t, s, resp, r["expect"])))
                for key, m in bad:
                    chk.violation(key, "C07 %s [sequence of %d messages]" % (m, len(hist)), {"mode": "sequence", "history": hist})
                if not w.alive:
                    break
                if resp == "REPLY" or r["next"] == r["s"]:
                    s = dict(r["next"]) if resp == "REPLY" or r["next"] == r["s"] else s
            chk.distinct(("seq", i))
            chk.validated()
        finally:
            w.close()
        if i % 20 == 19:
            gc.collect()


def main():
    chk = Check(PID)
    gc.disable()
    rnd = random.Random(chk.seed + 7)
    d = os.path.join(OUT, "c07.%d" % os.getpid())
    os.makedirs(d, exist_ok=True)
    f1 = os.path.join(d, "pairs.ndjson")
    res = tlc.require_ok(tlc.run_tlc("RpycHostile", "MC_RpycHostile.cfg", workers=8, coverage=True, env={"OUT_FILE": f1}),
                         "RpycHostile")
    if res.violation:
        raise tlc.MachineryError("RpycHostile violates " + res.violation)
    chk.add_tlc(res, "response table (templates x abstract states, meta-properties as ASSUMEs) + attack state machine, 4 messages")
    rows = [json.loads(l) for l in open(f1)]
    shutil.rmtree(d, ignore_errors=True)
    if chk.replay:
        rep = json.load(open(chk.replay))["replay"]
        print("replay: template %s in state %s - rerun ./check C07" % (rep.get("t"), rep.get("s")))
        return 0
    n = run_table(chk, rows, rnd, 1.0)
    chk.cov["pairs_executed"] = n
    run_sequences(chk, rows, rnd, 40 if not chk.thorough else 600, 12)
    chk.assumptions += ["default configuration on the attacked connection; resource exhaustion is out of scope",
                        "the attacker never answers requests the service makes to it; the service's 30 s request timeout runs "
                        "out in virtual time",
                        "well-framed messages: the frame layer itself (lengths, compression) is C05/C16 territory"]
    return chk.finish(rule="evaluations = messages sent as bytes to a real Connection; distinct = distinct (template, abstract "
                      "state) pairs + sequences", exhaustive=True)


if __name__ == "__main__":
    main_wrapper(main)
