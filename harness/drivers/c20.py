"""C20 - uploading and downloading files reproduces them byte for byte (spec: RpycFiles).

TLC checks the chunked copy loop (every chunk 1..4, every size 0..2*chunk+1: what is written is exactly the consumed
prefix, everything is copied, ceil(size/chunk)+1 reads, termination) and exports the walk table: every abstract tree
(depth <= 2, files of the seven size classes relative to the chunk size, empty directories) x every filter with the
tree the destination must contain.  Every case is materialised on disk and pushed through the real classic.upload and
classic.download over a real classic-mode connection, with chunk sizes 1, 2, 3 (and 7 / 64000 in samples); the
destination tree is compared recursively and byte-wise.  The local read / write sizes of the copy loops are recorded
and validated by TLC against the copy-loop specification.
"""
import gc
import json
import os
import random
import shutil

from harness import sim, tlc
from harness.common import Check, main_wrapper, OUT
from harness.pair import Pair

PID = "C20"
FILTERS = {"none": None, "no_skip": lambda fn: not fn.startswith("skip"), "only_txt": lambda fn: fn.endswith(".txt")}


def size_of(cls, c):
    return {"0": 0, "1": 1, "c-1": c - 1, "c": c, "c+1": c + 1, "2c": 2 * c, "2c+1": 2 * c + 1}[cls]


# concrete spellings of the specification's three names; each keeps the filters' decisions (starts with "skip", ends with ".txt")
VARIANTS = {"a": ["a", ".a", "a[b]c", "a b", "a*"], "b.txt": ["b.txt", ".b.txt", "b[1].txt"], "skip_c": ["skip_c", "skip[c]", "skip .c"]}


def concretise(ents, m):
    return [dict(e, name=m[e["name"]], **({"ents": concretise(e["ents"], m)} if e["kind"] == "d" else {})) for e in ents]


def materialise(ents, path, c, rnd, contents):
    os.makedirs(path, exist_ok=True)
    for e in ents:
        p = os.path.join(path, e["name"])
        if e["kind"] == "f":
            n_ = size_of(e["sz"], c)
            kind = rnd.randrange(6)
            if kind == 4:
                data = b"\n" * n_                                     # nothing but line ends
            elif kind == 5:
                data = bytes((10 if (j + 1) % c == 0 or j == n_ - 1 else rnd.randint(32, 126)) for j in range(n_))   # every chunk ends a line
            elif kind == 0:
                data = bytes(n_)                                      # all zero bytes
            elif kind == 1:
                data = bytes(rnd.randint(1, 255) for _ in range(n_ // 2)) + bytes(n_ - n_ // 2)    # zero tail
            else:
                data = bytes(rnd.getrandbits(8) for _ in range(n_))
            with open(p, "wb") as f:
                f.write(data)
            contents[p] = data
        else:
            materialise(e["ents"], p, c, rnd, contents)


def expected_listing(ents, c, prefix=""):
    """relative path -> ('f', size) / ('d',)"""
    out = {}
    for e in ents:
        rp = os.path.join(prefix, e["name"])
        if e["kind"] == "f":
            out[rp] = ("f", size_of(e["sz"], c))
        else:
            out[rp] = ("d",)
            out.update(expected_listing(e["ents"], c, rp))
    return out


def actual_listing(root):
    out = {}
    for dp, dns, fns in os.walk(root):
        for d in dns:
            out[os.path.relpath(os.path.join(dp, d), root)] = ("d",)
        for fn in fns:
            p = os.path.join(dp, fn)
            out[os.path.relpath(p, root)] = ("f", os.path.getsize(p))
    return out


def compare(src_root, dst_root, expect):
    bad = []
    got = actual_listing(dst_root) if os.path.isdir(dst_root) else {}
    for rp, what in expect.items():
        if rp not in got:
            bad.append(("missing", "%s %s is missing at the destination" % ("directory" if what[0] == "d" else "file", rp)))
        elif got[rp][0] != what[0]:
            bad.append(("kind", "%s arrived as the wrong kind of entry" % rp))
        elif what[0] == "f":
            a = open(os.path.join(src_root, rp), "rb").read()
            b = open(os.path.join(dst_root, rp), "rb").read()
            if a != b:
                bad.append(("content", "%s: %d bytes at the source, %d at the destination%s" % (
                    rp, len(a), len(b), "" if len(a) != len(b) else " (bytes differ)")))
    for rp in got:
        if rp not in expect:
            bad.append(("unexpected", "%s was copied although the filter rejects it (or it does not exist at the source)" % rp))
    return bad


class Classic(object):
    """a classic-mode connection: side A is the 'local' program, side B the remote interpreter (same machine)"""

    def __init__(self):
        import rpyc
        from rpyc.core.service import ModuleNamespace
        self.pair = Pair(rpyc.VoidService(), rpyc.SlaveService(), patch_time=False)
        a = self.pair.a
        root = a.call(lambda: a.conn.root)
        getmodule = a.call(lambda: root.getmodule)
        a.conn.modules = ModuleNamespace(getmodule)
        a.conn.builtin = a.conn.builtins = a.call(lambda: a.conn.modules.builtins)
        self.conn = a.conn

    def run(self, fn):
        return self.pair.a.call(fn)

    def close(self):
        self.pair.close()


class RecOpen(object):
    """stand-in for the name `open` inside rpyc.utils.classic: records the sizes of local reads and writes"""

    def __init__(self):
        self.events = []

    def __call__(self, path, mode="r", *a, **k):
        f = open(path, mode, *a, **k)
        rec = self

        class F(object):
            def read(self_, n=-1):
                d = f.read(n)
                rec.events.append({"op": "read", "n": len(d)})
                return d

            def write(self_, d):
                rec.events.append({"op": "write", "n": len(d)})
                return f.write(d)

            def __enter__(self_):
                return self_

            def __exit__(self_, *e):
                f.close()

            def close(self_):
                f.close()
        return F()


def main():
    chk = Check(PID)
    gc.disable()
    rnd = random.Random(chk.seed + 20)
    d = os.path.join(OUT, "c20.%d" % os.getpid())
    os.makedirs(d, exist_ok=True)
    f1 = os.path.join(d, "walk.ndjson")
    res = tlc.require_ok(tlc.run_tlc("RpycFiles", "MC_RpycFiles.cfg", workers=4, coverage=True, env={"OUT_FILE": f1}), "RpycFiles")
    if res.violation:
        raise tlc.MachineryError("RpycFiles violates " + res.violation)
    chk.add_tlc(res, "copy loop: chunk 1..4 x size 0..2*chunk+1 (prefix copied, complete, read count, termination); walk table exported")
    rows = [json.loads(l) for l in open(f1)]
    from rpyc.utils import classic
    cl = Classic()
    work = os.path.join(d, "fs")
    traces = []
    n = 0
    try:
        if not chk.thorough:
            rnd.shuffle(rows)
            rows = rows[:260]
        for i, row in enumerate(rows):
            c = rnd.choice([1, 2, 3]) if rnd.random() < 0.9 else rnd.choice([7, 64000])
            flt = FILTERS[row["filter"]]
            # half of the cases use the plain names, the others hidden names, names with pattern characters or blanks
            m = {k: (v[0] if i % 2 == 0 else rnd.choice(v)) for k, v in VARIANTS.items()}
            src_ents, dst_ents = concretise(row["src"], m), concretise(row["dst"], m)
            for direction in ("upload", "download"):
                case = os.path.join(work, "case%d_%s" % (i, direction))
                src, dst = os.path.join(case, "src"), os.path.join(case, "dst")
                contents = {}
                materialise(src_ents, src, c, rnd, contents)
                try:
                    if direction == "upload":
                        cl.run(lambda: classic.upload(cl.conn, src, dst, filter=flt, chunk_size=c))
                    else:
                        cl.run(lambda: classic.download(cl.conn, src, dst, filter=flt, chunk_size=c))
                    err = None
                except Exception as ex:  # noqa
                    err = ex
                n += 1
                chk.evaluated()
                chk.distinct(("case", json.dumps(row, sort_keys=True), direction, c))
                bad = compare(src, dst, expected_listing(dst_ents, c))
                if err is not None:
                    bad.append(("raised", "%s raised %r" % (direction, err)))
                for key, msg in bad:
                    chk.violation("%s:%s" % (direction, key), "C20 %s with chunk size %d, filter %s: %s [source tree %s]" % (
                        direction, c, row["filter"], msg, json.dumps(src_ents)),
                        {"row": row, "chunk": c, "direction": direction})
                if not bad:
                    chk.validated()
                shutil.rmtree(case, ignore_errors=True)
            if i % 150 == 0:
                chk.sample({"kind": "tree pushed through upload and download", "source": row["src"], "filter": row["filter"],
                            "chunk": c, "expected_destination": row["dst"]})
            if i % 100 == 99:
                gc.collect()
        # single files at real and tiny chunk sizes, with the copy loop's read/write sizes recorded
        real_open = getattr(classic, "open", None)
        for c in (1, 2, 3, 7, 64000):
            for cls_ in ("0", "1", "c-1", "c", "c+1", "2c", "2c+1"):
                size = size_of(cls_, c)
                if size > 200000 and not chk.thorough:
                    size = size_of(cls_, c)
                for direction, pre in (("upload", "none"), ("download", "none"), ("upload", "same"), ("download", "same"),
                                       ("upload", "longer"), ("download", "longer")):
                    if pre != "none" and c == 64000 and cls_ not in ("1", "c"):
                        continue
                    case = os.path.join(work, "single")
                    os.makedirs(case, exist_ok=True)
                    src, dst = os.path.join(case, "s.bin"), os.path.join(case, "d.bin")
                    data = rnd.choice([os.urandom(size), os.urandom(size // 2) + bytes(size - size // 2), b"\n" * size,
                                       (b"line of text\n" * (size // 13 + 1))[:max(0, size - 1)] + (b"\n" if size else b"")])
                    open(src, "wb").write(data)
                    prelen = 0
                    if pre != "none":
                        # the destination exists already (written after the source, so it is the newer file): same size but other
                        # bytes, or longer
                        old = bytes((b ^ 0x5A) for b in data) + (b"" if pre == "same" else b"tail")
                        open(dst, "wb").write(old)
                        prelen = len(old)
                    rec = RecOpen()
                    classic.open = rec
                    try:
                        if direction == "upload":
                            cl.run(lambda: classic.upload_file(cl.conn, src, dst, chunk_size=c))
                        else:
                            cl.run(lambda: classic.download_file(cl.conn, src, dst, chunk_size=c))
                        err = None
                    except Exception as ex:  # noqa
                        err = ex
                    finally:
                        if real_open is None:
                            del classic.open
                        else:
                            classic.open = real_open
                    chk.evaluated()
                    chk.distinct(("single", c, cls_, direction, pre))
                    got = open(dst, "rb").read() if os.path.exists(dst) else None
                    if err is not None or got != data:
                        chk.violation("single:%s" % direction, "C20 %s of a %d-byte file with chunk size %d%s: %s" % (
                            direction, size, c, "" if pre == "none" else " onto an existing destination (%s, %d bytes)" % (pre, prelen),
                            "raised %r" % err if err else "destination has %s bytes / differs" % (
                                None if got is None else len(got))), {"size": size, "chunk": c, "direction": direction, "pre": pre})
                    else:
                        chk.validated()
                    ev = [e for e in rec.events if (e["op"] == "read") == (direction == "upload")]
                    # upload: local reads; download: local writes (interleave the missing half so that the loop can be followed)
                    full = []
                    if direction == "upload":
                        for e in ev:
                            full.append(e)
                            if e["n"] > 0:
                                full.append({"op": "write", "n": e["n"]})
                    else:
                        for e in ev:
                            full.append({"op": "read", "n": e["n"]})
                            full.append(e)
                        full.append({"op": "read", "n": 0})
                    full = [{"op": "open", "n": 0}] + full + [{"op": "done", "n": len(got) if got is not None else 0}]
                    if len(full) < 3000:
                        traces.append({"size": size, "chunk": c, "pre": prelen, "events": full, "direction": direction})
                    shutil.rmtree(case, ignore_errors=True)
    finally:
        cl.close()
        shutil.rmtree(d, ignore_errors=True)
    # trace validation of the copy loops
    batch = [{"size": t["size"], "chunk": t["chunk"], "pre": t["pre"], "events": t["events"]} for t in traces]
    nreal = len(batch)
    base = max(batch, key=lambda t: len(t["events"])) if batch else None
    if base and len(base["events"]) > 2:
        b1 = dict(base, events=[dict(e) for e in base["events"]])
        b1["events"][1]["n"] += 1
        b2 = dict(base, events=[dict(e) for e in base["events"]][:1] + [dict(e) for e in base["events"]][2:])
        batch += [b1, b2]
    out, res2 = tlc.validate_traces("Trace_RpycFiles", batch, "", ["MaxChunk = 70000"], invariants=["PrefixCopied", "Complete"], name="c20")
    chk.add_tlc(res2, "trace validation: local read/write sizes of real upload_file/download_file runs")
    for j in range(nreal, len(batch)):
        if out[j] is not None and out[j][0] == out[j][1]:
            raise tlc.MachineryError("self-test: corrupted trace accepted by Trace_RpycFiles")
    acc = 0
    for j in range(nreal):
        if out[j] is not None and out[j][0] == out[j][1]:
            acc += 1
        else:
            t = traces[j]
            chk.violation("copy-loop:%s" % t["direction"], "C20 %s of %d bytes with chunk %d: the sequence of read/write sizes %s... is "
                          "not a run of the copy loop (rejected at step %s)" % (t["direction"], t["size"], t["chunk"],
                                                                               [e["n"] for e in t["events"][:8]], out[j]),
                          {"size": t["size"], "chunk": t["chunk"], "direction": t["direction"]})
    chk.validated(acc)
    chk.cov["cases_executed"] = n
    chk.cov["copy_loop_traces"] = nreal
    chk.assumptions += ["the 'remote' side is a second interpreter state in the same process on the same file system",
                        "file contents are random bytes; sizes are the seven classes relative to the chunk size"]
    return chk.finish(rule="evaluations = trees / files pushed through the real upload/download; distinct = (tree, filter, direction, "
                      "chunk) cases and single-file cases", exhaustive=chk.thorough)


if __name__ == "__main__":
    main_wrapper(main)
