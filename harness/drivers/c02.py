"""C02 - operating on a proxy is indistinguishable from operating on the target (spec: RpycProxyOps, RpycBuffiter).

TLC checks the laws of the operation semantics over the whole abstract state space of eight kinds of targets (list, dict,
set, deque, generator, BytesIO, bytearray, a user class) and writes the step function out as a table: (kind, state,
operation) -> (result, next state, attribute access the proxy needs, configurations that permit it).  Every row is
executed three ways: on a real proxy over a real connection pair whose target was put into the row's state on the far
side, on a local twin in the same state, and in the specification.  spec vs twin disagreeing = the model is wrong
(machinery failure); proxy vs (spec = twin) disagreeing on result, exception class or the target's state afterwards = violation.
Histories: random walks through the table and TLC-simulated behaviours run on one proxy / one twin; the recorded
proxy-side outcomes are validated by TLC against the specification (Trace_RpycProxyOps).  Under configurations that refuse
the access the expected outcome is AttributeError with the target unchanged (outside the claim: recorded as drift only).
buffiter: RpycBuffiter (loop with chunk growth) model-checked for every chunk/factor/max_chunk in 1..4 and length 0..9;
the real buffiter is run for every such combination, elements compared, request sizes validated as a trace.
"""
import collections
import gc
import io
import json
import os
import random
import shutil

from harness import sim, tlc
from harness.common import Check, main_wrapper, OUT
from harness.pair import Pair

PID = "C02"
KINDS = ["list", "dict", "set", "deque", "gen", "file", "bytearray", "user"]
ITEMS = [0, 1, 2, 1]
TUPS = [None, (), (1,), (0, 1)]
FTUPS = [None, b"", b"a", b"\na"]
CONFIGS = {
    "classic": dict(allow_all_attrs=True, allow_pickle=True, allow_getattr=True, allow_setattr=True, allow_delattr=True,
                    import_custom_exceptions=True, instantiate_custom_exceptions=True, instantiate_oldstyle_exceptions=True),
    "public": dict(allow_public_attrs=True),
    "public_rw": dict(allow_public_attrs=True, allow_setattr=True, allow_delattr=True),
    "default": {},
}


class Acc(object):
    KIND = 42

    def __init__(self, total=0, level=0, extra=-1, depth=0):
        self.total = total
        self._level = level
        self.depth = depth
        if extra >= 0:
            self.extra = extra

    def _get_level(self):
        return self._level

    def _set_level(self, v):
        if v > 2:
            raise ValueError("level too high")
        self._level = v
    level = property(_get_level, _set_level)

    def __add__(self, n):
        return self.total + n

    def __radd__(self, n):
        return n + self.total

    def __iadd__(self, n):
        self.total = min(3, self.total + n)
        return self

    def __neg__(self):
        return -self.total

    def __len__(self):
        return self.total

    def __bool__(self):
        return self._level > 0

    def __int__(self):
        return self.total

    def __getitem__(self, i):
        if i > self.total:
            raise IndexError(i)
        return i * 10

    def __setitem__(self, i, v):
        if i != 0:
            raise KeyError(i)
        self.total = v

    def __delitem__(self, i):
        if i != 0:
            raise KeyError(i)
        self.total = 0

    def __contains__(self, x):
        return x <= self.total

    def __iter__(self):
        return iter(range(self.total))

    def __call__(self, n, k=0):
        return self.total * n + k

    def __eq__(self, o):
        if isinstance(o, int):
            return self.total == o
        if isinstance(o, Acc):
            return o is self
        return NotImplemented

    def __ne__(self, o):
        # deliberately not the negation of __eq__ (a saturated accumulator differs from everything)
        if isinstance(o, int):
            return self.total != o or self.total == 3
        if isinstance(o, Acc):
            return o is not self
        return NotImplemented

    def __lt__(self, o):
        return self.total < o

    def __hash__(self):
        return self.total + 7

    def __str__(self):
        return "Acc(%d)" % self.total

    def __repr__(self):
        return "<Acc %d %d>" % (self.total, self._level)

    def __enter__(self):
        self.depth += 1
        return self

    def __exit__(self, t, v, tb):
        self.depth -= 1
        return self._level > 1          # swallows the body's exception at level 2

    def bump(self, n=1):
        self.total = min(3, self.total + n)
        return self.total

    def boom(self):
        raise KeyError(self.total)

    def exposed_peek(self):
        return self.total

    @classmethod
    def cm(cls):
        return 43

    @staticmethod
    def sm(a):
        return a + 1


def make_namesake(variant):
    """classes made by one factory: same module, same __name__, different abilities (what a proxy may do must follow the
    object's own class, not whichever class of that name the connection saw first)"""
    if variant == "rich":
        class Box(object):
            def __init__(self):
                self.items = [1, 2, 3]

            def __len__(self):
                return len(self.items)

            def __getitem__(self, i):
                return self.items[i]

            def __iter__(self):
                return iter(self.items)

            def __contains__(self, x):
                return x in self.items

            def __call__(self):
                return "called"

            def __neg__(self):
                return -len(self.items)
    else:
        class Box(object):
            def __init__(self):
                self.items = [1, 2, 3]

            def size(self):
                return len(self.items)
    return Box


NAMESAKE_OPS = [("len", lambda x: len(x)), ("getitem", lambda x: x[0]), ("iter", lambda x: list(x)), ("contains", lambda x: 2 in x),
                ("call", lambda x: x()), ("neg", lambda x: -x), ("callable", lambda x: callable(x)), ("bool", lambda x: bool(x)),
                ("size", lambda x: x.size()), ("items", lambda x: list(x.items))]


class Gen(object):
    """a real generator plus a counter of the items it has handed out"""

    def __init__(self, pos):
        self.count = 0

        def g():
            for x in ITEMS:
                self.count += 1
                yield x
        self.gen = g()
        for _ in range(pos):
            next(self.gen)
        if pos >= len(ITEMS):
            for _ in self.gen:
                pass

    def position(self):
        return len(ITEMS) if self.gen.gi_frame is None else self.count


def make_target(kind, st):
    """-> (the object operated on, a handle from which the abstract state can be read)"""
    if kind == "list":
        x = list(st)
    elif kind == "dict":
        x = dict((k, v) for k, v in st)
    elif kind == "set":
        x = set(st)
    elif kind == "deque":
        x = collections.deque(st, maxlen=3)
    elif kind == "bytearray":
        x = bytearray(st)
    elif kind == "gen":
        h = Gen(st)
        return h.gen, h
    elif kind == "file":
        x = io.BytesIO(bytes(st["d"]))
        x.seek(st["p"])
        if st["c"]:
            x.close()
    elif kind == "user":
        x = Acc(st["total"], st["level"], st["extra"], st["depth"])
    return x, x


def abstract(kind, h):
    if kind in ("list", "deque", "bytearray"):
        return list(h)
    if kind == "dict":
        return [[k, v] for k, v in h.items()]
    if kind == "set":
        return sorted(h)
    if kind == "gen":
        return h.position()
    if kind == "file":
        if h.closed:
            return {"c": True}
        return {"c": False, "p": h.tell(), "d": list(h.getvalue())}
    return {"total": h.total, "level": h._level, "extra": getattr(h, "extra", -1), "depth": h.depth}


def norm_state(kind, st):
    if kind == "set":
        return sorted(st)
    if kind == "dict":
        return [list(p) for p in st]
    if kind == "file":
        return {"c": True} if st["c"] else {"c": False, "p": st["p"], "d": list(st["d"])}
    if kind in ("list", "deque", "bytearray"):
        return list(st)
    return st


BUILTIN = {"list": list, "dict": dict, "set": set, "bytearray": bytearray}


def perform(kind, op, x):
    """the Python statement each operation stands for, applied to x (a proxy or a local object)"""
    o, a, b, c = op
    T = TUPS
    if kind == "bytearray":
        T = [None, b"", b"\x01", b"\x00\x01"]
    if o == "len": return len(x)
    if o == "bool": return bool(x)
    if o == "repr": return repr(x)
    if o == "str": return str(x)
    if o == "hash": return hash(x)
    if o == "int": return int(x)
    if o == "neg": return -x
    if o == "getitem": return x[a]
    if o == "setitem": x[a] = b; return None
    if o == "delitem": del x[a]; return None
    if o == "append": return x.append(a)
    if o == "appendleft": return x.appendleft(a)
    if o == "insert": return x.insert(a, b)
    if o == "pop":
        if kind == "dict": return x.pop(a)
        return x.pop()
    if o == "popi": return x.pop(a)
    if o == "popleft": return x.popleft()
    if o == "popd": return x.pop(a, b)
    if o == "popitem": return x.popitem()
    if o == "remove": return x.remove(a)
    if o == "discard": return x.discard(a)
    if o == "index": return x.index(a)
    if o == "count": return x.count(a)
    if o == "contains": return a in x
    if o == "reverse": return x.reverse()
    if o == "clear": return x.clear()
    if o == "sort": return x.sort()
    if o == "copy": return x.copy()
    if o == "rotate": return x.rotate(a)
    if o == "iter": return list(iter(x))
    if o == "reversed": return list(reversed(x))
    if o == "getslice": return x[a:b]
    if o == "delslice": del x[a:b]; return None
    if o == "setslice": x[a:b] = T[c]; return None
    if o == "extend": return x.extend(T[a])
    if o == "iadd":
        y = x
        y += (a if kind == "user" else T[a])
        return y
    if o == "mul": return x * a
    if o == "add":
        if kind == "set": return x.add(a)
        return x + a
    if o == "radd": return a + x
    if o == "add_tuple": return x + (1,)
    if o == "add_int": return x + 1
    if o == "add_bytes": return x + T[a]
    if o == "eq_self": return x == x
    if o == "eq_tuple": return x == (0,)
    if o == "ne_tuple": return x != (0,)
    if o == "eq_int": return x == a
    if o == "ne_int": return x != a
    if o == "eq_text": return x == "t"
    if o == "eq_bytes": return x == T[a]
    if o == "ne_bytes": return x != T[a]
    if o == "lt_int": return x < (a if kind == "user" else 1)
    if o == "gt_int": return x > 1
    if o == "or_int": return x | 1
    if o == "ror_int": return 1 | x
    if o == "callable": return callable(x)
    if o == "call": return x(a) if kind == "user" else x()
    if o == "call_kw": return x(a, k=b)
    if o == "call_bad": return x(1, 2, 3)
    if o == "next": return next(x)
    if o == "with":
        if kind in ("file", "user"):
            with x as g:
                return g is x
        with x:
            return None
    if o == "with_raise":
        with x:
            raise KeyError(7)
        return None
    if o == "enter": return x.__enter__()
    if o == "exit": return x.__exit__(None, None, None)
    if o == "getattr_missing": return x.no_such_attribute
    if o == "setattr_x": x.foo = 1; return None
    if o == "delattr_x": del x.foo; return None
    if o == "dir_has": return ("append" if kind == "list" else "bump") in dir(x)
    if o == "isinstance":
        if kind == "user": return isinstance(x, x.__class__)
        return isinstance(x, BUILTIN[kind])
    if o == "get": return x.get(a)
    if o == "getd": return x.get(a, b)
    if o == "setdefault": return x.setdefault(a, b)
    if o == "keys": return list(x.keys())
    if o == "values": return list(x.values())
    if o == "items": return list(x.items())
    if o == "update_pairs": return x.update(((a, b),))
    fs = frozenset(i for i in range(3) if (a >> i) & 1) if kind == "set" else None
    if o == "or": return x | fs
    if o == "and": return x & fs
    if o == "sub": return x - fs
    if o == "xor": return x ^ fs
    if o == "ior": y = x; y |= fs; return y
    if o == "isub": y = x; y -= fs; return y
    if o == "update": return x.update(fs)
    if o == "le": return x <= fs
    if o == "lt": return x < fs
    if o == "ge": return x >= fs
    if o == "eq": return x == fs
    if o == "ne": return x != fs
    if o == "isdisjoint": return x.isdisjoint(fs)
    if o == "issubset": return x.issubset(fs)
    if o == "maxlen": return x.maxlen
    if o == "set_maxlen": x.maxlen = 5; return None
    if o == "send_none": return x.send(None)
    if o == "send_one": return x.send(1)
    if o == "list_rest": return list(x)
    if o == "tuple_rest": return tuple(x)
    if o == "for_break":
        for y in x:
            return y
        return None
    if o == "close": return x.close()
    if o == "iter_is_self": return iter(x) is x
    if o == "buffiter":
        if is_proxy(x):
            from rpyc.utils.helpers import buffiter
            return list(buffiter(x, chunk=a, max_chunk=b, factor=c))
        return list(x)
    if o == "read": return x.read(a)
    if o == "readline": return x.readline()
    if o == "seek": return x.seek(a)
    if o == "seek_end": return x.seek(0, 2)
    if o == "tell": return x.tell()
    if o == "write": return x.write(FTUPS[a])
    if o == "truncate": return x.truncate()
    if o == "getvalue": return x.getvalue()
    if o == "readable": return x.readable()
    if o == "closed": return x.closed
    if o == "tobytes": return bytes(x)
    if o == "get_total": return x.total
    if o == "get_level": return x.level
    if o == "set_level": x.level = a; return None
    if o == "set_total": x.total = a; return None
    if o == "get_extra": return x.extra
    if o == "set_extra": x.extra = a; return None
    if o == "del_extra": del x.extra; return None
    if o == "del_level": del x.level; return None
    if o == "get_hidden": return x._level
    if o == "bump": return x.bump(a)
    if o == "boom": return x.boom()
    if o == "peek": return x.exposed_peek()
    if o == "get_kind": return x.KIND
    if o == "classmeth": return x.cm()
    if o == "staticmeth": return x.sm(a)
    raise tlc.MachineryError("no Python rendering for operation %r on %s" % (op, kind))


def is_proxy(x):
    return hasattr(type(x), "____id_pack__")


def flat(v):
    out = []
    for e in v:
        if isinstance(e, tuple):
            out.extend(e)
        else:
            out.append(e)
    return out


def norm_result(v, target, want_tag):
    """Python value (proxies already resolved) -> the specification's result record (t, n, s, e)"""
    if isinstance(v, BaseException):
        return ("exc", 0, [], type(v).__name__)
    if v is target:
        return ("self", 0, [], "")
    if isinstance(v, bool):
        return ("bool", int(v), [], "")
    if isinstance(v, int):
        return ("int", v, [], "")
    if v is None:
        return ("none", 0, [], "")
    if isinstance(v, str):
        return ("text", 0, [], "")
    if isinstance(v, (set, frozenset)) or want_tag == "set":
        return ("set", 0, sorted(v), "")
    if isinstance(v, (list, tuple, bytes, bytearray, collections.deque)):
        return ("seq", 0, flat(list(v)), "")
    return ("other:" + type(v).__name__, 0, [], "")


def spec_result(r):
    return (r["t"], r["n"], list(r["s"]), r["e"])


class World(object):
    """one connection pair per configuration; targets are created on side B, operated on from side A"""

    def __init__(self, cfgname, class_first=False):
        import rpyc
        self.cfgname = cfgname
        world = self
        self.made = None

        class Svc(rpyc.Service):
            def exposed_make(self, kind, js):
                x, h = make_target(kind, json.loads(js))
                world.made = (x, h)
                return x

            def exposed_namesake(self, variant):
                world.namesake = make_namesake(variant)()
                return world.namesake

            def exposed_classes(self):
                return (Acc, collections.deque, io.BytesIO, type(make_target("gen", 0)[0]))
        conf = dict(CONFIGS[cfgname])
        self.pair = Pair(rpyc.VoidService(), Svc(), config_a=dict(conf), config_b=dict(conf), patch_time=False)
        a = self.pair.a
        self.make = a.call(lambda: a.conn.root.make)
        # class_first: the holder has seen the targets' class objects before any instance (proxy classes are cached per class)
        self.classes = a.call(lambda: a.conn.root.classes()) if class_first else None

    def new(self, kind, st):
        a = self.pair.a
        js = json.dumps(st)
        proxy = a.call(lambda: self.make(kind, js))
        x, h = self.made
        return proxy, x, h

    def run(self, fn):
        try:
            return ("ok", self.pair.a.call(fn))
        except sim.Deadlock:
            raise
        except BaseException as ex:  # noqa
            return ("exc", ex)

    def resolve(self, v):
        if is_proxy(v):
            idp = object.__getattribute__(v, "____id_pack__")
            return self.pair.b.conn._local_objects[idp]
        if isinstance(v, (list, tuple)) and any(is_proxy(e) for e in v):
            return type(v)(self.resolve(e) for e in v)
        return v

    def close(self):
        self.pair.close()


def local_run(fn):
    try:
        return ("ok", fn())
    except BaseException as ex:  # noqa
        return ("exc", ex)


def judge_step(world, kind, row, proxy, target, handle, twin, twin_handle, alt_rows=None):
    """apply row's operation to proxy and twin; -> (violations, drift, proxy_record, state, row used)"""
    op = row["op"]
    if kind == "set" and op[0] == "pop" and len(row["s"]) > 1 and row["perm"][world.cfgname]:
        # which element a set pops is the implementation's choice: let the real target choose, then follow that row
        before = abstract(kind, handle)
        pk, pv = world.run(lambda: perform(kind, op, proxy))
        if pk != "ok" or type(pv) is not int or pv not in before:
            return [("result", "set.pop() through the proxy gave %r for the set %s" % (pv, before))], [], ("other", 0, [], ""), before, row
        row = next(r for r in alt_rows if r["op"][0] == "pop" and r["op"][1] == pv)
        twin.remove(pv)
        after = abstract(kind, handle)
        bad = []
        if after != norm_state(kind, row["s2"]):
            bad.append(("state", "after pop() -> %d the target is %s" % (pv, after)))
        return bad, [], ("int", pv, [], ""), after, row
    permitted = row["perm"][world.cfgname]
    want = spec_result(row["r"])
    want_state = norm_state(kind, row["s2"])
    before = abstract(kind, handle)
    text_direct = None
    if op[0] in ("repr", "str"):
        text_direct = (repr if op[0] == "repr" else str)(target)
    pk, pv = world.run(lambda: perform(kind, op, proxy))
    pv = world.resolve(pv) if pk == "ok" else pv
    got = norm_result(pv, target, want[0])
    after = abstract(kind, handle)
    bad, drift = [], []
    if permitted:
        tk, tv = local_run(lambda: perform(kind, op, twin))
        tgot = norm_result(tv, twin, want[0])
        tafter = abstract(kind, twin_handle)
        if tgot != want or tafter != want_state:
            raise tlc.MachineryError("the specification's semantics of %s %r in state %s is %r -> %s, Python does %r -> %s" % (
                kind, op, json.dumps(row["s"]), want, want_state, tgot, tafter))
        if got != want:
            bad.append(("result", "through the proxy the outcome is %s, on the target itself %s" % (show(got, pv), show(want, tv))))
        elif pk == "ok" and tk == "ok" and got[0] not in ("self",) and type(pv) is not type(tv):
            bad.append(("result-type", "the proxy operation produced a %s, the local one a %s" % (type(pv).__name__, type(tv).__name__)))
        elif pk == "exc" and not (type(pv).__name__ == type(tv).__name__ and isinstance(pv, type(tv))):
            bad.append(("exception-class", "the proxy operation raised %s, the local one %s" % (type(pv).__name__, type(tv).__name__)))
        elif text_direct is not None and pk == "ok" and pv != text_direct:
            bad.append(("text", "%s(proxy) = %r, %s(target) = %r" % (op[0], pv, op[0], text_direct)))
        if after != want_state:
            bad.append(("state", "afterwards the target is %s, after the same operation on a local twin it is %s" % (
                json.dumps(after), json.dumps(want_state))))
    else:
        if got != ("exc", 0, [], "AttributeError"):
            drift.append("refused by the specification under %s, real outcome %s" % (world.cfgname, show(got, pv)))
        if after != before:
            drift.append("a refused operation changed the target: %s -> %s" % (json.dumps(before), json.dumps(after)))
    return bad, drift, got, after, row


def show(rec, raw):
    if rec[0] == "exc":
        return "%s" % rec[3]
    if rec[0] in ("seq", "set"):
        return "%s %s" % (type(raw).__name__, rec[2])
    if rec[0] == "text":
        return "text %r" % (raw,)
    return "%s %s" % (rec[0], rec[1])


def load_table(chk):
    d = os.path.join(OUT, "c02.%d" % os.getpid())
    os.makedirs(d, exist_ok=True)
    base = os.path.join(d, "table")
    res = tlc.require_ok(tlc.run_tlc("RpycProxyOpsTable", "MC_RpycProxyOpsTable.cfg", workers=4, env={"OUT_FILE": base}), "RpycProxyOpsTable")
    if res.violation:
        raise tlc.MachineryError("RpycProxyOpsTable violates " + res.violation)
    chk.add_tlc(res, "step laws over the whole state space (failure leaves the state, queries are pure, closure), configuration order; "
                "step function exported as a table")
    res2 = tlc.require_ok(tlc.run_tlc("RpycProxyOps", "MC_RpycProxyOps.cfg", workers=8, coverage=True), "RpycProxyOps")
    if res2.violation:
        raise tlc.MachineryError("RpycProxyOps violates " + res2.violation)
    chk.add_tlc(res2, "reachable states of the proxy step relation under classic and default configuration stay inside the tabulated space")
    table = {}
    for k in KINDS:
        table[k] = [json.loads(l) for l in open(base + "." + k)]
    shutil.rmtree(d, ignore_errors=True)
    return table


def skey(kind, st):
    return json.dumps(norm_state(kind, st) if not (kind == "file" and st.get("c")) else {"c": True, "p": st["p"], "d": st["d"]}, sort_keys=True)


def main():
    chk = Check(PID)
    gc.disable()
    rnd = random.Random(chk.seed + 2)
    table = load_table(chk)
    worlds = {c: World(c) for c in CONFIGS}
    cworlds = {c: World(c, class_first=True) for c in CONFIGS}
    nrows = 0
    drift_seen = {}
    index = {}
    for kind in KINDS:
        for row in table[kind]:
            index.setdefault((kind, skey(kind, row["s"])), []).append(row)
    try:
        # ---- every row (sampled in the quick tier), under every configuration
        for kind in KINDS:
            rows = table[kind]
            if not chk.thorough:
                rows = list(rows)
                rnd.shuffle(rows)
                rows = rows[:{"file": 350, "user": 450, "dict": 400}.get(kind, 300)]
                # operations that tell an instance's proxy class from its type's are always executed
                rows += [r for r in table[kind] if r["op"][0] in ("callable", "or_int", "ror_int", "call") and r not in rows][:16]
            for i, row in enumerate(rows):
                cfgs = list(CONFIGS) if chk.thorough else ["classic", rnd.choice(["public", "public_rw", "default"])]
                sensitive = kind in ("user", "deque", "file", "gen") and row["op"][0] in ("call", "or_int", "ror_int", "callable")
                if kind == "set" and row["op"][0] == "pop" and len(row["s"]) > 1 and min(row["s"]) != row["op"][1]:
                    continue        # which element a set pops is the implementation's choice: one execution per state
                for cfgname in cfgs:
                    w = (cworlds if ((i % 3 == 2 or sensitive) and kind in ("user", "deque", "file", "gen")) else worlds)[cfgname]
                    proxy, target, handle = w.new(kind, row["s"])
                    twin, twin_handle = make_target(kind, row["s"])
                    bad, drift, got, after, _ = judge_step(w, kind, row, proxy, target, handle, twin, twin_handle,
                                                           index[(kind, skey(kind, row["s"]))])
                    nrows += 1
                    chk.evaluated()
                    chk.distinct(("row", kind, json.dumps(row["s"], sort_keys=True), tuple(row["op"]), cfgname))
                    for key, msg in bad:
                        chk.violation("%s:%s:%s" % (kind, row["op"][0], key), "C02 [%s configuration] %s in state %s, operation %s: %s" % (
                            cfgname, kind, json.dumps(row["s"]), row["op"], msg),
                            {"kind": kind, "state": row["s"], "ops": [row["op"]], "config": cfgname})
                    if not bad:
                        chk.validated()
                    for dmsg in drift:
                        drift_seen.setdefault("%s %s: %s" % (kind, row["op"][0], dmsg), 0)
                    del proxy
                if i % 700 == 0:
                    chk.sample({"kind": "table row executed on a real proxy and a twin", "target": kind, "state": row["s"],
                                "operation": row["op"], "expected": row["r"], "next_state": row["s2"]})
                if nrows % 400 == 0:
                    gc.collect()
        # ---- histories: walks through the table on one proxy / one twin
        init = {"list": [], "dict": [], "set": [], "deque": [], "bytearray": [], "gen": 0,
                "file": {"d": [97, 10, 97], "p": 0, "c": False}, "user": {"total": 0, "level": 0, "extra": -1, "depth": 0}}
        traces = []
        nwalks = 0
        for wi in range(120 if not chk.thorough else 2500):
            kind = KINDS[wi % len(KINDS)]
            cfgname = "classic" if wi % 3 else rnd.choice(list(CONFIGS))
            w = (cworlds if wi % 5 == 4 else worlds)[cfgname]
            st = init[kind]
            proxy, target, handle = w.new(kind, st)
            twin, twin_handle = make_target(kind, st)
            events = []
            ops_done = []
            for step in range(rnd.randint(5, 40)):
                cands = index.get((kind, skey(kind, st)))
                if not cands:
                    raise tlc.MachineryError("walk left the tabulated state space: %s %s" % (kind, st))
                row = rnd.choice(cands)
                bad, drift, got, after, row = judge_step(w, kind, row, proxy, target, handle, twin, twin_handle, cands)
                ops_done.append(row["op"])
                chk.evaluated()
                events.append({"op": row["op"], "r": {"t": got[0], "n": got[1], "s": got[2], "e": got[3]},
                               "perm": bool(row["perm"][cfgname])})
                for key, msg in bad:
                    chk.violation("%s:%s:%s" % (kind, row["op"][0], key), "C02 [%s configuration] %s after %d operations %s: %s" % (
                        cfgname, kind, len(ops_done), ops_done[-6:], msg),
                        {"kind": kind, "state": init[kind], "ops": ops_done, "config": cfgname})
                for dmsg in drift:
                    drift_seen.setdefault("%s %s: %s" % (kind, row["op"][0], dmsg), 0)
                if bad:
                    break
                if row["perm"][cfgname]:
                    st = row["s2"]
            else:
                chk.validated()
            nwalks += 1
            chk.distinct(("walk", kind, cfgname, json.dumps(ops_done)))
            traces.append({"kind": kind, "cfg": cfgname, "events": events})
            del proxy
            if wi % 50 == 49:
                gc.collect()
    finally:
        for w in list(worlds.values()) + list(cworlds.values()):
            w.close()
    validate_walks(chk, traces)
    namesake_part(chk, None)
    buffiter_part(chk, rnd)
    chk.cov["rows_executed"] = nrows
    chk.cov["walks"] = nwalks
    chk.cov["drift"] = sorted(drift_seen)[:40]
    chk.assumptions += ["targets: list, dict, set, deque(maxlen=3), a generator, io.BytesIO, bytearray, a user class with operator "
                        "overloads, a property and a context manager; operands are small ints, tuples, bytes and frozensets",
                        "configurations: classic (allow_all_attrs + setattr/delattr), allow_public_attrs, allow_public_attrs with "
                        "setattr/delattr, default; operations the configuration refuses are outside the claim",
                        "leaving a with-block by an exception raised on the holder's side is outside the statement (operand on the "
                        "holder's side)"]
    return chk.finish(rule="evaluations = operations executed through a real proxy and on a local twin; distinct = (kind, state, "
                      "operation, configuration) rows and walks", exhaustive=chk.thorough)


def namesake_part(chk, worlds):
    """beyond the specification's vocabulary (judged by the twin alone): two classes with the same qualified name, instances of
    both proxied on one connection, in both orders"""
    for cfgname in ("classic", "public"):
        for order in (("rich", "plain"), ("plain", "rich")):
            import rpyc
            w = World(cfgname)
            try:
                a = w.pair.a
                get = a.call(lambda: a.conn.root.namesake)
                for variant in order + order:
                    proxy = a.call(lambda: get(variant))
                    twin = make_namesake(variant)()
                    for name, fn in NAMESAKE_OPS:
                        pk, pv = w.run(lambda: fn(proxy))
                        tk, tv = local_run(lambda: fn(twin))
                        chk.evaluated()
                        chk.distinct(("namesake", cfgname, order, variant, name))
                        ok = (pk == tk) and ((pv == tv) if pk == "ok" else (type(pv).__name__ == type(tv).__name__))
                        if cfgname != "classic" and pk == "exc" and type(pv).__name__ == "AttributeError" and "cannot access" in str(pv):
                            continue            # refused by the configuration: outside the claim
                        if not ok:
                            chk.violation("namesake:%s" % name, "C02 [%s configuration] two classes named alike, instances proxied in the "
                                          "order %s: %s on the %s one gives %s through the proxy, %s on the target itself" % (
                                              cfgname, "/".join(order), name, variant,
                                              (type(pv).__name__ if pk == "exc" else repr(pv)), (type(tv).__name__ if tk == "exc" else repr(tv))),
                                          {"namesake": [cfgname, list(order), variant, name]})
                        else:
                            chk.validated()
                    del proxy
            finally:
                w.close()


def validate_walks(chk, traces):
    if not traces:
        return
    batch = [{"kind": t["kind"], "cfg": t["cfg"], "events": t["events"]} for t in traces]
    nreal = len(batch)
    long_ = max(batch, key=lambda t: len(t["events"]))
    b1 = json.loads(json.dumps(long_))
    b1["events"][-1]["r"] = {"t": "int", "n": 77, "s": [], "e": ""}
    batch.append(b1)
    out, res = tlc.validate_traces("Trace_RpycProxyOps", batch, "", ['Kinds = {"list"}', 'Configs = {"classic"}'], name="c02")
    chk.add_tlc(res, "trace validation: outcomes observed through real proxies along walks, against the proxy step relation")
    if out[nreal] is not None and out[nreal][0] == out[nreal][1]:
        raise tlc.MachineryError("self-test: a corrupted walk was accepted by Trace_RpycProxyOps")
    for j in range(nreal):
        if out[j] is None or out[j][0] != out[j][1]:
            t = traces[j]
            k = out[j][0] if out[j] else 0
            ev = t["events"][k] if k < len(t["events"]) else None
            if ev is not None and not ev["perm"]:
                continue
            chk.violation("%s:%s:trace" % (t["kind"], ev["op"][0] if ev else "?"),
                          "C02 [%s configuration] %s: the outcome %s of step %d (%s) observed through the proxy is not a step of the "
                          "specification" % (t["cfg"], t["kind"], ev and ev["r"], k + 1, ev and ev["op"]),
                          {"kind": t["kind"], "config": t["cfg"], "ops": [e["op"] for e in t["events"]]})
        else:
            chk.validated()


def buffiter_part(chk, rnd):
    import rpyc
    from rpyc.core import consts
    from rpyc.utils.helpers import buffiter
    res = tlc.require_ok(tlc.run_tlc("RpycBuffiter", "MC_RpycBuffiter.cfg", workers=8, coverage=True), "RpycBuffiter")
    if res.violation:
        raise tlc.MachineryError("RpycBuffiter violates " + res.violation)
    chk.add_tlc(res, "buffiter loop: chunk, factor, max_chunk in 1..4, 0..9 elements: emitted = consumed prefix, complete, terminates")
    log = []

    class Svc(rpyc.Service):
        def exposed_range(self, n):
            return iter(range(n))

        def exposed_list(self, n):
            return list(range(n))
    p = Pair(rpyc.VoidService(), Svc(), patch_time=False)
    handlers = p.b.conn._HANDLERS
    orig = handlers[consts.HANDLE_BUFFITER]

    def rec(self, obj, count):
        r = orig(self, obj, count)
        log.append({"count": count, "got": len(r)})
        return r
    handlers[consts.HANDLE_BUFFITER] = rec
    traces = []
    try:
        a = p.a
        root = a.call(lambda: a.conn.root)
        rng = range(1, 5)
        lens = range(0, 10)
        combos = [(c, f, m, n) for c in rng for f in rng for m in rng for n in lens]
        extra = [(10, 2, 1000, 2500), (3, 1, 2, 7), (1000, 2, 10, 30), (7, 3, 50, 200)]
        if not chk.thorough:
            rnd.shuffle(combos)
            combos = combos[:400]
        for (c, f, m, n) in combos + extra:
            for src in ("range", "list"):
                del log[:]
                try:
                    got = a.call(lambda: list(buffiter(getattr(root, src)(n), chunk=c, max_chunk=m, factor=f)))
                    err = None
                except Exception as ex:  # noqa
                    got, err = None, ex
                chk.evaluated()
                chk.distinct(("buffiter", c, f, m, n, src))
                if err is not None or got != list(range(n)):
                    chk.violation("buffiter:elements", "C02 buffiter(chunk=%d, max_chunk=%d, factor=%d) over %d elements yields %s" % (
                        c, m, f, n, ("%r" % err) if err else "%d elements%s" % (len(got), "" if len(got) != n else " in the wrong order")),
                        {"buffiter": [c, f, m, n, src]})
                else:
                    chk.validated()
                if n <= 9 and c <= 4:
                    traces.append({"chunk": c, "factor": f, "maxc": m, "n": n, "events": list(log)})
        # early abandonment and interleaving with direct iteration keep the order of what is yielded
        for (c, f, m, n, take) in [(2, 2, 4, 9, 3), (1, 1, 1, 5, 2), (3, 2, 3, 8, 4)]:
            def prog():
                it = buffiter(root.range(n), chunk=c, max_chunk=m, factor=f)
                return [next(it) for _ in range(take)]
            got = a.call(prog)
            chk.evaluated()
            if got != list(range(take)):
                chk.violation("buffiter:prefix", "C02 the first %d elements of buffiter(chunk=%d, max_chunk=%d, factor=%d) are %s" % (
                    take, c, m, f, got), {"buffiter": [c, f, m, n, "prefix"]})
    finally:
        handlers[consts.HANDLE_BUFFITER] = orig
        p.close()
    batch = [dict(t) for t in traces]
    nreal = len(batch)
    if batch:
        b1 = json.loads(json.dumps(max(batch, key=lambda t: len(t["events"]))))
        b1["events"][0]["count"] += 1
        batch.append(b1)
        out, res2 = tlc.validate_traces("Trace_RpycBuffiter", batch, "", ["MaxP = 4", "MaxN = 9"], invariants=["PrefixEmitted"], name="c02b")
        chk.add_tlc(res2, "trace validation: request sizes and reply lengths of real buffiter runs")
        if out[nreal] is not None and out[nreal][0] == out[nreal][1]:
            raise tlc.MachineryError("self-test: a corrupted buffiter trace was accepted")
        for j in range(nreal):
            t = traces[j]
            if out[j] is None or out[j][0] != out[j][1]:
                chk.violation("buffiter:requests", "C02 buffiter(chunk=%d, max_chunk=%d, factor=%d) over %d elements asked for %s - not a "
                              "run of the buffered-iteration loop (step %s)" % (t["chunk"], t["maxc"], t["factor"], t["n"],
                                                                                [e["count"] for e in t["events"]], out[j]),
                              {"buffiter": [t["chunk"], t["factor"], t["maxc"], t["n"], "trace"]})
            else:
                chk.validated()


if __name__ == "__main__":
    main_wrapper(main)
