"""C14 - a waiter returns as soon as its reply has been processed by any thread (spec: RpycServe, NoStall)."""
import gc
import json

from harness import sim, tlc
from harness.common import Check, main_wrapper
from harness.drivers import serve_common as sc
from harness.drivers.c13 import norm
from harness.drivers import serve_nested as sn

PID = "C14"


def replay_counterexample(chk, res, cfgname):
    """run TLC's NoStall counterexample on the real code; returns the stalls the code exhibits"""
    cfg = sc.CONFIGS[cfgname]
    fx = sc.Fixture(cfg["reqs"], cfg["bg"])
    s = fx.sched
    labels = []
    try:
        prev = None
        for label, st in res.error_trace:
            if prev is None:
                prev = st
                continue
            labels.append(label)
            try:
                if label.startswith("PeerReply"):
                    r = next(iter(set(st["replied"]) - set(prev["replied"])))
                    fx.peer_reply(r, dict(fx.sent_requests())[r])
                else:
                    actor = [t for t in st["pc"] if st["pc"][t] != prev["pc"][t]]
                    if not actor:
                        actor = [label.split('"')[1]]
                    t = s.thread(actor[0])
                    wake = "go"
                    if not t.pending.is_enabled() or t.pending.kind == "sleep":
                        if t.pending.deadline is None:
                            raise KeyError("blocked")
                        s.now = max(s.now, t.pending.deadline)
                        wake = "timeout"
                    s.step(t, wake)
            except (KeyError, IndexError, StopIteration, sim.Deadlock) as ex:
                chk.drift.append("NoStall counterexample cannot be followed at %s: %r" % (label, ex))
                return None, labels
            chk.evaluated()
            mism = sc.compare(fx, st)
            if mism:
                chk.drift.append("NoStall counterexample: after %s: %s" % (label, mism))
                return None, labels
            prev = st
        # the specification says: now quiescent, nothing to come, waiter's result published
        stalled = []
        if not sc.thread_choices(s) or all(c[0] is fx.bg for c in sc.thread_choices(s)):
            for name, t in fx.clients.items():
                if t.done:
                    continue
                r = next((x for x in fx.reqs[name] if x not in fx.outcome), None)
                if r is not None and fx.is_ready(r) and not t.pending.is_enabled():
                    stalled.append((name, t.pending.kind, sc.received_by(fx, r), r,
                                    t.pending.deadline - s.now if t.pending.deadline is not None else None))
        return stalled, labels
    finally:
        fx.close()


def main():
    chk = Check(PID)
    gc.disable()

    def on_result(res, cfg, rep):
        chk.evaluated()
        chk.distinct(("sched", rep["config"], tuple((e.get("t"), e.get("op"), e.get("wake")) for e in res["trace"])))
        c13, c14 = sc.judge(res, cfg["reqs"])
        for key, msg in c14:
            chk.violation(key, "C14 " + msg, rep)
            chk.cov["stalls_seen"] = chk.cov.get("stalls_seen", 0) + 1

    if chk.replay:
        rep = json.load(open(chk.replay))["replay"]
        if rep.get("mode") == "nested":
            cfg = sn.NCONFIGS[rep["config"]]
            res = sc.run_impl(cfg["reqs"], False, sc.index_chooser(rep["indices"]), lines=rep.get("lines", False),
                              fixture=sn.fixture_for(cfg["nested"], cfg.get("pool", ())))
            _, c14 = sn.judge(res, cfg)
        else:
            cfg = sc.CONFIGS[rep["config"]]
            res = sc.run_impl(cfg["reqs"], cfg["bg"], sc.index_chooser(rep["indices"]), lines=rep.get("lines", False))
            _, c14 = sc.judge(res, cfg["reqs"])
        for key, msg in c14:
            print("VIOLATION property=%s replay=%s\n   [%s] %s" % (PID, chk.replay, key, msg))
        return 1 if c14 else 0

    repaired = sc.handoff_repaired()
    if repaired:
        # 1. the design of the working tree's serve() (replies in transit counted, the waiter looks again before it sleeps on
        #    the transport, waiters notified again after the dispatch): NoStall holds as stated
        cfgs = [("MC_RpycServe_2_h.cfg", "exhaustive: 2 clients; NoStall, NoHang, WillBeWoken, Termination"),
                ("MC_RpycServe_1bg_h.cfg", "exhaustive: 1 client + background thread; NoStall"),
                ("MC_RpycServe_2bg_h.cfg", "exhaustive: 2 clients + background thread; NoStall")]
        cfgs += [("MC_RpycServe_2p_h.cfg", "exhaustive: 2 clients + 1 thread that only serves in a blocking loop (serve_threaded): NoStall")]
        if chk.thorough:
            cfgs += [("MC_RpycServe_3_h.cfg", "exhaustive: 3 clients; NoStall"),
                     ("MC_RpycServe_2pp_h.cfg", "exhaustive: 2 clients + 2 serving-only threads; NoStall")]
        for cfg, what in cfgs:
            res = tlc.require_ok(tlc.run_tlc("MC_RpycServe", cfg, coverage=True, timeout=3000), cfg)
            if res.violation:
                raise tlc.MachineryError("specification RpycServe (repaired serve) violates %s under %s" % (res.violation, cfg))
            chk.add_tlc(res, what)
            for a in ("SPrecheck", "SRecheck", "SGiveUp", "DNotify"):
                if res.coverage.get(a, (0, 0))[1] == 0:
                    raise tlc.MachineryError("vacuity: action %s never taken in %s" % (a, cfg))
        # 2. the pinned design (notify before dispatch, no second look): TLC's counterexample to NoStall, kept as the record of
        #    what was repaired; the repaired code can no longer follow it
        res = tlc.require_ok(tlc.run_tlc("MC_RpycServe", "MC_RpycServe_nostall.cfg", workers=1), "nostall")
        chk.add_tlc(res, "NoStall on 1 client + background thread in the model of the PINNED serve(): counterexample (the hand-off "
                    "stall that was repaired)")
        if res.violation != "NoStall":
            raise tlc.MachineryError("expected the model of the pinned serve() to violate NoStall, got %r" % res.violation)
        res = tlc.require_ok(tlc.run_tlc("MC_RpycServe", "MC_RpycServe_2p_pinned.cfg", workers=1), "2p pinned")
        chk.add_tlc(res, "NoStall with a serving-only thread in the model of the PINNED serve(): counterexample - the caveat in "
                    "serve_threaded()'s docstring (a sync request made by one of its threads may time out because another of them "
                    "received the reply)")
        if res.violation != "NoStall":
            raise tlc.MachineryError("expected the pinned serve() with a serving-only thread to violate NoStall, got %r" % res.violation)
    else:
        # 1. the design: every stall the model can reach has the known hand-off shape
        cfgs = [("MC_RpycServe_2.cfg", "exhaustive: 2 clients; OnlyKnownStalls, NoHang, WillBeWoken"),
                ("MC_RpycServe_1bg.cfg", "exhaustive: 1 client + background thread; OnlyKnownStalls")]
        if chk.thorough:
            cfgs += [("MC_RpycServe_2bg.cfg", "exhaustive: 2 clients + background thread"),
                     ("MC_RpycServe_3.cfg", "exhaustive: 3 clients")]
        for cfg, what in cfgs:
            res = tlc.require_ok(tlc.run_tlc("MC_RpycServe", cfg, coverage=True, timeout=3000), cfg)
            if res.violation:
                raise tlc.MachineryError("specification RpycServe violates %s under %s" % (res.violation, cfg))
            chk.add_tlc(res, what)
            if res.coverage.get("Expire", (0, 0))[1] == 0:
                raise tlc.MachineryError("vacuity: the stall (Expire) is never reached in %s" % cfg)
        # 2. the property as stated (NoStall) fails in the model of the pinned code; follow TLC's counterexample in the code
        res = tlc.require_ok(tlc.run_tlc("MC_RpycServe", "MC_RpycServe_nostall.cfg", workers=1), "nostall")
        chk.add_tlc(res, "NoStall on 1 client + background thread: expected to fail in the model (notify before dispatch)")
        if res.violation != "NoStall":
            raise tlc.MachineryError("expected the model of the pinned serve() to violate NoStall, got %r" % res.violation)
        stalled, labels = replay_counterexample(chk, res, "1bg")
        chk.sample({"kind": "TLC counterexample to NoStall replayed on the real code", "labels": labels,
                    "implementation_stalls": stalled})
        if stalled is not None:
            chk.validated()
            for name, where, rb, r, left in stalled:
                key = "stall:handoff:poll" if (rb != name and where == "poll") else "stall:%s:%s" % (
                    "own" if rb == name else "other", where)
                chk.violation(key, "C14 waiter %s sleeps in %s for another %s s although the reply to %s was already processed "
                              "by %s (TLC counterexample replayed)" % (name, where, left, r, rb),
                              {"mode": "tlc-counterexample", "labels": labels})
    # 3. exploration of the real code: any stall with another shape is a violation
    plan = [("1bg", 150, 600, 2), ("2", 150, 500, 2), ("2bg", 100, 300, 2)]
    if chk.thorough:
        plan = [("1bg", 500, 5000, 3), ("2", 500, 6000, 3), ("2bg", 500, 4000, 2), ("3", 400, 4000, 2), ("3bg", 400, 1000, 1)]
    if repaired:
        plan += [("2p", 100, 300, 2)] if not chk.thorough else [("2p", 400, 3000, 2), ("1pp", 300, 2000, 2), ("2pp", 300, 1000, 1)]
    for cfgname, nr, nd, bound in plan:
        traces = sc.explore(chk, cfgname, nr, nd, bound, False, on_result)
        r = sc.validate(chk, cfgname, [norm(t) for t in traces])
        if r and r[0] in ("OnlyKnownStalls", "NoStall"):
            chk.violation("trace-invariant:" + r[0], "C14 an implementation trace reaches a stall%s" % (
                "" if r[0] == "NoStall" else " that is not of the known hand-off shape"),
                {"mode": "trace", "config": cfgname, "tlc": r[1].stdout[-1500:]})
    if chk.thorough:
        for cfgname in ("1bg", "2"):
            sc.explore(chk, cfgname, 250, 0, 0, True, on_result)
    # 4. replies that carry references (nested INSPECT round trips inside the dispatch, RpycServeNested): NoStall with nesting
    if repaired:
        sn.model_check(chk, chk.thorough)
    sn.explore(chk, "c14", lambda k, m, r: None,
               lambda k, m, r: chk.violation(k, "C14 " + m, r), chk.thorough)
    chk.assumptions += [
        "a stall = a client thread blocked (poll / condition wait) at a moment when every thread is blocked, nothing is in "
        "flight and its own result has been published; it then only returns by its 30 s timeout (virtual time)",
        "the hand-off stall of the pinned code was repaired (known_findings.json, fixed): any stall is a violation; the "
        "specification keeps the pinned variant (Handoff = FALSE) for its counterexample"]
    return chk.finish(rule="evaluations = executions of the real code under a controlled schedule (+ steps of the replayed "
                      "counterexample); distinct = distinct schedules")


if __name__ == "__main__":
    main_wrapper(main)
