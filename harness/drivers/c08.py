"""C08 - every request gets exactly one response, delivered to its own requester (spec: RpycLedger)."""
import gc
import os
import random
import shutil

from harness import sim, tlc
from harness.common import Check, main_wrapper, OUT
from harness.pair import Pair

PID = "C08"
INVS = ["ExecAtMostOnce", "OneResponse", "Routing", "KindMatches", "Complete", "NoOrphanCallbacks", "StayOpen",
        "WaitsAreLive", "SeqUnique"]
CLASSES = ["value", "ref", "raises", "undecodable", "nohandler", "unencodable", "nested"]
EXPECT = {"value": "REPLY", "ref": "REPLY", "nested": "REPLY", "callback": "REPLY", "raises": "EXC",
          "undecodable": "EXC", "nohandler": "EXC", "unencodable": "EXC"}


class CustomBase(BaseException):
    pass


class Fixture(object):
    def __init__(self, unenc_kind="bigint"):
        import rpyc
        from rpyc.core import consts, netref
        self.consts = consts
        fx = self
        self.ran = {}          # tag -> times a handler / callback body ran
        self.unenc_kind = unenc_kind

        def ran(tag):
            fx.ran[tag] = fx.ran.get(tag, 0) + 1

        class Svc(rpyc.Service):
            def exposed_val(self, tag):
                ran(tag)
                if fx.unenc_kind == "surrogate":
                    return "\ud800" + tag          # text with a lone surrogate is a plain value like any other
                return tag

            def exposed_ref(self, tag):
                ran(tag)
                return [tag]

            def exposed_boom(self, tag):
                ran(tag)
                # any exception counts, including the ones that do not derive from Exception
                k = len(fx.reqs) % 4
                if k == 0:
                    raise ValueError(tag)
                if k == 1:
                    raise SystemExit(tag)
                if k == 2:
                    raise GeneratorExit(tag)
                raise CustomBase(tag)

            def exposed_unenc(self, tag):
                ran(tag)
                return (10 ** 5000, tag)           # brine.dumpable() says yes, but the int is beyond the int->str digit limit

            def exposed_nest(self, cb, tag):
                ran(tag)
                cb(tag + "/cb")
                return tag

        self.pair = p = Pair(Svc(), Svc(), manual=False, autoserve=True)
        self.m = {}
        for side in (p.a, p.b):
            root = side.call(lambda: side.conn.root)
            self.m[side.name] = {n: side.call(lambda n=n: getattr(root, n)) for n in ("val", "ref", "boom", "unenc", "nest")}
            self.m[side.name]["root"] = root
        self.fakes = {n: netref.builtin_classes_cache["builtins.list"](p.side(n).conn, ("builtins.list", 7, 424242))
                      for n in ("A", "B")}
        self.cbfn = lambda t: (ran(t), t)[1]
        p.settle()
        self.base_frames = {n: len(self.frames_of(n)) for n in ("A", "B")}
        p.net.manual = True
        p.autoserve = False
        self.reqs = []        # dict(rid, s, cls, mode, tag, seq)
        self.keep = []        # results kept alive so that no release notices are generated during the run
        self.async_res = {}
        self.cb_count = {}

    # -- frames
    def frames_of(self, name):
        return [f for f in self.pair.frames() if f["side"] == name]

    def aux_seqs(self, name):
        """sequence numbers of auxiliary requests (release notices) issued by side `name`"""
        c = self.consts
        return {f["seq"] for f in self.frames_of(name)[self.base_frames[name]:]
                if f["kind"] == c.MSG_REQUEST and f["args"][0] == c.HANDLE_DEL}

    def classify(self, raw, to_side):
        """frame travelling to `to_side`: ('REQ'|'REPLY'|'EXC', seq, aux?)"""
        from rpyc.core import brine
        c = self.consts
        msg, seq, args = brine.load(raw[5:-1])
        frm = "B" if to_side == "A" else "A"
        if msg == c.MSG_REQUEST:
            return "REQ", seq, args[0] == c.HANDLE_DEL
        return ("REPLY" if msg == c.MSG_REPLY else "EXC"), seq, seq in self.aux_seqs(to_side)

    def primary_in_flight(self, name):
        side = self.pair.side(name)
        return [x for x in (self.classify(r, name) for r in self.pair.in_flight_to(side)) if not x[2]]

    # -- actions
    def issue(self, s, cls, mode):
        import rpyc
        side = self.pair.side(s)
        conn = side.conn
        rid = len(self.reqs) + 1
        tag = "r%d" % rid
        m = self.m[s]
        c = self.consts
        sync = mode == "sync"
        if cls in ("value", "ref", "raises", "unencodable"):
            meth = m[{"value": "val", "ref": "ref", "raises": "boom", "unencodable": "unenc"}[cls]]
            fn = (lambda: meth(tag)) if sync else (lambda: rpyc.async_(meth)(tag))
        elif cls == "nested":
            fn = (lambda: m["nest"](self.cbfn, tag)) if sync else (lambda: rpyc.async_(m["nest"])(self.cbfn, tag))
        elif cls == "nohandler":
            fn = (lambda: conn.sync_request(99, tag)) if sync else (lambda: conn.async_request(99, tag))
        elif cls == "undecodable":
            fake = self.fakes[s]
            fn = (lambda: conn.sync_request(c.HANDLE_CALL, fake, (tag,), ())) if sync else \
                (lambda: conn.async_request(c.HANDLE_CALL, fake, (tag,), ()))
        else:
            raise tlc.MachineryError("class " + cls)
        n0 = len(self.frames_of(s))
        side.do(tag, fn)
        new = [f for f in self.frames_of(s)[n0:] if f["kind"] == c.MSG_REQUEST and f["args"][0] != c.HANDLE_DEL]
        seq = new[0]["seq"] if new else None
        self.reqs.append({"rid": rid, "s": s, "cls": cls, "mode": mode, "tag": tag, "seq": seq})
        if not sync and tag in side.results and side.results[tag][0] == "ok":
            ares = side.results[tag][1]
            self.async_res[tag] = ares
            self.cb_count[tag] = 0
            ares.add_callback(lambda r, tag=tag: self.cb_count.__setitem__(tag, self.cb_count[tag] + 1))

    def process(self, s):
        """deliver the next primary frame travelling to s (auxiliary frames before it are delivered on the way)"""
        side = self.pair.side(s)
        while True:
            fl = self.pair.in_flight_to(side)
            if not fl:
                raise KeyError("nothing in flight to " + s)
            kind, seq, aux = self.classify(fl[0], s)
            self.pair.deliver_to(side)
            if not aux:
                return kind, seq

    def finish(self):
        """deliver everything that is still in flight (FIFO per direction, alternating)"""
        for _ in range(1000):
            moved = False
            for s in ("A", "B"):
                if self.pair.in_flight_to(self.pair.side(s)):
                    self.pair.deliver_to(self.pair.side(s))
                    moved = True
            if not moved:
                break

    # -- observation
    def observe(self):
        p = self.pair
        return {"nA": len(self.primary_in_flight("A")), "nB": len(self.primary_in_flight("B")),
                "idleA": p.a.idle, "idleB": p.b.idle, "open": not p.a.conn.closed and not p.b.conn.closed}

    def responses_to(self, req):
        """response frames written by the peer of req's issuer carrying req's sequence number"""
        c = self.consts
        peer = "B" if req["s"] == "A" else "A"
        return [("REPLY" if f["kind"] == c.MSG_REPLY else "EXC") for f in self.frames_of(peer)[self.base_frames[peer]:]
                if f["kind"] in (c.MSG_REPLY, c.MSG_EXCEPTION) and f["seq"] == req["seq"]]

    def oracle(self, final=False):
        bad = []
        p = self.pair
        c = self.consts
        for side in (p.a, p.b):
            if side.conn.closed:
                bad.append(("closed", "connection of side %s was closed as a consequence of a request outcome" % side.name))
            for ex in side.errors:
                bad.append(("serve-raised", "serve() on side %s raised %r" % (side.name, ex)))
        # frame-level ledger over ALL requests (primary and auxiliary)
        for name in ("A", "B"):
            peer = "B" if name == "A" else "A"
            req_seqs = [f["seq"] for f in self.frames_of(name)[self.base_frames[name]:] if f["kind"] == c.MSG_REQUEST]
            if len(set(req_seqs)) != len(req_seqs):
                bad.append(("seq-reuse", "side %s reused a sequence number: %s" % (name, req_seqs)))
            rs = [f["seq"] for f in self.frames_of(peer)[self.base_frames[peer]:]
                  if f["kind"] in (c.MSG_REPLY, c.MSG_EXCEPTION)]
            for q in set(rs):
                if rs.count(q) > 1:
                    bad.append(("double-response", "request seq %s of side %s was answered %d times" % (q, name, rs.count(q))))
                if q not in req_seqs:
                    bad.append(("stray-response", "a response with seq %s was sent to side %s, which never issued it" % (q, name)))
            if final:
                for q in req_seqs:
                    if rs.count(q) == 0:
                        bad.append(("no-response", "request seq %s of side %s was never answered" % (q, name)))
        for tag, n in self.ran.items():
            if n > 1:
                bad.append(("executed-twice", "the handler of %s ran %d times" % (tag, n)))
        for req in self.reqs:
            rs = self.responses_to(req)
            if rs and rs[0] != EXPECT[req["cls"]]:
                bad.append(("wrong-kind", "request %s (%s) was answered with %s" % (req["tag"], req["cls"], rs[0])))
            out = self.outcome(req)
            if out is None:
                if final:
                    bad.append(("not-delivered", "request %s (%s, %s) never completed at its requester" % (
                        req["tag"], req["cls"], req["mode"])))
                continue
            kind, val = out
            exp = EXPECT[req["cls"]]
            if exp == "REPLY":
                ok = kind == "ok" and (hasattr(type(val), "____id_pack__") or hasattr(val, "____id_pack__")
                                       if req["cls"] == "ref" else (type(val) is str and val in (req["tag"], "\ud800" + req["tag"])))
            else:
                ok = kind == "exc" and not isinstance(val, EOFError) and req["tag"] in (str(val) + repr(getattr(val, "args", "")))\
                    if req["cls"] == "raises" else (kind == "exc" and not isinstance(val, (EOFError, TimeoutError)))
            if not ok:
                bad.append(("wrong-outcome", "request %s (%s) completed with %s %r" % (req["tag"], req["cls"], kind, val)))
            if req["tag"] in self.cb_count and self.cb_count[req["tag"]] != 1:
                bad.append(("callback-count", "the callback of %s ran %d times" % (req["tag"], self.cb_count[req["tag"]])))
        return bad

    def outcome(self, req):
        side = self.pair.side(req["s"])
        if req["mode"] == "sync":
            r = side.results.get(req["tag"])
            if r is not None and r[0] == "ok":
                self.keep.append(r[1])
            return r
        ares = self.async_res.get(req["tag"])
        if ares is None:
            r = side.results.get(req["tag"])
            return r if r is not None and r[0] == "exc" else None
        if not object.__getattribute__(ares, "_is_ready"):
            return None
        try:
            v = ares.value
            self.keep.append(v)
            return ("ok", v)
        except BaseException as ex:  # noqa
            return ("exc", ex)

    def close(self):
        self.pair.close()


def enabled_actions(fx):
    acts = []
    p = fx.pair
    for s in ("A", "B"):
        if p.side(s).idle:
            acts.append(("Issue", s))
        if fx.primary_in_flight(s):
            acts.append(("Process", s))
    return acts


def run_history(chk, fx, hist, judge_final=True):
    """hist: list of (act, s, cls, mode).  Returns trace events."""
    trace = []
    done = []
    for (act, s, cls, mode) in hist:
        if act == "Issue":
            fx.issue(s, cls, mode)
        else:
            fx.process(s)
        done.append((act, s, cls, mode))
        chk.evaluated()
        ob = fx.observe()
        trace.append(dict(ob, act=act, s=s, cls=cls or "", mode=mode or ""))
        for key, msg in fx.oracle():
            chk.violation(key + ":" + (cls_of(fx, msg) or ""), "C08 %s (history: %s)" % (msg, done),
                          {"mode": "history", "history": done, "unenc": fx.unenc_kind})
    if judge_final:
        fx.finish()
        for key, msg in fx.oracle(final=True):
            chk.violation(key + ":" + (cls_of(fx, msg) or ""), "C08 %s (history: %s + drain)" % (msg, done),
                          {"mode": "history", "history": done, "unenc": fx.unenc_kind})
    return trace


def cls_of(fx, msg):
    for r in fx.reqs:
        if "request %s " % r["tag"] in msg:
            return r["cls"]
    for c in CLASSES:
        if "(%s" % c in msg:
            return c
    kinds = sorted({r["cls"] for r in fx.reqs if r["cls"] in ("unencodable",)})
    return kinds[0] if kinds else ""


def random_history(chk, rnd, nreq, classes):
    fx = Fixture(unenc_kind=rnd.choice(["surrogate", "bigint"]))
    hist = []
    trace = []
    try:
        issued = 0
        for _ in range(400):
            acts = enabled_actions(fx)
            acts = [a for a in acts if a[0] != "Issue" or issued < nreq]
            if not acts:
                break
            weights = [1 if a[0] == "Issue" else 2 for a in acts]
            act, s = rnd.choices(acts, weights)[0]
            cls = mode = None
            if act == "Issue":
                cls = rnd.choice(classes)
                mode = rnd.choice(["sync", "async"])
                issued += 1
            trace += run_history(chk, fx, [(act, s, cls, mode)], judge_final=False)
            hist.append((act, s, cls, mode))
            if fx.pair.a.conn.closed or fx.pair.b.conn.closed:
                break
        fx.finish()
        for key, msg in fx.oracle(final=True):
            chk.violation(key + ":" + (cls_of(fx, msg) or ""), "C08 %s (history: %s + drain)" % (msg, hist),
                          {"mode": "history", "history": hist, "unenc": fx.unenc_kind})
        return trace, hist
    finally:
        fx.close()


def replay_graph(chk, max_paths):
    d = os.path.join(OUT, "c08.%d" % os.getpid())
    os.makedirs(d, exist_ok=True)
    open(os.path.join(d, "G.tla"), "w").write("---- MODULE G ----\nEXTENDS RpycLedger\n====\n")
    open(os.path.join(d, "G.cfg"), "w").write(
        "SPECIFICATION Spec\nCONSTANTS\n  Classes = {%s}\n  MaxReq = 2\n  TearDownOnUnencodable = FALSE\n%s\n" % (
            ", ".join('"%s"' % c for c in CLASSES), "\n".join("INVARIANT " + i for i in INVS)))
    res = tlc.run_tlc("G", "G.cfg", workers=8, dump=os.path.join(d, "graph"), cwd=d, jvm_props=["TLA-Library=" + tlc.SPEC])
    tlc.require_ok(res, "RpycLedger graph")
    if res.violation:
        raise tlc.MachineryError("RpycLedger violates " + res.violation)
    chk.add_tlc(res, "RpycLedger state graph for transition cover (2 top-level requests, all classes)")
    g = tlc.load_dot(os.path.join(d, "graph.dot"))
    shutil.rmtree(d, ignore_errors=True)
    paths = tlc.edge_cover_paths(g)
    rnd = random.Random(chk.seed)
    if len(paths) > max_paths:
        rnd.shuffle(paths)
        paths = paths[:max_paths]
    covered = 0
    for pi, path in enumerate(paths):
        fx = Fixture(unenc_kind=rnd.choice(["surrogate", "bigint"]))
        try:
            cur = path[0]
            ok = True
            hist = []
            for (label, dst) in path[1:]:
                if g.nodes[cur] == g.nodes[dst]:
                    cur = dst
                    continue
                parts = label.replace(")", "").split("(")
                args = [a.strip().strip('"') for a in parts[1].split(",")] if len(parts) > 1 else []
                if parts[0] == "Issue":
                    step = ("Issue", args[0], args[1], args[2])
                else:
                    step = ("Process", args[0], None, None)
                try:
                    run_history(chk, fx, [step], judge_final=False)
                except (KeyError, sim.Deadlock) as ex:
                    chk.drift.append("path %d %s: %r" % (pi, label, ex))
                    ok = False
                    break
                hist.append(step)
                if ok:
                    mism = compare(fx, g.nodes[dst])
                    if mism:
                        chk.drift.append("path %d after %s: %s" % (pi, label, mism))
                        ok = False
                    else:
                        covered += 1
                        chk.distinct(("edge", cur, label, dst))
                cur = dst
            if ok:
                chk.validated()
            fx.finish()
            for key, msg in fx.oracle(final=True):
                chk.violation(key + ":" + (cls_of(fx, msg) or ""), "C08 %s (history: %s + drain)" % (msg, hist),
                              {"mode": "history", "history": hist, "unenc": fx.unenc_kind})
            if pi < 2:
                chk.sample({"kind": "TLC path replayed on two real Connections", "history": hist})
        finally:
            fx.close()
        if pi % 100 == 99:
            gc.collect()
    return len(paths), covered, g.nedges


def compare(fx, st):
    ob = fx.observe()
    if ob["nA"] != len(st["chan"]["A"]) or ob["nB"] != len(st["chan"]["B"]):
        return "frames in flight to A/B %d/%d vs spec %d/%d" % (ob["nA"], ob["nB"], len(st["chan"]["A"]), len(st["chan"]["B"]))
    for s in ("A", "B"):
        kinds = [k for k, _, _ in fx.primary_in_flight(s)]
        if kinds != [f["kind"] for f in st["chan"][s]]:
            return "frame kinds to %s: %s vs spec %s" % (s, kinds, [f["kind"] for f in st["chan"][s]])
        if ob["idle" + s] != (len(st["stack"][s]) == 0):
            return "side %s idle=%s vs spec stack %s" % (s, ob["idle" + s], st["stack"][s])
    top = [i for i, r in enumerate(st["reqs"]) if r["cls"] != "callback"]
    for req, i in zip(fx.reqs, top):
        e = st["exec"][i]
        if fx.ran.get(req["tag"], 0) != e:
            return "handler runs of %s: %d vs spec %d" % (req["tag"], fx.ran.get(req["tag"], 0), e)
        if fx.responses_to(req) != list(st["resp"][i]):
            return "responses to %s: %s vs spec %s" % (req["tag"], fx.responses_to(req), st["resp"][i])
    return None


def validate(chk, traces):
    traces = [t for t in traces if t]
    if not traces:
        return
    batch = list(traces)
    n = len(batch)
    base = max(traces, key=len)
    j = next((i for i, e in enumerate(base) if e["act"] == "Process"), None)
    if j is not None:
        b1 = [dict(e) for e in base]
        b1[j] = dict(b1[j], nA=b1[j]["nA"] + 1)
        b2 = [dict(e) for e in base]
        del b2[j]
        batch += [b1, b2]
    out, res = tlc.validate_traces("Trace_RpycLedger", batch, "",
                                   ["Classes = {%s}" % ", ".join('"%s"' % c for c in CLASSES), "MaxReq = 100000",
                                    "TearDownOnUnencodable = FALSE"], invariants=INVS, name="c08")
    chk.add_tlc(res, "trace validation batch (RpycLedger)")
    if res.violation:
        chk.violation("trace-invariant:" + res.violation, "C08 an implementation history reaches a state violating %s"
                      % res.violation, {"mode": "trace", "tlc": res.stdout[-1500:]})
    for jj in range(n, len(batch)):
        if out[jj] is not None and out[jj][0] == out[jj][1]:
            raise tlc.MachineryError("self-test: corrupted trace accepted by Trace_RpycLedger")
    acc = 0
    for i in range(n):
        if out[i] is not None and out[i][0] == out[i][1]:
            acc += 1
        elif out[i] is not None:
            chk.drift.append("history %d rejected at event %d/%d: %r" % (i, out[i][0] + 1, out[i][1], traces[i][out[i][0]]))
    chk.validated(acc)
    chk.cov["impl_traces"] = n
    chk.cov["impl_traces_accepted"] = acc
    chk.sample({"kind": "random implementation history as logged for TLC", "events": traces[0][:20]})


def do_replay(chk, path):
    import json
    rep = json.load(open(path))["replay"]
    fx = Fixture(unenc_kind=rep.get("unenc", "surrogate"))
    bad = []
    try:
        for (act, s, cls, mode) in rep["history"]:
            if act == "Issue":
                fx.issue(s, cls, mode)
            else:
                fx.process(s)
            bad += fx.oracle()
        fx.finish()
        bad += fx.oracle(final=True)
    finally:
        fx.close()
    for key, msg in dict(bad).items():
        print("VIOLATION property=%s replay=%s\n   %s" % (PID, path, msg))
    return 1 if bad else 0


def failed_issue_scenarios(chk):
    """A request that fails before anything is sent (its arguments cannot be encoded) consumes its number for good: whatever was
    issued while it was being prepared - by another thread, a finaliser, or code run while an argument is described - and
    whatever is issued afterwards must still get its own answer (RpycLedger: SeqUnique, Routing).  Real threads, in-process pair."""
    import rpyc

    class Svc(rpyc.Service):
        def exposed_echo(self, tag, *rest):
            return tag
    n = 0
    for nested in (0, 1, 2):            # requests issued while the failing request's arguments are described
        for after in (1, 2, 3):         # requests issued after the failure
            for huge in (10 ** 6000, -(10 ** 5000)):
                conn = rpyc.connect_thread(remote_service=Svc, config={"sync_request_timeout": 10})
                try:
                    echo = rpyc.async_(conn.root.echo)
                    pending = {}

                    class Described(object):
                        @property
                        def __name__(self):
                            while len(pending) < nested:
                                tag = "during%d" % len(pending)
                                pending[tag] = echo(tag)
                            return "described"
                    failed = None
                    try:
                        echo("failing", Described(), huge)
                    except Exception as ex:  # noqa
                        failed = ex
                    if failed is None or len(pending) != nested:
                        chk.cov.setdefault("drift", []).append("failed-issue premise not met (nested=%d): %r" % (nested, failed))
                        continue
                    for i in range(after):
                        pending["after%d" % i] = echo("after%d" % i)
                    n += 1
                    chk.evaluated()
                    chk.distinct(("failed-issue", nested, after, huge > 0))
                    bad = []
                    for tag in sorted(pending):
                        r = pending[tag]
                        r.set_expiry(5)
                        try:
                            v = r.value
                        except Exception as ex:  # noqa
                            v = "%s" % type(ex).__name__
                        if v != tag:
                            bad.append("request %s ended with %r" % (tag, v))
                    if bad:
                        chk.violation("failed-issue:%d" % nested, "C08 after a request failed before being sent (%d request(s) issued "
                                      "while its arguments were described, %d afterwards): %s" % (nested, after, "; ".join(bad)),
                                      {"mode": "failed-issue", "nested": nested, "after": after})
                    else:
                        chk.validated()
                finally:
                    conn.close()
    return n


def main():
    chk = Check(PID)
    gc.disable()
    if chk.replay:
        return do_replay(chk, chk.replay)
    res = tlc.require_ok(tlc.run_tlc("RpycLedger", "MC_RpycLedger.cfg", coverage=True, timeout=3000), "MC_RpycLedger")
    if res.violation:
        raise tlc.MachineryError("specification RpycLedger violates " + res.violation)
    chk.add_tlc(res, "exhaustive: 3 top-level requests, 7 outcome classes, sync/async, both directions, nested callbacks")
    for a in ("Issue", "ProcessReq", "ProcessResp"):
        if res.coverage.get(a, (0, 0))[1] == 0:
            raise tlc.MachineryError("vacuity: action %s never taken" % a)
    np_, ne, tot = replay_graph(chk, 600 if not chk.thorough else 100000)
    chk.cov.update({"tlc_paths_replayed": np_, "graph_edges_replayed": ne, "graph_edges_total": tot})
    rnd = random.Random(chk.seed + 8)
    traces = []
    for i in range(60 if not chk.thorough else 600):
        tr, hist = random_history(chk, rnd, rnd.choice([3, 4, 6]), CLASSES)
        traces.append(tr)
        chk.distinct(("hist", tuple(hist)))
        if i % 20 == 19:
            gc.collect()
    validate(chk, traces)
    chk.cov["failed_issue_scenarios"] = failed_issue_scenarios(chk)
    # executions nobody scheduled: every connection of the repository's own tests, message by message, against RpycEndpoint
    from harness import suite_traces
    chans, summary, files = suite_traces.record(suite_traces.ALL_FILES)
    suite_traces.validate_endpoint(chk, PID, chans, "%d test files: %s" % (len(files), summary))
    chk.assumptions += ["each side is single-threaded (multi-threaded sharing is C13); frames are delivered whole, in order",
                        "auxiliary requests (release notices of dropped proxies) are delivered eagerly and are subject to the "
                        "same frame-level ledger"]
    return chk.finish(rule="evaluations = history steps executed on two real Connections (each judged by the frame ledger and "
                      "compared with the TLC state); distinct = graph edges replayed + distinct random histories")


if __name__ == "__main__":
    main_wrapper(main)
