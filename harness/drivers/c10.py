"""C10 - objects lent to the peer live exactly as long as the peer holds them (spec: RpycLifetime)."""
import gc
import os
import random
import shutil
import sys

from harness import sim, tlc
from harness.common import Check, main_wrapper, OUT

PID = "C10"
INVS = ["Accounting", "Safety", "NoError", "LeakFree", "ClosedClean"]
ABSENT = -1


class Obj(object):
    def __init__(self, name):
        self.name = name

    def ping(self):
        return self.name


class Fixture(object):
    """owner O (net.a) lends Obj instances to holder H (net.b); frames are delivered one by one on command"""

    def __init__(self, keys, fresh=False):
        import rpyc
        from rpyc.core import consts, brine
        self.consts, self.brine = consts, brine
        self.keys = list(keys)
        fx = self
        # lent objects are lists: netref classes of built-in types are pre-generated, so receiving one needs no nested
        # HANDLE_INSPECT round trip (which would force the other stream to be drained during a delivery)
        # fresh=True lends instances of a user class instead: the holder's first sight of the class makes it ask the owner
        # to describe it (HANDLE_INSPECT) from inside the unboxing, serving whatever arrives meanwhile - references to the
        # same object included.  Frames that carry no reference (the INSPECT exchange, plain replies) are then delivered
        # eagerly: they are stuttering steps of RpycLifetime.
        self.fresh = fresh
        self.insp_seqs = {}
        self.abandoned = set()   # sequence numbers of requests whose result the program no longer waits for
        self.objs = {k: (Obj(k) if fresh else [k]) for k in keys}
        self.base_rc = {k: self.rc(k) for k in keys}
        self.touched = []
        self.held = {k: [] for k in keys}
        self.pending = []       # (k, AsyncResult) of Request(k) not yet collected
        self.use_results = []   # AsyncResults of PassBack
        self.sent = []          # (k, AsyncResult) of Send / SendPair

        class Owner(rpyc.Service):
            def exposed_get(self, k):
                return fx.objs[k]

            def exposed_touch(self, x):
                fx.touched.append(x)
                return None

        class Holder(rpyc.Service):
            def exposed_store(self, x):
                items = x if type(x) is tuple else (x,)
                for it in items:
                    k = fx.key_of_idpack(object.__getattribute__(it, "____id_pack__"))
                    fx.held[k].append(it)
                return None

        self.sched = s = sim.make_sched()
        self.undo_time = sim.patch_time(s)
        self.co, self.ch, self.net = sim.connect_pair(s, Owner(), Holder())
        self.o_srv = s.spawn("O_srv", self._serve, self.co)
        self.h_srv = s.spawn("H_srv", self._serve, self.ch)
        self.a_store = s.call(lambda: rpyc.async_(self.co.root.store))
        self.a_get = s.call(lambda: rpyc.async_(self.ch.root.get))
        self.a_touch = s.call(lambda: rpyc.async_(self.ch.root.touch))
        s.settle()
        self.net.manual = True
        self.white = hasattr(self.co, "_local_objects") and hasattr(self.co._local_objects, "_dict") and \
            hasattr(self.ch, "_proxy_cache") and hasattr(self.ch._proxy_cache, "_dict")
        self.closed = False

    def rc(self, k):
        return sys.getrefcount(self.objs[k])

    def extra_refs(self, k):
        """references to the lent object beyond the harness's own"""
        o = self.objs[k]
        n = sum(1 for x in self.touched if x is o)
        del o
        return self.rc(k) - self.base_rc[k] - n

    @staticmethod
    def _serve(conn):
        try:
            conn.serve_all()
        except Exception:
            pass

    def key_of_idpack(self, id_pack):
        for k, o in self.objs.items():
            if id_pack[2] == id(o):
                return k
        return None

    # -- decoding frames in flight
    def refs_in(self, boxed, out):
        c = self.consts
        label, val = boxed
        if label == c.LABEL_TUPLE:
            for it in val:
                self.refs_in(it, out)
        elif label in (c.LABEL_REMOTE_REF, c.LABEL_LOCAL_REF):
            k = self.key_of_idpack(val)
            if k is not None:
                out.append((label, k))
        elif label == c.LABEL_VALUE:
            for v in (val if isinstance(val, tuple) else (val,)):
                if isinstance(v, str) and v in self.objs:
                    out.append(("str", v))

    def classify(self, fr):
        c = self.consts
        try:
            msg, seq, args = self.brine.load(fr[5:-1])
        except Exception:
            return None
        refs = []
        if self.fresh and msg == c.MSG_REQUEST and args[0] == c.HANDLE_INSPECT:
            k = self.key_of_idpack(args[1][1][0])
            self.insp_seqs[seq] = k
            return {"type": "INSP", "k": k, "c": 0}
        if self.fresh and msg in (c.MSG_REPLY, c.MSG_EXCEPTION) and seq in self.insp_seqs and fr in self._toH_frames():
            return {"type": "INSPR", "k": self.insp_seqs[seq], "c": 0}
        if msg == c.MSG_REQUEST:
            handler, boxed = args
            self.refs_in(boxed, refs)
            rem = [k for (l, k) in refs if l == c.LABEL_REMOTE_REF]
            loc = [k for (l, k) in refs if l == c.LABEL_LOCAL_REF]
            strs = [k for (l, k) in refs if l == "str"]
            if handler == c.HANDLE_DEL and loc:
                cnt = boxed[1][1][1] if len(boxed[1]) > 1 else 1
                return {"type": "DEL", "k": loc[0], "c": cnt}
            if rem:
                return {"type": "PAIR" if len(rem) == 2 else "REF", "k": rem[0]}
            if loc:
                return {"type": "PB", "k": loc[0], "c": 0}
            if strs and handler == c.HANDLE_CALL:
                return {"type": "REQ", "k": strs[0], "c": 1 if seq in self.abandoned else 0}
            return None
        if msg == c.MSG_REPLY:
            self.refs_in(args, refs)
            rem = [k for (l, k) in refs if l == c.LABEL_REMOTE_REF]
            if rem:
                return {"type": "PAIR" if len(rem) == 2 else ("OREF" if seq in self.abandoned else "REF"), "k": rem[0]}
        return None

    def _toH_frames(self):
        return self.net.in_flight(self.net.a)

    def stream_msgs(self, st):
        return [m for m in (self.classify(f) for f in self.net.in_flight(st)) if m is not None]

    # -- actions
    def send(self, k):
        self.sent.append((k, self.sched.call(lambda: self.a_store(self.objs[k]))))

    def send_pair(self, k):
        self.sent.append((k, self.sched.call(lambda: self.a_store((self.objs[k], self.objs[k])))))

    def failed_sends(self):
        """requests that carried a reference to the holder and were answered with an exception: the reference never arrived"""
        out = []
        for k, ares in self.sent:
            try:
                if ares.ready and ares.error:
                    out.append((k, self.sched.call(lambda: repr(object.__getattribute__(ares, "_obj")))[:120]))
            except Exception:
                pass
        return out

    def request(self, k):
        self.pending.append((k, self.sched.call(lambda: self.a_get(k))))

    def request_abandoned(self, k):
        """the program asks for k and stops waiting at once: the result expires before the reply (which still carries a
        reference) arrives, and nobody keeps the AsyncResult"""
        def go():
            ares = self.a_get(k)
            ares.set_expiry(0)
        self.sched.call(go)
        fl = self.net.in_flight(self.net.b)
        try:
            self.abandoned.add(self.brine.load(fl[-1][5:-1])[1])
        except Exception:
            pass

    def pump(self):
        """fresh mode: deliver frames without a reference event that are at the head of either stream"""
        for _ in range(200):
            moved = False
            for st in (self.net.a, self.net.b):
                fl = self.net.in_flight(st)
                if fl and self.classify(fl[0]) is None:
                    self.net.deliver(st)
                    self.sched.settle()
                    moved = True
            if not moved:
                return
        raise sim.Deadlock("pump does not settle")

    def deliver(self, frm):
        """release frames of one direction up to and including the next one that carries a reference event"""
        while True:
            fl = self.net.in_flight(frm)
            if not fl:
                raise KeyError("nothing in flight")
            m = self.classify(fl[0])
            self.net.deliver(frm)
            self.sched.settle()
            if m is not None:
                break
        # results of Request(k) that became ready are collected by the program at once
        still = []
        for k, ares in self.pending:
            if object.__getattribute__(ares, "_is_ready") if hasattr(ares, "_is_ready") else ares.ready:
                v = self.sched.call(lambda: ares.value)
                self.held[k].append(v)
                del v
            else:
                still.append((k, ares))
        self.pending = still
        return m

    def drop(self, k):
        self.sched.call(self.held[k].clear)

    def passback(self, k):
        p = self.held[k][0]
        self.use_results.append((k, self.sched.call(lambda: self.a_touch(p))))
        del p

    def close(self, side):
        self.net.manual = False
        for st in (self.net.a, self.net.b):
            st.held.clear()
        conn = self.co if side == "O" else self.ch
        self.sched.call(conn.close)
        self.sched.settle()
        self.closed = True

    # -- projection
    def project(self):
        tab, proxy = {}, {}
        for k, o in self.objs.items():
            tab[k] = ABSENT
            proxy[k] = 0
        if self.white:
            for idp, slot in self.co._local_objects._dict.items():
                k = self.key_of_idpack(idp)
                if k is not None:
                    tab[k] = slot[1]
            seen = {}
            for idp, wr in list(self.ch._proxy_cache._dict.items()):
                k = self.key_of_idpack(idp)
                p = wr()
                if k is not None and p is not None:
                    seen[id(p)] = (k, object.__getattribute__(p, "____refcount__"))
                del p
            # nested unboxing can leave several proxy objects for one key alive (the cache keeps the latest): the count the
            # specification speaks of is the sum over the distinct live proxies
            for k, lst in self.held.items():
                for p in lst:
                    seen[id(p)] = (k, object.__getattribute__(p, "____refcount__"))
            for k, c in seen.values():
                proxy[k] += c
        pobj = {}
        if self.white:
            for k, lst in self.held.items():
                ids, counts = set(), []
                for p in lst:
                    if id(p) not in ids:
                        ids.add(id(p))
                        counts.append(object.__getattribute__(p, "____refcount__"))
                pobj[k] = counts
            for idp, wr in list(self.ch._proxy_cache._dict.items()):
                k = self.key_of_idpack(idp)
                p = wr()
                if k is not None and p is not None and not any(p is q for q in self.held[k]):
                    pobj[k].append(object.__getattribute__(p, "____refcount__"))
                del p
        return {"tab": tab, "proxy": proxy, "pobj": pobj, "toH": self.stream_msgs(self.net.a), "toO": self.stream_msgs(self.net.b)}

    def teardown(self):
        self.sched.abort()
        self.undo_time()


def apply_action(fx, act, k=None):
    return _apply_action(fx, act, k)


def _apply_action(fx, act, k=None):
    if act == "Send":
        fx.send(k)
    elif act == "SendPair":
        fx.send_pair(k)
    elif act == "Request":
        fx.request(k)
    elif act == "RequestAbandoned":
        fx.request_abandoned(k)
    elif act == "DropProxy":
        fx.drop(k)
    elif act == "PassBack":
        fx.passback(k)
    elif act == "DeliverToHolder":
        return fx.deliver(fx.net.a)
    elif act == "DeliverToOwner":
        return fx.deliver(fx.net.b)
    elif act == "Close":
        fx.close(k or "O")
    else:
        raise tlc.MachineryError("unknown action " + act)


def oracle(fx, act, k, delivered, n_touched_before):
    """direct checks stated at the level of the property; returns list of (key, message)"""
    bad = []
    # every use of a live proxy reached the original object
    if act == "DeliverToOwner" and delivered and delivered["type"] == "PB":
        kk = delivered["k"]
        if len(fx.touched) != n_touched_before + 1 or fx.touched[-1] is not fx.objs[kk]:
            bad.append(("use-failed", "a request using the live proxy of %s did not reach the object at its owner" % kk))
    if not fx.closed:
        for kk, why in fx.failed_sends():
            bad.append(("reference-lost:recursion" if "recursion" in why.lower() else "reference-lost",
                        "a reference to %s sent to the holder never arrived as a proxy: the request carrying it failed with %s" % (kk, why)))
    if fx.closed:
        for kk in fx.objs:
            if fx.extra_refs(kk) > 0:
                bad.append(("leak-after-close", "object %s is still referenced by the owner's connection after close" % kk))
        return bad
    quiet = not fx.net.in_flight(fx.net.a) and not fx.net.in_flight(fx.net.b) and not fx.net.a.held and not fx.net.b.held
    for kk in fx.objs:
        extra = fx.extra_refs(kk)
        holder_has = bool(fx.held[kk])
        if holder_has and extra <= 0:
            bad.append(("released-early", "holder still has a live proxy for %s but the owner's connection no longer "
                        "references it" % kk))
        if quiet and not holder_has and not any(pk == kk for pk, _ in fx.pending) and extra > 0:
            bad.append(("leak", "no proxy for %s is alive and both streams are drained, yet the owner's connection still "
                        "references it (%d extra reference(s))" % (kk, extra)))
    return bad


def drain(chk, fx, hist, keys):
    """legitimate continuation of any history: drop every proxy, deliver everything, then nothing may be left"""
    if fx.closed:
        return
    hist = list(hist)
    try:
        for _ in range(200):
            progressed = False
            for k in keys:
                if fx.held[k]:
                    apply_action(fx, "DropProxy", k)
                    hist.append('DropProxy("%s")' % k)
                    progressed = True
            for act, st in (("DeliverToOwner", fx.net.b), ("DeliverToHolder", fx.net.a)):
                while fx.stream_msgs(st):
                    nt = len(fx.touched)
                    d = apply_action(fx, act)
                    hist.append(act)
                    progressed = True
                    for key, msg in oracle(fx, act, None, d, nt):
                        chk.violation(key, "C10 %s (history: %s)" % (msg, hist), {"mode": "history", "keys": keys,
                                                                                   "history": hist})
            if not progressed:
                break
        # flush frames that carry no reference (replies), then check
        for st in (fx.net.a, fx.net.b):
            while fx.net.in_flight(st):
                fx.net.deliver(st)
                fx.sched.settle()
    except (KeyError, IndexError, sim.Deadlock) as ex:
        chk.drift.append("drain failed: %r" % (ex,))
        return
    chk.evaluated()
    for key, msg in oracle(fx, "Drain", None, None, len(fx.touched)):
        chk.violation(key, "C10 %s (history: %s)" % (msg, hist), {"mode": "history", "keys": keys, "history": hist})


def _del_runs_sorted(msgs):
    """release notices of several proxy objects of one key dropped in one step leave in the order their finalizers happen to
    run: consecutive DEL entries of one key are compared as a multiset"""
    out, run = [], []
    for m in msgs:
        if m[0] == "DEL" and (not run or run[-1][1] == m[1]):
            run.append(m)
            continue
        out += sorted(run)
        run = [m] if m[0] == "DEL" else []
        if m[0] != "DEL":
            out.append(m)
    return out + sorted(run)


def compare(fx, st):
    if not fx.white:
        return None
    p = fx.project()
    for k in fx.keys:
        if p["tab"][k] != st["tab"][k]:
            return "tab[%s]=%s vs spec %s" % (k, p["tab"][k], st["tab"][k])
        if fx.fresh:
            if sorted(p["pobj"][k]) != sorted(st["pobj"][k]):        # (which proxy object is listed first is not a fact of the code)
                return "proxy objects of %s have counts %s vs spec %s" % (k, p["pobj"][k], list(st["pobj"][k]))
        elif p["proxy"][k] != st["proxy"][k]:
            return "proxy[%s]=%s vs spec %s" % (k, p["proxy"][k], st["proxy"][k])
    for nm in ("toH", "toO"):
        a = [(m["type"], m["k"], m.get("c", 0) if m["type"] == "DEL" else 0) for m in p[nm]]
        b = [(m["type"], m["k"], m.get("c", 0) if m["type"] == "DEL" else 0) for m in st[nm]]
        if _del_runs_sorted(a) != _del_runs_sorted(b):
            return "%s %s vs spec %s" % (nm, a, b)
    return None


def parse_label(label):
    name = label.split("(")[0]
    k = label.split('"')[1] if '"' in label else None
    return name, k


# --------------------------------------------------------------------------- spec -> code
def replay_graph(chk, keys, maxbox, maxq, max_paths, fresh=False):
    d = os.path.join(OUT, "c10.%d" % os.getpid())
    os.makedirs(d, exist_ok=True)
    with open(os.path.join(d, "G.tla"), "w") as f:
        f.write("---- MODULE G ----\nEXTENDS %s\n====\n" % ("RpycLifetimeInspect" if fresh else "RpycLifetime"))
    with open(os.path.join(d, "G.cfg"), "w") as f:
        f.write("SPECIFICATION Spec\nCONSTANTS\n  K = {%s}\n  MaxBox = %d\n  MaxQ = %d\n%s\n" % (
            ", ".join('"%s"' % k for k in keys), maxbox, maxq, "\n".join("INVARIANT " + i for i in INVS + (["AnswersUnderWay"] if fresh else []))))
    res = tlc.run_tlc("G", "G.cfg", workers=8, dump=os.path.join(d, "graph"), cwd=d, jvm_props=["TLA-Library=" + tlc.SPEC])
    tlc.require_ok(res, "RpycLifetime graph")
    if res.violation:
        raise tlc.MachineryError("RpycLifetime violates " + res.violation)
    chk.add_tlc(res, "%s state graph for transition cover (K=%s MaxBox=%d MaxQ=%d)" % (
        "RpycLifetimeInspect" if fresh else "RpycLifetime", keys, maxbox, maxq))
    g = tlc.load_dot(os.path.join(d, "graph.dot"))
    shutil.rmtree(d, ignore_errors=True)
    paths = tlc.edge_cover_paths(g)
    rnd = random.Random(chk.seed)
    if len(paths) > max_paths:
        rnd.shuffle(paths)
        if fresh:
            # histories in which an unboxing is suspended inside another one come first: that is what this mode is for
            def depth(path):
                return max([len(g.nodes[path[0]].get("hstack", ()))] + [len(g.nodes[d].get("hstack", ())) for _, d in path[1:]])
            paths.sort(key=lambda p_: -depth(p_))
        paths = paths[:max_paths]
    covered = 0
    for pi, path in enumerate(paths):
        fx = Fixture(keys, fresh)
        labels = [lab for lab, _ in path[1:]]
        try:
            cur = path[0]
            ok = True
            for i, (label, dst) in enumerate(path[1:]):
                if g.nodes[cur] == g.nodes[dst]:
                    cur = dst
                    continue
                act, k = parse_label(label)
                nt = len(fx.touched)
                try:
                    if act == "Close":
                        k = rnd.choice(["O", "H"])
                    delivered = apply_action(fx, act, k)
                except (KeyError, IndexError, sim.Deadlock) as ex:
                    chk.drift.append("path %d step %d %s: cannot be performed: %r" % (pi, i, label, ex))
                    ok = False
                    break
                chk.evaluated()
                for key, msg in oracle(fx, act, k, delivered, nt):
                    chk.violation(key, "C10 %s (history: %s)" % (msg, labels[:i + 1]),
                                  {"mode": "history", "keys": keys, "history": labels[:i + 1], "fresh": fresh})
                mism = compare(fx, g.nodes[dst]) if (act != "Close" and ok) else None
                if mism:
                    # drift: from here on only the property's own oracles judge the rest of the history
                    chk.drift.append("path %d after %s: %s" % (pi, label, mism))
                    ok = False
                if ok:
                    covered += 1
                    chk.distinct(("edge", cur, label, dst))
                cur = dst
            if ok:
                chk.validated()
            drain(chk, fx, labels, keys)
            if pi < 2:
                chk.sample({"kind": "TLC path replayed into two real Connections", "history": labels})
        finally:
            fx.teardown()
        if pi % 100 == 99:
            gc.collect()
    return len(paths), covered, g.nedges


# --------------------------------------------------------------------------- code -> spec
def random_history(chk, rnd, keys, length, fresh=False):
    """drive the real code with a random history; returns (trace for TLC, history labels)"""
    fx = Fixture(keys, fresh)
    trace, hist = [], []
    try:
        for step in range(length):
            opts = []
            for k in keys:
                opts += [("Send", k), ("SendPair", k), ("Request", k)]
                if not fresh:
                    opts += [("RequestAbandoned", k)]
                if fx.held[k]:
                    opts += [("DropProxy", k), ("DropProxy", k), ("PassBack", k)]
            if fx.stream_msgs(fx.net.a):
                opts += [("DeliverToHolder", None)] * 4
            if fx.stream_msgs(fx.net.b):
                opts += [("DeliverToOwner", None)] * 4
            if step > length * 0.8 and rnd.random() < 0.1:
                opts = [("Close", rnd.choice(["O", "H"]))]
            act, k = rnd.choice(opts)
            nt = len(fx.touched)
            delivered = apply_action(fx, act, k)
            hist.append("%s(%s)" % (act, k) if k else act)
            chk.evaluated()
            for key, msg in oracle(fx, act, k, delivered, nt):
                chk.violation(key, "C10 %s (random history, step %d)" % (msg, step),
                              {"mode": "history", "keys": keys, "history": list(hist), "fresh": fresh})
            if fx.white:
                p = fx.project()
                dead = act == "Close"        # handles on a closed connection are not live proxies
                ev = {"act": act, "k": k if act != "Close" and k else "", "tab": [p["tab"][x] for x in keys],
                      "nH": len(p["toH"]), "nO": len(p["toO"])}
                if fresh:
                    ev["pobj"] = [([] if dead else list(p["pobj"][x])) for x in keys]
                else:
                    ev["proxy"] = [(0 if dead else p["proxy"][x]) for x in keys]
                trace.append(ev)
            if act == "Close":
                break
        drain(chk, fx, hist, keys)
        return trace, hist
    finally:
        fx.teardown()


SCRIPTS = [
    # two references back to back (the second is unboxed inside the first one's INSPECT round trip), a third one crossing the
    # release notices, then the proxy is used
    [("Send", "k1"), ("Send", "k1"), ("DeliverToHolder", None), ("DeliverToOwner", None), ("DeliverToHolder", None),
     ("DeliverToOwner", None), ("DeliverToHolder", None), ("DeliverToHolder", None), ("Send", "k1"), ("DropProxy", "k1"),
     ("DeliverToOwner", None), ("DeliverToOwner", None), ("DeliverToHolder", None), ("DeliverToOwner", None), ("DeliverToHolder", None),
     ("PassBack", "k1"), ("DeliverToOwner", None)],
    # the same with the pair form and a request in between
    [("SendPair", "k1"), ("Send", "k1"), ("DeliverToHolder", None), ("DeliverToHolder", None), ("DeliverToOwner", None),
     ("DeliverToOwner", None), ("DeliverToHolder", None), ("DeliverToHolder", None), ("PassBack", "k1"), ("DeliverToOwner", None),
     ("Request", "k1"), ("DropProxy", "k1"), ("DeliverToOwner", None), ("DeliverToOwner", None), ("DeliverToOwner", None),
     ("DeliverToHolder", None), ("DeliverToOwner", None), ("DeliverToHolder", None), ("PassBack", "k1"), ("DeliverToOwner", None)],
    # two objects interleaved
    [("Send", "k1"), ("Send", "k2"), ("Send", "k1"), ("DeliverToHolder", None), ("DeliverToHolder", None), ("DeliverToHolder", None),
     ("DeliverToOwner", None), ("DeliverToOwner", None), ("DeliverToOwner", None), ("DeliverToHolder", None), ("DeliverToHolder", None),
     ("DeliverToHolder", None), ("Send", "k1"), ("DropProxy", "k1"), ("DeliverToOwner", None), ("DeliverToHolder", None),
     ("DeliverToOwner", None), ("DeliverToOwner", None), ("DeliverToHolder", None), ("PassBack", "k1"), ("DeliverToOwner", None),
     ("PassBack", "k2"), ("DeliverToOwner", None)],
]


def scripted_history(chk, keys, actions, fresh):
    """a fixed history (a behaviour of the specification: its trace goes to TLC like the random ones)"""
    fx = Fixture(keys, fresh)
    trace, hist = [], []
    try:
        for act, k in actions:
            nt = len(fx.touched)
            try:
                delivered = apply_action(fx, act, k)
            except (KeyError, IndexError) as ex:
                chk.drift.append("scripted history %s: %s(%s) cannot be performed: %r" % (hist, act, k, ex))
                break
            hist.append("%s(%s)" % (act, k) if k else act)
            chk.evaluated()
            for key, msg in oracle(fx, act, k, delivered, nt):
                chk.violation(key, "C10 %s (history: %s)" % (msg, hist), {"mode": "history", "keys": keys, "history": list(hist),
                                                                          "fresh": fresh})
            if fx.white:
                p = fx.project()
                ev = {"act": act, "k": k or "", "tab": [p["tab"][x] for x in keys], "nH": len(p["toH"]), "nO": len(p["toO"])}
                if fresh:
                    ev["pobj"] = [list(p["pobj"][x]) for x in keys]
                else:
                    ev["proxy"] = [p["proxy"][x] for x in keys]
                trace.append(ev)
        drain(chk, fx, hist, keys)
        return trace, hist
    finally:
        fx.teardown()


def deep_nesting_model(chk):
    r = tlc.run_tlc("RpycLifetimeInspect", "MC_RpycLifetimeInspect_depth.cfg", workers=2)
    if r.violation != "NestingAtMostTwo":
        raise tlc.MachineryError("RpycLifetimeInspect is expected to let unboxings nest without bound (NestingAtMostTwo violated), "
                                 "TLC says %r" % r.violation)
    chk.add_tlc(r, "RpycLifetimeInspect: suspended unboxings nest as deep as there are references in flight (counterexample to a bound "
                "of 2; the directed history below drives the real code to its recursion limit)")


def deep_nesting_run(chk):
    """many references to objects of a user class in flight back to back: every one is unboxed inside the INSPECT round trip of
    the one before (the answers are queued behind all of them), so the nesting depth of serve() grows with their number"""
    n_refs = 130
    keys = ["k%d" % i for i in range(n_refs)]
    fx = Fixture(keys, True)
    hist = []
    try:
        for k in keys:
            apply_action(fx, "Send", k)
        hist.append("Send x %d (distinct objects of one user class, nothing delivered yet)" % n_refs)
        delivered = 0
        try:
            while fx.stream_msgs(fx.net.a) and delivered < n_refs:
                apply_action(fx, "DeliverToHolder")
                delivered += 1
        except (KeyError, IndexError, sim.Deadlock, sim.StepLimit):
            pass
        hist.append("DeliverToHolder x %d" % delivered)
        for _ in range(4 * n_refs):
            moved = False
            for act, st in (("DeliverToOwner", fx.net.b), ("DeliverToHolder", fx.net.a)):
                if fx.stream_msgs(st):
                    try:
                        apply_action(fx, act)
                        moved = True
                    except (KeyError, IndexError, sim.Deadlock, sim.StepLimit):
                        pass
            if not moved:
                break
        chk.evaluated()
        chk.distinct(("deep-nesting", n_refs))
        bad = oracle(fx, "Drain", None, None, len(fx.touched))
        for key, msg in bad[:1]:
            chk.violation(key, "C10 %s (history: %s)" % (msg, hist), {"mode": "deep-nesting", "n": n_refs})
        if not bad:
            chk.validated()
    finally:
        fx.teardown()


def validate(chk, keys, traces, fresh=False):
    traces = [t for t in traces if t]
    if not traces:
        return
    batch = list(traces)
    n = len(batch)
    base = max(traces, key=len)
    j = next((i for i, e in enumerate(base) if e["act"] == "DeliverToOwner"), None)
    if j is not None:
        b1 = [dict(e) for e in base]
        b1[j] = dict(b1[j], tab=[x + 1 for x in b1[j]["tab"]])
        b2 = [dict(e) for e in base]
        del b2[j]
        batch += [b1, b2]
    defs = "TVK == <<%s>>" % ", ".join('"%s"' % k for k in keys)
    out, res = tlc.validate_traces("Trace_RpycLifetimeInspect" if fresh else "Trace_RpycLifetime", batch,
                                   defs, ["K = {%s}" % ", ".join('"%s"' % k for k in keys), "MaxBox = 100000",
                                          "MaxQ = 100000", "KSeq <- TVK"], invariants=INVS, name="c10f" if fresh else "c10")
    chk.add_tlc(res, "trace validation batch (%s)" % ("RpycLifetimeInspect" if fresh else "RpycLifetime"))
    if res.violation:
        chk.violation("trace-invariant:" + res.violation,
                      "C10 an implementation history reaches a state violating %s" % res.violation,
                      {"mode": "trace", "tlc": res.stdout[-1500:]})
    for jj in range(n, len(batch)):
        if out[jj] is not None and out[jj][0] == out[jj][1]:
            raise tlc.MachineryError("self-test: corrupted trace accepted by Trace_RpycLifetime")
    acc = 0
    for i in range(n):
        if out[i] is not None and out[i][0] == out[i][1]:
            acc += 1
        elif out[i] is not None:
            chk.drift.append("history %d rejected at event %d/%d: %r" % (i, out[i][0] + 1, out[i][1],
                                                                          traces[i][out[i][0]]))
    chk.validated(acc)
    chk.cov["impl_traces" + ("_fresh" if fresh else "")] = n
    chk.cov["impl_traces_accepted" + ("_fresh" if fresh else "")] = acc
    chk.sample({"kind": "random implementation history (events as logged for TLC)", "events": traces[0][:25]})


def do_replay(chk, path):
    import json
    rep = json.load(open(path))["replay"]
    fx = Fixture(rep["keys"], rep.get("fresh", False))
    bad_all = []
    try:
        for label in rep["history"]:
            act, k = parse_label(label)
            if "(" in label and k is None:
                k = label.split("(")[1].rstrip(")")
            nt = len(fx.touched)
            delivered = apply_action(fx, act, k)
            bad_all += oracle(fx, act, k, delivered, nt)
        if not fx.closed:
            for st in (fx.net.a, fx.net.b):
                while fx.net.in_flight(st):
                    fx.net.deliver(st)
                    fx.sched.settle()
            bad_all += oracle(fx, "Drain", None, None, len(fx.touched))
    finally:
        fx.teardown()
    for key, msg in bad_all:
        print("VIOLATION property=%s replay=%s\n   %s" % (PID, path, msg))
    return 1 if bad_all else 0


def refcoll_race(chk):
    """RpycRefColl on the real class: a sending thread's add() and a serving thread's decref() of the same key under every
    schedule at source-line granularity (the table's lock replaced by a scheduler-aware one)"""
    import random
    from rpyc.lib.colls import RefCountingColl
    res = tlc.require_ok(tlc.run_tlc("RpycRefColl", "MC_RpycRefColl.cfg", workers=1, coverage=True), "RpycRefColl")
    if res.violation:
        raise tlc.MachineryError("RpycRefColl violates " + res.violation)
    chk.add_tlc(res, "RpycRefColl: add and decref as critical sections of one lock: a reference boxed while another is given back "
                "leaves the object held")
    res = tlc.run_tlc("RpycRefColl", "MC_RpycRefColl_lockfree.cfg", workers=1)
    if res.violation != "StillHeld":
        raise tlc.MachineryError("the lock-free variant of RpycRefColl is expected to violate StillHeld, TLC says %r" % res.violation)
    n = 0
    for seed in range(40 if not chk.thorough else 400):
        s = sim.make_sched()
        coll = RefCountingColl()
        try:
            object.__setattr__(coll, "_lock", sim.SimLock(s, "table"))
        except Exception:
            coll._lock = sim.SimLock(s, "table")
        obj = ["x"]
        key = ("k", 1, 2)
        coll.add(key, obj)                 # one reference is out: stored count 0
        lines = sim.LineYields(s, [RefCountingColl.add, RefCountingColl.decref])
        lines.__enter__()
        try:
            ta = s.spawn("sender", lambda: coll.add(key, obj))
            td = s.spawn("server", lambda: coll.decref(key, 1))
            s.run(sim.RandomPolicy(random.Random(seed), stickiness=[0.0, 0.5, 0.8][seed % 3]), max_steps=5000)
        finally:
            lines.__exit__()
        chk.evaluated()
        n += 1
        errs = [repr(t.exc) for t in (ta, td) if t.exc is not None]
        present = key in coll._dict
        count = coll._dict[key][1] if present else None
        s.abort()
        if errs or not present or count != 0:
            chk.violation("refcoll:released-early", "C10 [owner's table used by a sending and a serving thread] one reference was out, "
                          "one more was boxed while the first was given back: the table %s (errors: %s) - the object must still be "
                          "held with stored count 0" % ("no longer holds the object" if not present else "stores count %r" % count, errs),
                          {"mode": "refcoll", "seed": seed})
            break
        chk.validated()
    chk.cov["refcoll_schedules"] = n


class _PreemptAt(object):
    """scheduling policy: thread `first` runs until it is about to execute source line `point`; then `other` runs to its end;
    then whoever can"""

    def __init__(self, first, other, point):
        self.first, self.other, self.point = first, other, point
        self.switched = False
        self.hit = False

    def choose(self, sched, choices):
        by = {c[0]: c for c in choices}
        if not self.switched:
            f = by.get(self.first)
            if f is not None:
                op = self.first.pending
                if getattr(op, "kind", None) == "line" and tuple(op.info or ()) == tuple(self.point):
                    self.switched = True
                    self.hit = True
                else:
                    return f
            elif self.first.done:
                self.switched = True
        if self.other in by and not self.other.done:
            return by[self.other]
        if self.first in by:
            return by[self.first]
        return choices[0]


def unbox_threads_model(chk):
    res = tlc.require_ok(tlc.run_tlc("RpycUnboxThreads", "MC_RpycUnboxThreads.cfg", workers=2, coverage=True), "RpycUnboxThreads")
    if res.violation:
        raise tlc.MachineryError("RpycUnboxThreads (one look-up, locked increment) violates " + res.violation)
    chk.add_tlc(res, "RpycUnboxThreads: two serving threads unboxing a reference to the same object while the program drops handles: "
                "NothingLost, Accounting")
    for cfgf, want, what in (("MC_RpycUnboxThreads_twolookups.cfg", "NothingLost", "test-then-get on the weak cache (pinned tree)"),
                             ("MC_RpycUnboxThreads_racyincr.cfg", "Accounting", "unlocked count += 1 (pinned tree)")):
        r = tlc.run_tlc("RpycUnboxThreads", cfgf, workers=2)
        if r.violation != want:
            raise tlc.MachineryError("%s is expected to violate %s, TLC says %r" % (cfgf, want, r.violation))
        chk.add_tlc(r, "RpycUnboxThreads, %s: counterexample (its schedule is among the forced preemptions executed on the real code)" % what)


def unbox_drop_races(chk):
    """the holder is used by two threads: its serving thread unboxes a fresh reference to k while the program drops its last
    handle on k's proxy - at every source line of _unbox / _netref_factory.  The fresh reference must arrive as a live proxy
    and nothing may leak."""
    import rpyc
    from rpyc.core.protocol import Connection
    funcs = [Connection._unbox, Connection._netref_factory]
    points = []
    for f in funcs:
        c = f.__code__
        for (_, _, ln) in c.co_lines():
            if ln is not None and ln != c.co_firstlineno:
                points.append((c.co_name, ln - c.co_firstlineno))
    points = sorted(set(points))
    n = hit = 0
    for fresh in (False, True):
        for pt in points:
            fx = Fixture(["k1"], fresh)
            lines = None
            try:
                apply_action(fx, "Send", "k1")
                while fx.stream_msgs(fx.net.a) or fx.stream_msgs(fx.net.b):
                    for act, st in (("DeliverToHolder", fx.net.a), ("DeliverToOwner", fx.net.b)):
                        if fx.stream_msgs(st):
                            apply_action(fx, act)
                if len(fx.held["k1"]) != 1:
                    raise tlc.MachineryError("setup: the holder has no proxy")
                apply_action(fx, "Send", "k1")             # a fresh reference is in flight
                lines = sim.LineYields(fx.sched, funcs)
                lines.__enter__()
                def drop_one():
                    del fx.held["k1"][0]                   # the one handle the program has so far
                dropper = fx.sched.spawn("dropper", drop_one)
                fx.net.deliver(fx.net.a)                   # the holder's serving thread starts unboxing
                pol = _PreemptAt(fx.h_srv, dropper, pt)
                try:
                    fx.sched.run(pol, until=fx.sched.quiescent, max_steps=20000)
                except sim.Deadlock:
                    pass
                lines.__exit__()
                lines = None
                if dropper in fx.sched.threads and dropper.done:
                    fx.sched.threads.remove(dropper)
                    for i, x in enumerate(fx.sched.threads):
                        x.idx = i
                n += 1
                hit += 1 if pol.hit else 0
                chk.evaluated()
                chk.distinct(("unbox-drop", fresh, pt))
                hist = ["Send(k1)", "deliver", "Send(k1)", "unboxing stopped before %s+%d while the program drops its proxy" % pt]
                # let everything settle, then judge
                for _ in range(20):
                    moved = False
                    for act, st in (("DeliverToOwner", fx.net.b), ("DeliverToHolder", fx.net.a)):
                        while fx.stream_msgs(st):
                            apply_action(fx, act)
                            moved = True
                    if not moved:
                        break
                bad = [b for b in oracle(fx, "Race", None, None, len(fx.touched))]
                if not fx.held["k1"] and not bad:
                    bad.append(("reference-lost", "the fresh reference to k1 did not arrive as a proxy (the holder has none)"))
                for key, msg in bad:
                    chk.violation("race:" + key, "C10 [holder used by two threads, %s objects] %s (history: %s)" % (
                        "user-class" if fresh else "built-in", msg, hist), {"mode": "unbox-drop", "fresh": fresh, "point": list(pt)})
                if not bad:
                    drain(chk, fx, hist, ["k1"])
                    chk.validated()
            finally:
                if lines is not None:
                    lines.__exit__()
                fx.teardown()
    chk.cov["unbox_drop_races"] = {"runs": n, "window_reached": hit}


def concurrent_unbox_races(chk):
    """the holder serves with two threads: both unbox a fresh reference to the same object at once, one of them set aside at
    every source line of _unbox and of the proxy's attribute hooks.  Afterwards the proxy's count must cover all references
    (dropping it then releases the object at the owner)."""
    from rpyc.core.protocol import Connection
    from rpyc.core.netref import BaseNetref
    funcs = [Connection._unbox, BaseNetref.__getattribute__, BaseNetref.__setattr__]
    points = []
    for f in funcs:
        c = f.__code__
        for (_, _, ln) in c.co_lines():
            if ln is not None and ln != c.co_firstlineno:
                points.append((c.co_name, ln - c.co_firstlineno))
    points = sorted(set(points))
    n = reached = 0
    for pt in points:
        for occ in ((1, 2, 3) if chk.thorough else (1, 2)):
            fx = Fixture(["k1"], False)
            lines = None
            try:
                apply_action(fx, "Send", "k1")
                apply_action(fx, "DeliverToHolder")
                while fx.stream_msgs(fx.net.b):
                    apply_action(fx, "DeliverToOwner")
                apply_action(fx, "Send", "k1")
                apply_action(fx, "Send", "k1")
                s2 = fx.sched.spawn("H_srv2", fx._serve, fx.ch)
                fx.sched.settle()
                lines = sim.LineYields(fx.sched, funcs)
                lines.__enter__()
                fx.net.deliver(fx.net.a)
                fx.net.deliver(fx.net.a)
                st = {"n": 0, "held": None, "left": 3000}

                class Pol(object):
                    def choose(self, sched, choices):
                        by = {c[0]: c for c in choices}
                        if st["held"] is None:
                            for t in (fx.h_srv, s2):
                                op = t.pending
                                if t in by and getattr(op, "kind", None) == "line" and tuple(op.info or ()) == pt:
                                    st["n"] += 1
                                    if st["n"] == occ:
                                        st["held"] = t
                                        break
                        if st["held"] not in (None, False):
                            others = [c for c in choices if c[0] is not st["held"]]
                            if others and st["left"] > 0:
                                st["left"] -= 1
                                return others[0]
                            st["held"] = False
                        return choices[0]
                try:
                    fx.sched.run(Pol(), until=fx.sched.quiescent, max_steps=40000)
                except sim.Deadlock:
                    pass
                lines.__exit__()
                lines = None
                n += 1
                reached += 1 if st["held"] is False else 0
                chk.evaluated()
                chk.distinct(("concurrent-unbox", pt, occ))
                hist = ["Send(k1)", "deliver", "Send(k1)", "Send(k1)", "two serving threads unbox at once, one set aside before %s+%d" % pt]
                bad = list(oracle(fx, "Race", None, None, len(fx.touched)))
                if not bad and len(fx.held["k1"]) != 3:
                    bad.append(("reference-lost", "three references were sent, %d arrived" % len(fx.held["k1"])))
                for key, msg in bad:
                    chk.violation("race2:" + key, "C10 [holder serving with two threads] %s (history: %s)" % (msg, hist),
                                  {"mode": "concurrent-unbox", "point": list(pt), "occ": occ})
                if not bad:
                    drain(chk, fx, hist, ["k1"])
                    chk.validated()
            finally:
                if lines is not None:
                    lines.__exit__()
                fx.teardown()
    chk.cov["concurrent_unbox_races"] = {"runs": n, "window_reached": reached}


def both_directions(chk):
    """the same object lent in both directions between two ends in one process, class queries in between (the history in which
    a release notice for a reference never handed out was found): every proxy must stay usable"""
    import rpyc
    from harness.pair import Pair
    for kind in ("list", "user"):
        X = [1, 2, 3] if kind == "list" else Obj("x")
        kept = []

        class B(rpyc.Service):
            def exposed_get(self):
                return X

            def exposed_take(self, q):
                kept.append(q)

            def exposed_classes(self):
                return (dict, Obj, int)

            def exposed_use(self):
                return kept[0].ping() if kind == "user" else len(kept[0])
        p = Pair(rpyc.VoidService(), B(), config_a={"allow_public_attrs": True}, config_b={"allow_public_attrs": True}, patch_time=False)
        try:
            a = p.a
            root = a.call(lambda: a.conn.root)
            P = a.call(lambda: root.get())
            a.call(lambda: root.take(X))
            classes = a.call(lambda: root.classes())
            before = a.call(lambda: root.use())
            for c in classes:
                a.call(lambda: isinstance(P, c))
                p.settle()
                chk.evaluated()
                try:
                    after = a.call(lambda: root.use())
                except Exception as ex:  # noqa
                    after = ex
                if after != before:
                    chk.violation("released-early:instancecheck", "C10 an object lent in both directions (%s): after isinstance(proxy, "
                                  "remote class) the owner no longer holds it although the peer still has its proxy: use gives %r" % (
                                      kind, after), {"mode": "both-directions", "kind": kind})
                    break
            else:
                chk.validated()
        finally:
            p.close()


def main():
    chk = Check(PID)
    gc.disable()
    if chk.replay:
        return do_replay(chk, chk.replay)
    res = tlc.require_ok(tlc.run_tlc("RpycLifetime", "MC_RpycLifetime.cfg", coverage=True), "MC_RpycLifetime")
    if res.violation:
        raise tlc.MachineryError("specification RpycLifetime violates " + res.violation)
    chk.add_tlc(res, "exhaustive: 2 objects, <=3 boxings each, streams <=3: Accounting, Safety, NoError, LeakFree, ClosedClean")
    for a in ("Send", "SendPair", "Request", "RequestAbandoned", "DeliverToHolder", "DropProxy", "PassBack", "DeliverToOwner", "Close"):
        if res.coverage.get(a, (0, 0))[1] == 0:
            raise tlc.MachineryError("vacuity: action %s never taken" % a)
    res = tlc.require_ok(tlc.run_tlc("RpycLifetimeInspect", "MC_RpycLifetimeInspect.cfg", coverage=True), "MC_RpycLifetimeInspect")
    if res.violation:
        raise tlc.MachineryError("specification RpycLifetimeInspect violates " + res.violation)
    chk.add_tlc(res, "exhaustive, objects of user classes (unboxing suspended in a nested INSPECT round trip): 2 objects, <=3 boxings "
                "each, streams <=3: Accounting, Safety, NoError, LeakFree, ClosedClean, AnswersUnderWay")
    if chk.thorough:
        np_, ne, tot = replay_graph(chk, ["k1", "k2"], 3, 3, 12000)
    else:
        np_, ne, tot = replay_graph(chk, ["k1"], 3, 3, 400)
        np2, ne2, tot2 = replay_graph(chk, ["k1", "k2"], 3, 3, 500)
        np_, ne, tot = np_ + np2, ne + ne2, tot + tot2
    # the same behaviours with objects of a class the holder has not seen: unboxing inspects the class through a nested request
    ndrift = len(chk.drift)
    np3, ne3, tot3 = replay_graph(chk, ["k1"], 3, 3, 250 if not chk.thorough else 5000, fresh=True)
    np4, ne4, tot4 = replay_graph(chk, ["k1", "k2"], 2 if not chk.thorough else 3, 3, 150 if not chk.thorough else 6000, fresh=True)
    chk.cov.update({"fresh_class_paths_replayed": np3 + np4, "fresh_class_edges_replayed": ne3 + ne4,
                    "fresh_class_drift": len(chk.drift) - ndrift})
    chk.cov.update({"tlc_paths_replayed": np_, "graph_edges_replayed": ne, "graph_edges_total": tot})
    rnd = random.Random(chk.seed + 17)
    keys = ["k1", "k2", "k3", "k4"]
    traces, ftraces = [], []
    for i in range(60 if not chk.thorough else 500):
        fresh = i % 3 == 2
        tr, hist = random_history(chk, rnd, keys, 60 if not chk.thorough else 200, fresh)
        (ftraces if fresh else traces).append(tr)
        chk.distinct(("hist", tuple(hist)))
        if i % 20 == 19:
            gc.collect()
    for sc_ in SCRIPTS:
        for fresh in (True,):
            tr, hist = scripted_history(chk, keys, sc_, fresh)
            (ftraces if fresh else traces).append(tr)
            chk.distinct(("script", fresh, tuple(hist)))
    validate(chk, keys, traces)
    validate(chk, keys, ftraces, fresh=True)
    # executions nobody scheduled: the reference traffic of every connection of the repository's own tests, owner's end
    from harness import suite_traces
    chans, summary, files = suite_traces.record(suite_traces.ALL_FILES)
    suite_traces.validate_refs(chk, PID, chans, "%d test files: %s" % (len(files), summary))
    both_directions(chk)
    refcoll_race(chk)
    deep_nesting_model(chk)
    deep_nesting_run(chk)
    unbox_threads_model(chk)
    unbox_drop_races(chk)
    concurrent_unbox_races(chk)
    chk.assumptions += [
        "CPython reference counting runs proxy finalizers at the moment the last handle is dropped (automatic GC is off)",
        "frames are delivered whole and in order per direction; the harness chooses when each direction advances",
        "results of asynchronous requests are collected by the program as soon as they have arrived"]
    return chk.finish(rule="evaluations = history steps executed on two real Connections with oracle + state comparison; "
                      "distinct = distinct graph edges replayed + distinct random histories")


if __name__ == "__main__":
    main_wrapper(main)
