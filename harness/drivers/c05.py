"""C05 - packets arrive whole, in order and unaltered however the transport fragments (spec: RpycChannel).

spec -> code : the state graph of RpycChannel for small constants (CHUNK = 8, THRESHOLD = 2; real zlib sizes of the
               chosen payloads) is covered edge by edge; every transport decision TLC makes (how many bytes a send
               accepts / a recv returns, a timeout, EAGAIN, an error, end of stream) is dictated to fake sockets (or fake
               os.read/os.write for PipeStream) under the real Channel + SocketStream / PipeStream code, and after every
               step the byte counters, the size each I/O call asks for, the delivered packets and the closed flags are
               compared with the TLC state.
code -> spec : real constants and packet sizes around the threshold and the chunk size with seeded random
               fragmentation, transient conditions and faults; the I/O call log (sizes only) is validated by TLC against
               Trace_RpycChannel; the direct oracle compares recv() outputs and wire bytes with what was sent.
"""
import errno
import gc
import os
import random
import shutil
import struct
import zlib

from harness import sim, tlc
from harness.common import Check, main_wrapper, OUT

PID = "C05"
INVS = ["Aligned", "InFrame", "NoOverread", "Prefix", "WriterPos"]


def payload(n, kind, rnd):
    if kind == "zeros":
        return bytes(n)
    if kind == "text":
        return (b"the quick brown fox " * (n // 20 + 1))[:n]
    if kind == "lines":
        # ends in line ends (the byte that also terminates a frame): what is delivered must still be exactly this
        return ((b"a line\n" * (n // 7 + 1))[:max(0, n - 2)] + b"\n\n")[:n]
    return bytes(rnd.getrandbits(8) for _ in range(n)) if n < 70000 else os.urandom(n)


def expected_frame(data, compress, threshold):
    if compress and len(data) > threshold:
        body = zlib.compress(data, 1)
        flag = 1
    else:
        body, flag = data, 0
    return struct.pack("!LB", len(body), flag) + body + b"\n", flag, len(body)


class Fixture(object):
    """writer (Channel over stream A) and reader (Channel over stream B) in two managed threads"""

    def __init__(self, payloads, wcomp, rcomp, chunk=None, threshold=None, transport="socket", directed=False, script=None):
        from rpyc.core import stream as stream_mod
        from rpyc.core.channel import Channel
        self.payloads = payloads
        self.sched = s = sim.make_sched()
        self.net = net = sim.FakeSocketNet(s, script)
        net.directed = directed
        self._undo = []
        chan_cls = Channel
        if threshold is not None:
            chan_cls = type("SmallChannel", (Channel,), {"COMPRESSION_THRESHOLD": threshold, "__slots__": ()})
        if transport == "socket":
            st_cls = stream_mod.SocketStream
            if chunk is not None:
                st_cls = type("SmallSocketStream", (st_cls,), {"MAX_IO_CHUNK": chunk, "__slots__": ()})
            self.sw, self.sr = st_cls(net.a), st_cls(net.b)
        else:
            st_cls = stream_mod.PipeStream
            if chunk is not None:
                st_cls = type("SmallPipeStream", (st_cls,), {"MAX_IO_CHUNK": chunk, "__slots__": ()})
            fake_os = FakeOS(net)
            old = stream_mod.os
            stream_mod.os = fake_os
            self._undo.append(lambda: setattr(stream_mod, "os", old))
            dummy = sim.FakeSocketNet(s)
            # the writer writes into net.a (-> net.b.buf), the reader reads net.b; the unused directions are dummies
            self.sw = st_cls(PipeEnd(dummy.b, "r"), PipeEnd(net.a, "w"))
            self.sr = st_cls(PipeEnd(net.b, "r"), PipeEnd(dummy.a, "w"))
        self.cw = chan_cls(self.sw, compress=wcomp)
        self.cr = chan_cls(self.sr, compress=rcomp)
        self.out = []
        self.werr = None
        self.rerr = None
        self.wdone = False
        self.wt = s.spawn("W", self._writer)
        self.rt = s.spawn("R", self._reader)
        s.step(self.wt)
        s.step(self.rt)

    def _writer(self):
        try:
            for p in self.payloads:
                self.cw.send(p)
            self.wdone = True
        except BaseException as ex:  # noqa
            if isinstance(ex, sim.SimAbort):
                raise
            self.werr = ex

    def _reader(self):
        try:
            while len(self.out) < len(self.payloads):
                self.out.append(self.cr.recv())
        except BaseException as ex:  # noqa
            if isinstance(ex, sim.SimAbort):
                raise
            self.rerr = ex

    def close(self):
        self.sched.abort()
        for u in self._undo:
            u()


class PipeEnd(object):
    """file-like end of a fake pipe (what PipeStream keeps in .incoming / .outgoing)"""

    def __init__(self, sock, mode):
        self.sock = sock
        self.mode = mode
        self.closed = False

    def fileno(self):
        return self.sock.fd if self.mode == "r" else self.sock.fd + 100

    def close(self):
        self.closed = True
        if self.mode == "w":
            self.sock.closed = True   # the read end sees end-of-stream once the buffer is drained
        else:
            self.sock.closed = True   # writes into a pipe whose read end is closed fail (EPIPE)

    def flush(self):
        pass


class FakeOS(object):
    def __init__(self, net):
        self.net = net

    def read(self, fd, n):
        return self.net.by_fd(fd).recv(n)

    def write(self, fd, data):
        return self.net.by_fd(fd - 100).send(data)

    def __getattr__(self, name):
        return getattr(os, name)


# --------------------------------------------------------------------------- oracle
def oracle(fx, wcomp, threshold, final, faulted=None):
    bad = []
    n = len(fx.out)
    if faulted is False:
        # the transport never failed or ended: would-block / timeout conditions and fragmentation must not end the stream
        for who, err in (("writer", fx.werr), ("reader", fx.rerr)):
            if err is not None:
                bad.append(("spurious-failure", "%s failed with %s: %s although the transport neither failed nor ended (only "
                            "fragmentation and transient would-block / timeout conditions)" % (who, type(err).__name__, err)))
    for i, got in enumerate(fx.out):
        if got != fx.payloads[i]:
            bad.append(("altered", "packet %d was received altered: %d bytes sent, %d bytes received%s" % (
                i, len(fx.payloads[i]), len(got), "" if len(got) != len(fx.payloads[i]) else " (content differs)")))
            break
    if n > len(fx.payloads):
        bad.append(("extra", "more packets received than sent"))
    for who, err, st in (("writer", fx.werr, fx.sw), ("reader", fx.rerr, fx.sr)):
        if err is not None:
            if not isinstance(err, EOFError):
                bad.append(("wrong-exception", "%s failed with %s: %s instead of EOFError" % (who, type(err).__name__, err)))
            elif not st.closed:
                bad.append(("not-closed", "%s got EOFError but its stream is not closed" % who))
    # wire bytes: a prefix of the expected frames (compared after decompression where compressed)
    sent = bytes(fx.net.a.sent)
    off = 0
    for i, p in enumerate(fx.payloads):
        fr, flag, blen = expected_frame(p, wcomp, threshold)
        chunk = sent[off:off + len(fr)]
        if not chunk:
            break
        hdr = chunk[:5]
        if len(hdr) == 5:
            if hdr != fr[:5]:
                bad.append(("header", "frame %d: header %r on the wire, expected %r (length %d, flag %d)" % (
                    i, hdr, fr[:5], blen, flag)))
                break
        if len(chunk) == len(fr):
            body = chunk[5:-1]
            if flag:
                try:
                    body = zlib.decompress(body)
                except Exception as ex:
                    bad.append(("body", "frame %d: compressed body does not decompress: %s" % (i, ex)))
                    break
            if body != p or chunk[-1:] != b"\n":
                bad.append(("body", "frame %d: body / flusher on the wire differ from what was sent" % i))
                break
        off += len(fr)
    if final and fx.werr is None and fx.rerr is None:
        if not fx.wdone or n != len(fx.payloads):
            bad.append(("incomplete", "no failure occurred but only %d of %d packets were received" % (n, len(fx.payloads))))
    return bad


# --------------------------------------------------------------------------- spec -> code
def tla_seq(xs):
    return "<<" + ", ".join(str(x) for x in xs) + ">>"


def replay_graph(chk, lens, wcomp, transport, max_paths, rnd, kind="text"):
    CHUNK, TH = 8, 2
    payloads = [payload(n, kind, rnd) for n in lens]
    zl = [len(zlib.compress(p, 1)) for p in payloads]
    d = os.path.join(OUT, "c05.%d" % os.getpid())
    os.makedirs(d, exist_ok=True)
    open(os.path.join(d, "G.tla"), "w").write(
        "---- MODULE G ----\nEXTENDS RpycChannel\nGLens == %s\nGZLens == %s\n====\n" % (tla_seq(lens), tla_seq(zl)))
    maxtr = 1 if transport == "socket" else 0
    open(os.path.join(d, "G.cfg"), "w").write(
        "SPECIFICATION Spec\nCONSTANTS\n  CHUNK = %d\n  THRESHOLD = %d\n  MaxTransient = %d\n  InitLens <- GLens\n"
        "  InitZLens <- GZLens\n  InitComp = %s\n  AllowFaults = TRUE\n%s\n" % (
            CHUNK, TH, maxtr, "TRUE" if wcomp else "FALSE", "\n".join("INVARIANT " + i for i in INVS)))
    res = tlc.run_tlc("G", "G.cfg", workers=8, dump=os.path.join(d, "graph"), cwd=d, jvm_props=["TLA-Library=" + tlc.SPEC])
    tlc.require_ok(res, "RpycChannel graph")
    if res.violation:
        raise tlc.MachineryError("RpycChannel violates " + res.violation)
    chk.add_tlc(res, "RpycChannel state graph (payload lengths %s, compress=%s, %s)" % (lens, wcomp, transport))
    g = tlc.load_dot(os.path.join(d, "graph.dot"))
    shutil.rmtree(d, ignore_errors=True)
    paths = tlc.edge_cover_paths(g)
    if len(paths) > max_paths:
        rnd.shuffle(paths)
        paths = paths[:max_paths]
    covered = 0
    for pi, path in enumerate(paths):
        fx = Fixture(payloads, wcomp, rnd.random() < 0.5, chunk=CHUNK, threshold=TH, transport=transport, directed=True)
        labels = [lab for lab, _ in path[1:]]
        try:
            cur = path[0]
            ok = True
            faulted = False
            for i, (label, dst) in enumerate(path[1:]):
                s0, s1 = g.nodes[cur], g.nodes[dst]
                if s0 == s1:
                    cur = dst
                    continue
                name = label.split("(")[0]
                faulted = faulted or name in ("WFail", "RFail")
                try:
                    if name == "WSend":
                        k = int(label.split("(")[1].rstrip(")"))
                        step(fx, fx.wt, fx.net.a, ("accept", k))
                    elif name == "WFail":
                        step(fx, fx.wt, fx.net.a, ("error", errno.EPIPE))
                    elif name == "RRecv":
                        k = int(label.split("(")[1].rstrip(")"))
                        step(fx, fx.rt, fx.net.b, ("data", k))
                    elif name == "RTransient":
                        step(fx, fx.rt, fx.net.b, rnd.choice([("timeout",), ("eagain",)]))
                    elif name == "RFail":
                        natural = s0["wst"] != "open" and s0["W"] == s0["R"]
                        step(fx, fx.rt, fx.net.b, ("eof",) if natural or rnd.random() < 0.5 else ("error", errno.ECONNRESET))
                    else:
                        raise tlc.MachineryError("label " + label)
                except KeyError as ex:
                    chk.drift.append("path %d step %s: %r" % (pi, label, ex))
                    ok = False
                    break
                chk.evaluated()
                mism = compare(fx, s1, CHUNK) if ok else None
                if mism:
                    chk.drift.append("path %d after %s: %s" % (pi, labels[:i + 1], mism))
                    ok = False
                else:
                    covered += 1
                    chk.distinct(("edge", transport, tuple(lens), wcomp, cur, label, dst))
                for key, msg in oracle(fx, wcomp, TH, False, faulted=faulted):
                    chk.violation(key, "C05 %s [payload lengths %s, %s, decisions %s]" % (msg, lens, transport, labels[:i + 1]),
                                  {"mode": "decisions", "lens": lens, "kind": kind, "wcomp": wcomp, "transport": transport,
                                   "labels": labels[:i + 1]})
                cur = dst
            if ok:
                chk.validated()
            # finish the run without further faults and judge the whole of it
            finish(fx)
            for key, msg in oracle(fx, wcomp, TH, True, faulted=faulted):
                chk.violation(key, "C05 %s [payload lengths %s, %s, decisions %s then no more faults]" % (
                    msg, lens, transport, labels), {"mode": "decisions", "lens": lens, "kind": kind, "wcomp": wcomp,
                                                    "transport": transport, "labels": labels})
            if pi < 1:
                chk.sample({"kind": "TLC path dictated to the fake transport", "lens": lens, "transport": transport,
                            "decisions": labels})
        finally:
            fx.close()
        if pi % 300 == 299:
            gc.collect()
    return len(paths), covered, g.nedges


def step(fx, t, sock, decision):
    if t.done or t.pending is None or t.pending.kind not in ("recv", "send"):
        raise KeyError("thread %s is not at a transport call (%r)" % (t.name, None if t.done else t.pending))
    if decision[0] in ("accept", "data"):
        asked = t.pending.info
        if decision[1] > asked:
            raise KeyError("%s asked for %d bytes, the specification transfers %d" % (t.name, asked, decision[1]))
    sock.decision = decision
    fx.sched.step(t)


def finish(fx):
    for _ in range(100000):
        moved = False
        for t, sock in ((fx.wt, fx.net.a), (fx.rt, fx.net.b)):
            if t.done or t.pending is None:
                continue
            if t.pending.kind == "send":
                if fx.sr.closed or fx.net.b.closed:
                    sock.decision = ("error", errno.EPIPE)
                else:
                    sock.decision = ("accept", t.pending.info)
                fx.sched.step(t)
                moved = True
            elif t.pending.kind == "recv":
                if sock.buf:
                    sock.decision = ("data", min(len(sock.buf), t.pending.info))
                elif fx.wt.done:
                    sock.decision = ("eof",)
                else:
                    continue
                fx.sched.step(t)
                moved = True
        if not moved:
            return


def compare(fx, st, CHUNK):
    W = len(fx.net.a.sent)
    R = W - len(fx.net.b.buf)
    if W != st["W"] or R != st["R"]:
        return "bytes written/read %d/%d vs spec %d/%d" % (W, R, st["W"], st["R"])
    if len(fx.out) != st["rgot"] and not (len(fx.out) == st["rgot"]):
        return "packets delivered %d vs spec %d" % (len(fx.out), st["rgot"])
    if (fx.werr is not None) != (st["wst"] == "failed"):
        return "writer failed=%s vs spec %s" % (fx.werr is not None, st["wst"])
    if (fx.rerr is not None) != (st["rst"] == "failed"):
        return "reader failed=%s vs spec %s" % (fx.rerr is not None, st["rst"])
    if st["wst"] == "open" and st["wrem"] > 0:
        if fx.wt.done or fx.wt.pending.kind != "send" or fx.wt.pending.info != min(st["wrem"], CHUNK):
            return "writer offers %s vs spec %d" % (None if fx.wt.done else fx.wt.pending.info, min(st["wrem"], CHUNK))
    if st["rst"] == "open" and st["rgot"] < len(fx.payloads):
        if fx.rt.done or fx.rt.pending.kind != "recv" or fx.rt.pending.info != min(st["rneed"], CHUNK):
            return "reader asks %s vs spec %d" % (None if fx.rt.done else fx.rt.pending.info, min(st["rneed"], CHUNK))
    if st["wst"] == "failed" and not fx.sw.closed:
        return "writer stream open after failure"
    if st["rst"] == "failed" and not fx.sr.closed:
        return "reader stream open after failure"
    return None


# --------------------------------------------------------------------------- code -> spec
def random_run(chk, rnd, sizes, wcomp, rcomp, transport, fault_p):
    kinds = [rnd.choice(["zeros", "text", "random", "lines"]) for _ in sizes]
    payloads = [payload(n, k, rnd) for n, k in zip(sizes, kinds)]
    state = {"fault": None}
    frag = rnd.choice([None, None, 1, 3, 1000, 5000, 70000])
    if frag is not None and frag < 1000 and max(sizes or [0]) > 50000:
        frag = 1000          # byte-wise fragmentation of a megabyte only exhausts the step budget

    def script(sock, op, callno, arg):
        if op == "poll":
            return None
        if state["fault"] is None and fault_p and rnd.random() < fault_p:
            state["fault"] = (sock.name, op)
            if op == "recv":
                return rnd.choice([("eof",), ("error", errno.ECONNRESET)])
            return ("error", errno.EPIPE)
        if op == "recv":
            if transport == "socket" and rnd.random() < 0.08:
                return rnd.choice([("timeout",), ("eagain",)])
            if frag:
                return ("data", rnd.randint(1, frag))
        if op == "send" and frag:
            return ("accept", rnd.randint(1, frag))
        return None
    fx = Fixture(payloads, wcomp, rcomp, transport=transport, script=script)
    try:
        dead = None
        try:
            fx.sched.run(sim.RandomPolicy(random.Random(rnd.random()), stickiness=0.7), max_steps=2000000)
        except sim.StepLimit as ex:
            # the harness's own budget, not a property of the transfer
            chk.drift.append("step budget exhausted for sizes %s, fragmentation %s: %s" % (list(sizes), frag, ex))
            return {"lens": list(sizes), "zlens": [], "comp": wcomp, "events": [], "fault": "budget", "nsent": 0, "nbuf": 0}, [], kinds
        except sim.Deadlock as ex:
            # the writer died: the reader would wait for ever on a socket nobody closes; close the writer's end
            if fx.werr is not None or fx.wdone:
                fx.net.a.closed = True
                try:
                    fx.sched.run(sim.FirstPolicy(), max_steps=500000)
                except (sim.Deadlock, sim.StepLimit) as ex2:
                    dead = str(ex2)
            else:
                dead = str(ex)
        bad = oracle(fx, wcomp, 3000, state["fault"] is None, faulted=state["fault"] is not None)
        if dead:
            bad.append(("deadlock", "transfer blocked for ever: " + dead))
        events = list(fx.net.iolog)
        zl = [len(zlib.compress(p, 1)) for p in payloads]
        return {"lens": list(sizes), "zlens": zl, "comp": wcomp, "events": events, "fault": state["fault"],
                "nsent": len(fx.net.a.sent), "nbuf": len(fx.net.b.buf)}, bad, kinds
    finally:
        fx.close()


def main():
    chk = Check(PID)
    gc.disable()
    rnd = random.Random(chk.seed + 5)
    if chk.replay:
        import json
        rep = json.load(open(chk.replay))["replay"]
        print("replay: rerun ./check C05 with VERIF_SEED=%d (decisions: %s)" % (chk.seed, rep.get("labels")))
        return 0
    for cfg, what in (("MC_RpycChannel.cfg", "exhaustive: CHUNK=8, THRESHOLD=2, 3 packets (multi-write, empty, compressed), "
                       "all splits, transients, faults"), ("MC_RpycChannel_b.cfg", "exhaustive: no compression, 3 packets")):
        res = tlc.require_ok(tlc.run_tlc("MC_RpycChannel", cfg, coverage=True), cfg)
        if res.violation:
            raise tlc.MachineryError("specification RpycChannel violates " + res.violation)
        chk.add_tlc(res, what)
        for a in ("WSend", "WFail", "RRecv", "RTransient", "RFail"):
            if res.coverage.get(a, (0, 0))[1] == 0:
                raise tlc.MachineryError("vacuity: action %s never taken" % a)
    plans = [([5, 0, 3], True, "socket", 450), ([2, 3, 1], False, "socket", 250), ([3, 5], True, "pipe", 300)]
    if chk.thorough:
        plans = [([5, 0, 3], True, "socket", 10 ** 6), ([2, 3, 1], False, "socket", 10 ** 6), ([3, 5, 0], True, "pipe", 10 ** 6),
                 ([7, 1], True, "socket", 10 ** 6), ([2, 6], False, "pipe", 10 ** 6)]
    tot = [0, 0, 0]
    for pi_, (lens, wcomp, transport, mp) in enumerate(plans):
        a, b, c = replay_graph(chk, lens, wcomp, transport, mp, rnd, kind=["text", "lines", "text", "lines", "text"][pi_ % 5])
        tot = [tot[0] + a, tot[1] + b, tot[2] + c]
    chk.cov.update({"tlc_paths_replayed": tot[0], "graph_edges_replayed": tot[1], "graph_edges_total": tot[2]})
    # real constants
    size_sets = [[0, 1, 2999], [3000, 3001, 10], [63993, 5], [63994, 63995], [63996, 64000, 0], [128001, 1], [2999, 3001, 64000]]
    if chk.thorough:
        size_sets += [[1000000], [63990, 63991, 63992, 63997], [200000, 0, 200001]]
    traces = []
    runs = 0
    for rep in range(3 if not chk.thorough else 12):
        for sizes in size_sets:
            for (wcomp, rcomp) in ((True, True), (True, False), (False, True), (False, False)):
                for transport in ("socket", "pipe"):
                    fault_p = rnd.choice([0, 0, 0.002, 0.02])
                    tr, bad, kinds = random_run(chk, rnd, sizes, wcomp, rcomp, transport, fault_p)
                    runs += 1
                    chk.evaluated()
                    chk.distinct(("real", tuple(sizes), wcomp, rcomp, transport, tr["fault"], len(tr["events"])))
                    for key, msg in bad:
                        chk.violation(key, "C05 %s [sizes %s (%s), compression %s/%s, %s, fault %s]" % (
                            msg, sizes, kinds, wcomp, rcomp, transport, tr["fault"]),
                            {"mode": "random", "sizes": sizes, "wcomp": wcomp, "rcomp": rcomp, "transport": transport})
                    if tr["fault"] != "budget" and len(tr["events"]) < 4000:
                        traces.append(tr)
        gc.collect()
    validate(chk, traces)
    chk.cov["real_size_runs"] = runs
    chk.assumptions += ["the transport is a reliable byte stream until it fails; transient conditions (timeout, EAGAIN) are only "
                        "reported to socket reads (PipeStream has no retry path and pipes are blocking)",
                        "compressed bodies are compared after decompression; header bytes (length, flag) exactly"]
    return chk.finish(rule="evaluations = transport decisions dictated to the real Channel/Stream code and compared with the "
                      "TLC state + complete transfers at real sizes; distinct = graph edges replayed + distinct real-size runs")


def validate(chk, traces):
    if not traces:
        return
    traces = [{"lens": t["lens"], "zlens": t["zlens"], "comp": bool(t["comp"]), "events": t["events"]} for t in traces]
    batch = list(traces)
    n = len(batch)
    base = max(traces, key=lambda t: len(t["events"]))
    j = next((i for i, e in enumerate(base["events"]) if e["op"] == "recv" and e["kind"] == "ok"), None)
    if j is not None:
        b1 = dict(base, events=[dict(e) for e in base["events"]])
        b1["events"][j]["asked"] += 1
        b2 = dict(base, events=[dict(e) for e in base["events"]])
        del b2["events"][j]
        batch += [b1, b2]
    out, res = tlc.validate_traces("Trace_RpycChannel", batch, "",
                                   ["CHUNK = 64000", "THRESHOLD = 3000", "MaxTransient = 1000000", "InitLens <- NoLens",
                                    "InitZLens <- NoLens", "InitComp = FALSE", "AllowFaults = TRUE"], invariants=INVS,
                                   name="c05", timeout=3000)
    chk.add_tlc(res, "trace validation batch (RpycChannel, real constants)")
    if res.violation:
        chk.violation("trace-invariant:" + res.violation, "C05 an I/O call log reaches a state violating %s" % res.violation,
                      {"mode": "trace", "tlc": res.stdout[-1500:]})
    for jj in range(n, len(batch)):
        if out[jj] is not None and out[jj][0] == out[jj][1]:
            raise tlc.MachineryError("self-test: corrupted trace accepted by Trace_RpycChannel")
    acc = 0
    for i in range(n):
        if out[i] is not None and out[i][0] == out[i][1]:
            acc += 1
        elif out[i] is not None:
            ev = traces[i]["events"]
            chk.drift.append("I/O log %d (sizes %s) rejected at call %d/%d: %r" % (i, traces[i]["lens"], out[i][0] + 1, out[i][1],
                                                                                   ev[out[i][0]] if out[i][0] < len(ev) else None))
    chk.validated(acc)
    chk.cov["impl_traces"] = n
    chk.cov["impl_traces_accepted"] = acc
    chk.sample({"kind": "I/O call log at real sizes (validated by TLC)", "lens": traces[0]["lens"], "zlens": traces[0]["zlens"],
                "comp": traces[0]["comp"], "events": traces[0]["events"][:25]})


if __name__ == "__main__":
    main_wrapper(main)
