"""C12 - concurrent senders never interleave, lose or strand a message.

1. MC     : TLC checks RpycSend exhaustively (2 threads x 2 msgs + one re-entrant send + a 3-write packet;
            3 threads) - invariants Mutex, Contiguous, InIssueOrder, Accounted, NoStranded, PopSafe, Termination.
2. spec -> code : the dumped state graph is covered edge by edge; every path is replayed on the real
            Connection under the deterministic scheduler, comparing (queue, lock holder, wire, each thread's
            next operation) with the TLC state after every step.
3. code -> spec : seeded random / preemption-bounded exhaustive schedules of real threads calling
            conn.async_request (operation granularity; source-line granularity in the thorough tier) with
            re-entrant sends injected; every run is judged by the direct oracle at the recording transport and
            its event trace is validated by TLC against Trace_RpycSend.
"""
import gc
import os
import random
import sys

from harness import sim, tlc
from harness.common import Check, main_wrapper, OUT

PID = "C12"


# --------------------------------------------------------------------------- fixture
def payload(m, parts):
    tag = "<%s>" % m
    if parts == 1:
        return tag
    return tag * 40          # > chunk: header+part, rest, flusher = 3 writes


KIND2PC = {"qappend": ("append",), "qbool": ("check", "recheck"), "trylock": ("trylock",), "qpop": ("pop",),
           "write": ("write",), "unlock": ("release",)}
KIND2EV = {"qappend": "append", "qbool": "bool", "trylock": "trylock", "qpop": "pop", "write": "write",
           "unlock": "release"}


class Fixture(object):
    CHUNK = 64

    def __init__(self, msgs, parts, repool, lines=False):
        import rpyc
        from rpyc.core import consts, protocol
        from rpyc.core.channel import Channel
        self.consts = consts
        self.msgs = msgs
        self.parts = parts
        self.repool = list(repool)
        self.sched = s = sim.make_sched()
        self.net = sim.Net(s)
        self.net.a.MAX_IO_CHUNK = self.CHUNK
        # whatever locks the constructor creates are schedulable, even if attributes get renamed
        old_lock = protocol.Lock
        protocol.Lock = lambda: sim.SimLock(s, "lock")
        try:
            self.conn = rpyc.VoidService()._connect(Channel(self.net.a, compress=False), {})
        finally:
            protocol.Lock = old_lock
        conn = self.conn
        for attr in ("_cleanup_lock", "_proxy_count_lock"):
            if hasattr(conn, attr):
                setattr(conn, attr, sim.QuietSimLock(s, attr))
        self.white = True
        try:
            conn._sendlock.name = "_sendlock"
            q = sim.SimList(conn._send_queue)
            q.sched = s
            conn._send_queue = q
        except AttributeError:
            self.white = False
        self.events = []
        self.writers = []      # thread name per write call
        self.threads = {}
        for t in sorted(msgs):
            self.threads[t] = s.spawn(t, self._body, t)
        self.lines = None
        if lines:
            self.lines = sim.LineYields(s, [type(conn)._send, type(conn)._async_request, type(conn).async_request,
                                            Channel.send])
            self.lines.__enter__()
        s.on_step = self._on_step
        # bring every thread to its first announced operation
        for t in sorted(msgs):
            s.step(self.threads[t])
        s.preemptions = 0
        s.last = None
        del s.trace[:]

    def _body(self, t):
        for m in self.msgs[t]:
            self.conn.async_request(self.consts.HANDLE_PING, payload(m, self.parts[m]))

    def reenter_fn(self, m):
        return lambda: self.conn.async_request(self.consts.HANDLE_PING, payload(m, self.parts[m]))

    def _on_step(self, sched, t, op, wake):
        if op.kind == "write":
            self.writers.append(t.name)
        if op.kind in ("start", "line"):
            return
        self.events.append((t.name, op.kind))

    # -- white-box projection
    def tag_of(self, data):
        import re
        m = re.search(rb"<(\w+)>", bytes(data))
        return m.group(1).decode() if m else "?"

    def project(self):
        conn = self.conn
        q = [self.tag_of(d) for d in list.__iter__(conn._send_queue)]
        own = conn._sendlock.owner
        lock = own.name if isinstance(own, sim.SimThread) else ("none" if own is None else str(own))
        wire = []
        cur = {}
        for (side, data), who in zip(self.net.wire_log, self.writers):
            tag = self.tag_of(data) if len(data) > 1 else None
            if tag and tag != "?" and len(data) >= 5 and data[4:5] in (b"\x00", b"\x01") and \
                    int.from_bytes(data[:4], "big") + 6 >= len(data) and cur.get(who, (None, 0))[1] in (0,):
                cur[who] = (tag, 1)
            else:
                c = cur.get(who, ("?", 0))
                cur[who] = (c[0], c[1] + 1)
            wire.append((cur[who][0], cur[who][1]))
            if cur[who][1] == self.parts.get(cur[who][0], 1):
                cur[who] = (cur[who][0], 0)
        pcs = {}
        for name, t in self.threads.items():
            pcs[name] = None if t.done else t.pending.kind
        return q, lock, wire, pcs

    # -- direct oracle (black box: bytes at the recording transport)
    def oracle(self, deadlock=None):
        """returns list of (key, message)"""
        bad = []
        if deadlock:
            bad.append(("deadlock", "senders deadlock: %s" % deadlock))
            return bad
        for name, t in self.threads.items():
            if t.exc is not None:
                bad.append(("exception", "sender %s raised %r" % (name, t.exc)))
        frames, rest = sim.split_frames(self.net.a.written)
        tags = []
        for fr in frames:
            body = fr[5:-1]
            import re
            found = set(re.findall(rb"<(\w+)>", body))
            if len(found) != 1 or fr[-1:] != b"\n":
                bad.append(("interleaved", "a packet on the wire is not one contiguous message: tags %s" % sorted(found)))
                return bad
            tags.append(found.pop().decode())
        if rest:
            bad.append(("interleaved", "trailing bytes on the wire that do not form a packet (%d bytes)" % len(rest)))
        expected = [m for t in self.msgs for m in self.msgs[t]] + [m for m in self.repool if m in self.injected]
        for m in expected:
            if tags.count(m) > 1:
                bad.append(("duplicate", "message %s transmitted %d times" % (m, tags.count(m))))
        if all(t.done for t in self.threads.values()):
            missing = [m for m in expected if m not in tags]
            if missing:
                qn = list.__len__(self.conn._send_queue) if self.white else -1
                bad.append(("stranded", "all senders returned but %s never transmitted (queue length %d)" % (missing, qn)))
        for t, ms in self.msgs.items():
            pos = [tags.index(m) for m in ms if m in tags]
            if pos != sorted(pos):
                bad.append(("reordered", "messages of %s left out of issue order: %s" % (t, tags)))
        return bad

    injected = ()

    def close(self):
        if self.lines:
            self.lines.__exit__()
        self.sched.abort()


class BacklogPolicy(object):
    """the writer is held inside its transport write while the other thread queues a long backlog; then a re-entrant send is
    started on the writer (a finalizer running during transmission); then everybody runs"""

    def __init__(self):
        self.phase = 0

    def choose(self, s, ch):
        by = {c[0].name: c for c in ch}
        if self.phase == 0:
            t1 = by.get("t1")
            if t1 is not None and t1[0].pending.kind != "write":
                return t1
            self.phase = 1
        if self.phase == 1:
            if "t2" in by:
                return by["t2"]
            self.phase = 2
        return ch[0]

    def inject_here(self, s, t):
        if self.phase == 2 and t.name == "t1" and t.pending.kind == "write":
            self.phase = 3
            return True
        return False


CONFIGS = {
    "small": dict(msgs={"t1": ["a1"], "t2": ["b1"]}, parts={"a1": 1, "b1": 1, "r1": 1}, repool=["r1"]),
    "mc": dict(msgs={"t1": ["a1", "a2"], "t2": ["b1", "b2"]}, parts={"a1": 1, "a2": 3, "b1": 1, "b2": 1, "r1": 1},
               repool=["r1"]),
    "mid": dict(msgs={"t1": ["a1", "a2"], "t2": ["b1"]}, parts={"a1": 1, "a2": 3, "b1": 1, "r1": 1}, repool=["r1"]),
    # far beyond the 1-3 messages of the statement's quantifier: one directed schedule only
    "backlog": dict(msgs={"t1": ["a1"], "t2": ["b%d" % i for i in range(1, 101)]},
                    parts=dict([("a1", 1), ("r1", 1)] + [("b%d" % i, 1) for i in range(1, 101)]), repool=["r1"]),
    "three": dict(msgs={"t1": ["a1", "a2"], "t2": ["b1", "b2"], "t3": ["c1"]},
                  parts={"a1": 1, "a2": 1, "b1": 1, "b2": 1, "c1": 1}, repool=[]),
    "three_re": dict(msgs={"t1": ["a1", "a2", "a3"], "t2": ["b1", "b2"], "t3": ["c1", "c2"]},
                     parts={"a1": 1, "a2": 3, "a3": 1, "b1": 1, "b2": 3, "c1": 1, "c2": 1, "r1": 1, "r2": 3},
                     repool=["r1", "r2"]),
}


def tla_consts(cfg, prefix="TV"):
    th = sorted(cfg["msgs"])
    defs = []
    defs.append('%sThreads == {%s}' % (prefix, ", ".join('"%s"' % t for t in th)))
    cases = []
    for t in th:
        cases.append('t = "%s" -> <<%s>>' % (t, ", ".join('"%s"' % m for m in cfg["msgs"][t])))
    defs.append('%sMsgs == [t \\in %sThreads |-> CASE %s]' % (prefix, prefix, " [] ".join(cases)))
    ms = sorted(cfg["parts"])
    defs.append('%sParts == [m \\in {%s} |-> CASE %s]' % (
        prefix, ", ".join('"%s"' % m for m in ms), " [] ".join('m = "%s" -> %d' % (m, cfg["parts"][m]) for m in ms)))
    defs.append('%sPool == <<%s>>' % (prefix, ", ".join('"%s"' % m for m in cfg["repool"])))
    lines = ["Threads <- %sThreads" % prefix, "Msgs <- %sMsgs" % prefix, "Parts <- %sParts" % prefix,
             "RePool <- %sPool" % prefix, "MaxDepth = 2"]
    return "\n".join(defs), lines


INVS = ["Mutex", "Contiguous", "InIssueOrder", "Accounted", "NoStranded", "PopSafe"]


# --------------------------------------------------------------------------- spec -> code
def replay_graph(chk, cfgname, max_paths):
    cfg = CONFIGS[cfgname]
    defs, lines = tla_consts(cfg, "G")
    d = os.path.join(OUT, "c12.%d" % os.getpid())
    os.makedirs(d, exist_ok=True)
    root = "G_RpycSend"
    with open(os.path.join(d, root + ".tla"), "w") as f:
        f.write("---- MODULE %s ----\nEXTENDS RpycSend\n%s\n====\n" % (root, defs))
    with open(os.path.join(d, root + ".cfg"), "w") as f:
        f.write("SPECIFICATION Spec\nCONSTANTS\n" + "\n".join("  " + x for x in lines) + "\n" +
                "\n".join("INVARIANT " + i for i in INVS) + "\n")
    dot = os.path.join(d, "graph")
    res = tlc.run_tlc(root, root + ".cfg", workers=8, dump=dot, cwd=d, jvm_props=["TLA-Library=" + tlc.SPEC])
    tlc.require_ok(res, "RpycSend graph dump")
    if res.violation:
        raise tlc.MachineryError("RpycSend violated %s in graph config" % res.violation)
    chk.add_tlc(res, "RpycSend state graph for transition cover (%s)" % cfgname)
    g = tlc.load_dot(dot + ".dot")
    os.remove(dot + ".dot")
    paths = tlc.edge_cover_paths(g)
    total_edges = g.nedges
    rnd = random.Random(chk.seed)
    if len(paths) > max_paths:
        rnd.shuffle(paths)
        paths = paths[:max_paths]
    covered = set()
    drift = 0
    for pi, path in enumerate(paths):
        fx = Fixture(cfg["msgs"], cfg["parts"], cfg["repool"])
        fx.injected = set()
        try:
            cur = path[0]
            ok = True
            for (label, dst) in path[1:]:
                s0, s1 = g.nodes[cur], g.nodes[dst]
                if s0 == s1:
                    cur = dst
                    continue
                actor = [t for t in s0["stack"] if s0["stack"][t] != s1["stack"][t]]
                if len(actor) != 1:
                    raise tlc.MachineryError("cannot identify acting thread on edge %s" % label)
                t = fx.threads[actor[0]]
                try:
                    if t.done:
                        raise KeyError("thread %s already finished" % t.name)
                    if label.startswith("Reenter"):
                        m = s0["pool"][0]
                        fx.injected.add(m)
                        fx.sched.step(t, inject=fx.reenter_fn(m))
                    else:
                        if t.done or not t.pending.is_enabled():
                            raise KeyError("thread %s cannot step" % t.name)
                        fx.sched.step(t)
                except (KeyError, sim.Deadlock) as ex:
                    ok = False
                    chk.drift.append("path %d step %s: %r" % (pi, label, ex))
                    break
                mism = compare(fx, s1) if ok else None
                chk.evaluated()
                if mism:
                    # drift: keep following the schedule (thread order) of the path, judged by the oracle only
                    ok = False
                    drift += 1
                    chk.drift.append("path %d after %s by %s: %s" % (pi, label, actor[0], mism))
                if ok:
                    covered.add((cur, label, dst))
                    chk.distinct(("edge", cur, label, dst))
                cur = dst
            if ok:
                chk.validated()
            # every schedule prefix is completed (no further preemption) and judged as a whole execution
            dead = None
            try:
                fx.sched.run(sim.FirstPolicy(), max_steps=5000)
            except (sim.Deadlock, sim.StepLimit) as ex:
                dead = str(ex)
            if pi < 2:
                chk.sample({"kind": "TLC path replayed into the code", "config": cfgname,
                            "steps": [lab for lab, _ in path[1:]][:60]})
            # the direct oracle also judges what the replay produced so far
            for key, msg in fx.oracle(dead):
                chk.violation("replay:" + key, "C12 %s (TLC path replay)" % msg,
                              {"mode": "tlc-path", "config": cfgname, "labels": [lab for lab, _ in path[1:]]})
        finally:
            fx.close()
    return len(paths), len(covered), total_edges, drift


def compare(fx, st):
    if not fx.white:
        return None
    q, lock, wire, pcs = fx.project()
    if tuple(q) != tuple(st["queue"]):
        return "queue %s vs spec %s" % (q, st["queue"])
    if lock != st["lock"]:
        return "lock %s vs spec %s" % (lock, st["lock"])
    if [tuple(w) for w in wire] != [tuple(w) for w in st["wire"]]:
        return "wire %s vs spec %s" % (wire, st["wire"])
    for t, kind in pcs.items():
        stack = st["stack"][t]
        if kind is None:
            if stack:
                return "thread %s done vs spec pc %s" % (t, stack[-1]["pc"])
            continue
        if not stack:
            return "thread %s at %s vs spec done" % (t, kind)
        if stack[-1]["pc"] not in KIND2PC.get(kind, ()):
            return "thread %s at %s vs spec pc %s" % (t, kind, stack[-1]["pc"])
    return None


# --------------------------------------------------------------------------- code -> spec
def run_impl(cfgname, policy, lines=False, inject_rng=None, inject_plan=None, max_steps=20000):
    """one execution of the real code; returns (fixture summary)"""
    cfg = CONFIGS[cfgname]
    fx = Fixture(cfg["msgs"], cfg["parts"], cfg["repool"], lines=lines)
    fx.injected = set()
    s = fx.sched
    trace = []
    pool = list(cfg["repool"])
    deadlock = None
    plan_used = []
    try:
        stepno = 0
        while True:
            try:
                ch = s.choices()
            except sim.Deadlock as ex:
                deadlock = str(ex)
                break
            if not ch:
                break
            if s.steps > max_steps:
                deadlock = "step limit (livelock?)"
                break
            t, wake = policy.choose(s, ch)
            inj = None
            if pool and t.depth == 0 and t.pending.kind != "start":
                if hasattr(policy, "inject_here"):
                    if policy.inject_here(s, t):
                        inj = pool.pop(0)
                elif inject_plan is not None:
                    if stepno in inject_plan:
                        inj = pool.pop(0)
                elif inject_rng is not None and inject_rng.random() < 0.06:
                    inj = pool.pop(0)
            kind = t.pending.kind
            if inj is not None:
                fx.injected.add(inj)
                plan_used.append(stepno)
                s.step(t, wake, inject=fx.reenter_fn(inj))
                ev = "reenter"
            else:
                s.step(t, wake)
                ev = KIND2EV.get(kind, kind)
            stepno += 1
            if kind == "line":
                continue
            if fx.white:
                own = fx.conn._sendlock.owner
                lock = own.name if isinstance(own, sim.SimThread) else ("none" if own is None else "other")
                trace.append({"t": t.name, "op": ev, "qlen": list.__len__(fx.conn._send_queue), "lock": lock,
                              "wlen": len(fx.net.wire_log)})
        bad = fx.oracle(deadlock)
        return trace, bad, plan_used, fx.white
    finally:
        fx.close()


def explore(chk, cfgname, n_random, dfs_runs, dfs_bound, lines):
    traces = []
    rnd = random.Random(chk.seed * 7919 + hash(cfgname) % 1000)
    runs = 0

    def handle(trace, bad, rep):
        nonlocal runs
        runs += 1
        if runs % 200 == 0:
            gc.collect()
        chk.evaluated()
        chk.distinct(("sched", cfgname, tuple((e["t"], e["op"]) for e in trace)))
        for key, msg in bad:
            chk.violation("impl:" + key, "C12 %s" % msg, rep)
        traces.append(trace)

    for i in range(n_random):
        pol = sim.RandomPolicy(random.Random(rnd.random()), stickiness=rnd.choice([0.0, 0.5, 0.8]))
        irng = random.Random(rnd.random())
        trace, bad, plan, white = run_impl(cfgname, pol, lines=lines, inject_rng=irng)
        handle(trace, bad, {"mode": "indices", "config": cfgname, "lines": lines, "indices": pol.record,
                            "inject_at": plan})
    if dfs_runs:
        def one(pol):
            one.res = run_impl(cfgname, pol, lines=False, inject_plan=one.plan)
        for plan in ([], [5], [9], [12]):
            if plan and not CONFIGS[cfgname]["repool"]:
                continue
            one.plan = plan
            for n, pol in sim.dfs_explore(one, max_runs=dfs_runs, bound=dfs_bound):
                trace, bad, used, white = one.res
                handle(trace, bad, {"mode": "indices", "config": cfgname, "lines": False, "indices": pol.record,
                                    "inject_at": used})
    return traces


def validate(chk, cfgname, traces, selftest=True):
    defs, lines = tla_consts(CONFIGS[cfgname])
    traces = [t for t in traces if t]
    if not traces:
        return
    batch = list(traces)
    n_real = len(batch)
    if selftest:
        # binding self-test: a corrupted field and a dropped event must be rejected
        base = max(traces, key=len)
        bad1 = [dict(e) for e in base]
        k = next((i for i, e in enumerate(bad1) if e["op"] == "write"), None)
        if k is not None:
            bad1[k]["wlen"] += 1
            bad2 = [dict(e) for e in base]
            del bad2[k]
            batch += [bad1, bad2]
    out, res = tlc.validate_traces("Trace_RpycSend", batch, defs, lines, invariants=INVS, name="c12_" + cfgname)
    if res.violation:
        # an invariant of the specification failed on a state reached by an implementation trace
        chk.violation("trace-invariant:" + res.violation,
                      "C12 implementation trace reaches a state violating %s" % res.violation,
                      {"mode": "trace", "config": cfgname, "tlc": res.stdout[-2000:]})
    chk.add_tlc(res, "trace validation batch (%s)" % cfgname)
    if selftest and len(batch) > n_real:
        for j in range(n_real, len(batch)):
            if out[j] is not None and out[j][0] == out[j][1]:
                raise tlc.MachineryError("self-test: corrupted trace was accepted by Trace_RpycSend")
    acc = 0
    for j in range(n_real):
        if out[j] is None:
            continue
        if out[j][0] == out[j][1]:
            acc += 1
        else:
            chk.drift.append("trace %d of %s rejected at event %d/%d: %r" % (
                j, cfgname, out[j][0] + 1, out[j][1], traces[j][out[j][0]] if out[j][0] < len(traces[j]) else None))
    chk.validated(acc)
    chk.cov.setdefault("impl_traces", 0)
    chk.cov["impl_traces"] += n_real
    chk.cov.setdefault("impl_traces_accepted", 0)
    chk.cov["impl_traces_accepted"] += acc
    if traces:
        chk.sample({"kind": "implementation trace accepted by TLC" if out[0] and out[0][0] == out[0][1] else
                    "implementation trace", "config": cfgname, "events": traces[0][:40]})


def do_replay(chk, path):
    import json
    rep = json.load(open(path))["replay"]
    if rep.get("mode") != "indices":
        print("replay of mode %s: rerun the check" % rep.get("mode"))
        return 0
    pol = sim.IndexPolicy(rep["indices"])
    trace, bad, plan, white = run_impl(rep["config"], pol, lines=rep.get("lines", False),
                                       inject_plan=set(rep.get("inject_at", [])))
    for key, msg in bad:
        print("VIOLATION property=%s replay=%s" % (PID, path))
        print("  ", msg)
    return 1 if bad else 0


def main():
    chk = Check(PID)
    gc.disable()
    if chk.replay:
        return do_replay(chk, chk.replay)
    # 1. model checking
    res = tlc.require_ok(tlc.run_tlc("MC_RpycSend", "MC_RpycSend.cfg", coverage=True), "MC_RpycSend")
    if res.violation:
        raise tlc.MachineryError("specification RpycSend violates %s:\n%s" % (res.violation, res.stdout[-3000:]))
    chk.add_tlc(res, "exhaustive: 2 threads x 2 msgs, one 3-write packet, one re-entrant send; safety + termination")
    for a in ("DoAppend", "DoCheck", "DoTryLock", "DoRecheck", "DoPop", "DoWrite", "DoRelease", "Reenter"):
        if res.coverage.get(a, (0, 0))[1] == 0:
            raise tlc.MachineryError("vacuity: action %s never taken" % a)
    if chk.thorough:
        res3 = tlc.require_ok(tlc.run_tlc("MC_RpycSend", "MC3_RpycSend.cfg"), "MC3_RpycSend")
        if res3.violation:
            raise tlc.MachineryError("specification RpycSend (3 threads) violates %s" % res3.violation)
        chk.add_tlc(res3, "exhaustive: 3 threads, 5 msgs")
    # 2. spec -> code
    np, ne, tot, drift = replay_graph(chk, "mid" if chk.thorough else "small", 30000 if chk.thorough else 4000)
    chk.cov["tlc_paths_replayed"] = np
    chk.cov["graph_edges_covered"] = ne
    chk.cov["graph_edges_total"] = tot
    # 3. code -> spec + direct oracle
    plan = [("mc", 150, 600, 2, False), ("three", 100, 400, 2, False), ("three_re", 100, 0, 0, False)]
    if chk.thorough:
        plan = [("mc", 600, 6000, 3, False), ("three", 400, 4000, 2, False), ("three_re", 600, 2000, 2, False),
                ("mc", 300, 0, 0, True), ("three_re", 300, 0, 0, True)]
    for cfgname, nr, nd, bound, lines in plan:
        traces = explore(chk, cfgname, nr, nd, bound, lines)
        if not lines:
            # schedules at source-line granularity are judged by the oracle only: there the injected re-entrant send may start
            # at a line that is not an operation of the specification
            validate(chk, cfgname, traces)
    # one directed schedule far outside the bounds: a long backlog behind a held writer, then a re-entrant send on the writer
    trace, bad, plan_used, white = run_impl("backlog", BacklogPolicy(), max_steps=60000)
    chk.evaluated()
    chk.distinct(("sched", "backlog"))
    for key, msg in bad:
        chk.violation("impl:backlog:" + key, "C12 [100 messages queued behind a writer held in its transport write, then a re-entrant "
                      "send on the writer] %s" % msg, {"mode": "backlog"})
    if not bad:
        chk.validated()
    chk.cov["backlog_run"] = {"reentrant_send_injected": bool(plan_used)}
    chk.assumptions += [
        "operations on Lock / list / stream are atomic steps (CPython GIL); preemption is explored between them"
        " (thorough tier: between source lines of _send/_async_request/Channel.send)",
        "the simulated Lock behaves like threading.Lock (non-reentrant, non-blocking acquire returns False when held)",
        "messages are sent with conn.async_request(HANDLE_PING, tag); re-entrant sends are injected on the sending thread "
        "immediately before an announced operation, as a finalizer would run"]
    return chk.finish(
        rule="evaluations = implementation steps compared with a TLC state + complete implementation executions judged by "
             "the oracle; distinct = distinct graph edges replayed + distinct implementation schedules (by event sequence)")


if __name__ == "__main__":
    main_wrapper(main)
