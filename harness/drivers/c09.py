"""C09 - remote exceptions arrive as the same class with the same data, and safely (spec: RpycVinegar).

TLC evaluates the outcome table of the specification (8 class categories x 4 argument shapes x 4 attribute shapes x 2^2
sender switches x 2^2 receiver switches = 2048 cases), checks its safety meta-properties and exports it.  Every case is
refined to concrete exceptions - every built-in exception class of the running interpreter serves as a representative of
its category - and pushed through the real vinegar.dump -> brine -> vinegar.load path with the case's switches; a sample
(and every built-in class once) also travels end to end through a real connection pair whose two sides are configured
accordingly.  Compared: class, isinstance, args, attributes, remote traceback / version text, sys.modules delta,
constructor canaries.  Crafted records in place of a genuine one must never import or construct anything.
"""
import builtins
import gc
import json
import os
import random
import shutil
import sys

from harness import sim, tlc
from harness.canary import CanaryExc, NotAnException
from harness.common import Check, main_wrapper, OUT
from harness.pair import Pair

PID = "C09"
UNIMPORTED = "verif_c09_unimported_mod"


class Blob(object):
    def __repr__(self):
        return "<Blob>"


def builtin_classes():
    exc, base = [], []
    for n in dir(builtins):
        o = getattr(builtins, n)
        if isinstance(o, type) and issubclass(o, BaseException):
            if o.__name__ != n:
                continue           # aliases (EnvironmentError, IOError)
            if o is StopIteration or o is KeyboardInterrupt:
                continue           # fast path / routed locally by the default configuration
            (exc if issubclass(o, Exception) else base).append(o)
    return sorted(exc, key=lambda c: c.__name__), sorted(base, key=lambda c: c.__name__)


SPECIAL = {
    "UnicodeDecodeError": lambda: UnicodeDecodeError("utf8", b"x", 0, 1, "why"),
    "UnicodeEncodeError": lambda: UnicodeEncodeError("utf8", "x", 0, 1, "why"),
    "UnicodeTranslateError": lambda: UnicodeTranslateError("x", 0, 1, "why"),
    "ExceptionGroup": lambda: ExceptionGroup("group", [ValueError(1)]),
    "BaseExceptionGroup": lambda: BaseExceptionGroup("group", [ValueError(1)]),
}


def make_args(shape):
    return {"empty": (), "plain": (1, "two", 3.5, None, (4, b"five")), "mixed": ("ok", Blob(), 7, [1, 2]),
            "nonplain": (Blob(), {"k": 1}, [1])}[shape]


def expected_args(shape, args):
    from rpyc.core import brine
    return tuple(a if brine.dumpable(a) else repr(a) for a in args)


def make_instance(cls, argshape, attrshape):
    args = make_args(argshape)
    special = cls.__name__ in SPECIAL
    if special:
        exc = SPECIAL[cls.__name__]()
    else:
        try:
            exc = cls(*args)
        except Exception:
            exc = cls()
            exc.args = args
    attrs = {}
    try:
        if attrshape == "plain":
            exc.detail = ("d", 1)
            exc.code_ = 42
            attrs = {"detail": ("d", 1), "code_": 42}
        elif attrshape == "nonplain":
            exc.payload = Blob()
            attrs = {"payload": "<Blob>"}
        elif attrshape == "private":
            exc._secret_note = "s"
            attrs = {"_secret_note": None}
    except AttributeError:
        attrs = {}
    return exc, attrs


def write_unimported_module():
    d = os.path.join(OUT, "c09mods.%d" % os.getpid())
    os.makedirs(d, exist_ok=True)
    with open(os.path.join(d, UNIMPORTED + ".py"), "w") as f:
        f.write("IMPORT_SIDE_EFFECT = []\nclass RemoteOnlyError(Exception):\n    inits = 0\n    def __init__(self, *a):\n"
                "        RemoteOnlyError.inits += 1\n        Exception.__init__(self, *a)\n")
    sys.path.insert(0, d)
    return d


def check_outcome(case, out, exc_in, attrs_in, loaded, load_error, modules_before, vinegar, version, base_inits=(0, 0, 0)):
    """returns list of (key, msg)"""
    bad = []
    cat = case["cat"]
    newmods = {m for m in set(sys.modules) - modules_before if not m.startswith("encodings")}
    if out["imports"]:
        if UNIMPORTED not in newmods and UNIMPORTED not in sys.modules:
            bad.append(("no-import", "the receiver is configured to import custom exception modules but did not"))
        newmods.discard(UNIMPORTED)
    if newmods:
        bad.append(("import", "loading the exception imported %s" % sorted(newmods)))
    if CanaryExc.inits != base_inits[0] or NotAnException.inits != base_inits[1]:
        bad.append(("constructor", "a constructor ran while the exception was rebuilt"))
    um = sys.modules.get(UNIMPORTED)
    if um is not None and um.RemoteOnlyError.inits != (base_inits[2] if case["cat"] != "custom_unimported" else 0):
        bad.append(("constructor", "the constructor of a custom exception ran while it was rebuilt"))
    if load_error is not None:
        bad.append(("load-raised", "vinegar.load raised %s: %s" % (type(load_error).__name__, load_error)))
        return bad
    if out["cls"] == "StopIteration":
        if loaded is not StopIteration and not isinstance(loaded, StopIteration):
            bad.append(("class", "StopIteration arrived as %r" % (loaded,)))
        return bad
    cls_in = type(exc_in)
    if out["cls"] == "Real":
        want = cls_in
        if cat == "custom_unimported":
            want = getattr(sys.modules.get(UNIMPORTED), "RemoteOnlyError", None)
        if want is None or not isinstance(loaded, want):
            bad.append(("class", "%s.%s arrived as %s.%s, not an instance of the original class" % (
                cls_in.__module__, cls_in.__name__, type(loaded).__module__, type(loaded).__name__)))
        elif type(loaded).__name__ != cls_in.__name__:
            bad.append(("class-name", "class name %s became %s" % (cls_in.__name__, type(loaded).__name__)))
    else:
        if not isinstance(loaded, vinegar.GenericException):
            bad.append(("class", "expected a generic stand-in, got %s.%s" % (type(loaded).__module__, type(loaded).__name__)))
        elif out["cls"] == "Generic" and cat in ("custom_imported", "custom_unimported") and \
                cls_in.__name__ not in type(loaded).__name__:
            bad.append(("class-name", "the stand-in %s is not named after %s" % (type(loaded).__name__, cls_in.__name__)))
    if not isinstance(loaded, BaseException):
        return bad
    if out["args"] != "n/a" and cls_in.__name__ not in SPECIAL:
        want_args = expected_args(case["args"], exc_in.args)
        if tuple(loaded.args) != want_args:
            bad.append(("args", "args %r arrived as %r (expected %r)" % (exc_in.args, loaded.args, want_args)))
    for name, val in attrs_in.items():
        got = getattr(loaded, name, "<absent>")
        if val is None:
            if got != "<absent>":
                bad.append(("attrs", "private attribute %s travelled" % name))
        elif got != val:
            bad.append(("attrs", "attribute %s=%r arrived as %r" % (name, val, got)))
    tb = getattr(loaded, "_remote_tb", None)
    if out["traceback"] == "text":
        if not isinstance(tb, str) or "Traceback" not in tb or cls_in.__name__ not in tb:
            bad.append(("traceback", "remote traceback missing although the sender allows it: %r" % (tb,)))
    elif out["traceback"] == "denied":
        if tb is None or "Traceback (most recent call last)" in str(tb) or "File \"" in str(tb):
            bad.append(("traceback-leak", "remote traceback disclosed although the sender denies it: %r" % (str(tb)[:80],)))
    ver = getattr(loaded, "_remote_version", None)
    if out["version"] == "text" and ver != version:
        bad.append(("version", "remote version text %r, expected %r" % (ver, version)))
    if out["version"] == "denied" and (ver is None or version in str(ver)):
        bad.append(("version-leak", "remote version disclosed although the sender denies it: %r" % (ver,)))
    return bad


def run_case(case, out, cls, vinegar, brine, version, rnd):
    """direct route: dump -> brine -> load"""
    cat = case["cat"]
    CanaryExc.inits = NotAnException.inits = 0
    exc, attrs = (None, {}) if cat == "stopiter" else make_instance(cls, case["args"], case["attrs"])
    if cat == "stopiter":
        exc = StopIteration()
    try:
        raise exc
    except BaseException:
        t, v, tb = sys.exc_info()
    rec = vinegar.dump(t, v, tb, include_local_traceback=case["snd"]["tb"], include_local_version=case["snd"]["ver"])
    del tb
    if cat == "unknown_mod":
        rec = (("nonexistent_mod_c09", rec[0][1]),) + tuple(rec[1:])
    elif cat == "builtin_nonexc":
        rec = (("builtins", rnd.choice(["int", "open", "eval", "type", "print"])),) + tuple(rec[1:])
    elif cat == "imported_nonexc":
        rec = (rnd.choice([("os", "system"), ("harness.canary", "NotAnException"), ("sys", "exit"), ("os", "path")]),) + tuple(rec[1:])
    wire = brine.load(brine.dump(rec))
    if cat == "custom_unimported":
        sys.modules.pop(UNIMPORTED, None)
    CanaryExc.inits = NotAnException.inits = 0
    before = set(sys.modules)
    loaded, err = None, None
    try:
        loaded = vinegar.load(wire, import_custom_exceptions=case["rcv"]["imp"],
                              instantiate_custom_exceptions=case["rcv"]["inst"], instantiate_oldstyle_exceptions=False)
    except BaseException as ex:  # noqa
        err = ex
    bad = check_outcome(case, out, exc, attrs, loaded, err, before, vinegar, version)
    return bad, exc


def class_for(cat, i, exc_classes, base_classes):
    if cat == "builtin_exc":
        return exc_classes[i % len(exc_classes)]
    if cat == "builtin_base":
        return base_classes[i % len(base_classes)]
    if cat == "stopiter":
        return StopIteration
    if cat == "custom_imported":
        return CanaryExc
    if cat == "custom_unimported":
        __import__(UNIMPORTED)
        return sys.modules[UNIMPORTED].RemoteOnlyError
    return [ValueError, KeyError, RuntimeError][i % 3]     # record gets its class name rewritten


def end_to_end(chk, cases, exc_classes, base_classes, rnd, n):
    """the same through a real connection pair: the exception is raised in a service method on side B"""
    import rpyc
    from rpyc.core import vinegar
    version = rpyc.version.version_string if hasattr(rpyc, "version") else None
    from rpyc import version as vmod
    version = vmod.version_string
    done = 0
    sample = [c for c in cases if c["c"]["cat"] in ("builtin_exc", "builtin_base", "custom_imported", "custom_unimported", "stopiter")]
    rnd.shuffle(sample)
    # every built-in class once under the default configuration, then a sample of table cases
    default = {"cat": "builtin_exc", "args": "plain", "attrs": "plain", "snd": {"tb": True, "ver": True}, "rcv": {"imp": False, "inst": False}}
    work = [(dict(default, cat="builtin_exc"), c) for c in exc_classes] + [(dict(default, cat="builtin_base"), c) for c in base_classes]
    outs = {json.dumps(r["c"], sort_keys=True): r["out"] for r in cases}
    for r in sample[:n]:
        work.append((r["c"], None))
    for i, (case, cls) in enumerate(work):
        out = outs[json.dumps(case, sort_keys=True)]
        if cls is None:
            cls = class_for(case["cat"], i, exc_classes, base_classes)
        holder = {}

        class Svc(rpyc.Service):
            def exposed_boom(self):
                if case["cat"] == "stopiter":
                    raise StopIteration()
                exc, attrs = make_instance(cls, case["args"], case["attrs"])
                holder["exc"], holder["attrs"] = exc, attrs
                um_ = sys.modules.get(UNIMPORTED)
                holder["inits"] = (CanaryExc.inits, NotAnException.inits, um_.RemoteOnlyError.inits if um_ else 0)
                if case["cat"] == "custom_unimported":
                    sys.modules.pop(UNIMPORTED, None)     # the requester's process has not imported it
                raise exc
        cfg_b = {"include_local_traceback": case["snd"]["tb"], "include_local_version": case["snd"]["ver"]}
        cfg_a = {"import_custom_exceptions": case["rcv"]["imp"], "instantiate_custom_exceptions": case["rcv"]["inst"]}
        p = Pair(rpyc.VoidService(), Svc(), config_a=cfg_a, config_b=cfg_b, patch_time=False)
        try:
            a = p.a
            meth = a.call(lambda: a.conn.root.boom)
            if case["cat"] == "custom_unimported":
                sys.modules.pop(UNIMPORTED, None)
            CanaryExc.inits = NotAnException.inits = 0
            before = set(sys.modules)
            tag = object()
            a.do(tag, meth)
            kind, val = a.results.pop(tag, ("none", None))
            chk.evaluated()
            if case["cat"] == "custom_unimported" and UNIMPORTED not in sys.modules:
                pass
            if kind != "exc":
                chk.violation("e2e:no-exception", "C09 [end to end] the call returned %r instead of raising %s" % (val, cls.__name__),
                              {"mode": "e2e", "case": case, "cls": cls.__name__})
                continue
            exc_in = holder.get("exc") or StopIteration()
            known = classify_known(cls)
            if isinstance(val, TypeError) and known and not isinstance(exc_in, TypeError):
                chk.violation(known, "C09 [end to end] %s cannot be rebuilt by the receiver: the requester gets %s: %s" % (
                    cls.__name__, type(val).__name__, val), {"mode": "e2e", "case": case, "cls": cls.__name__})
                continue
            bad = check_outcome(case, out, exc_in, holder.get("attrs", {}), val, None, before, vinegar, version,
                                base_inits=holder.get("inits", (0, 0, 0)))
            for key, msg in bad:
                chk.violation("e2e:%s:%s" % (key, cls.__name__ if key in ("class", "load-raised") else case["cat"]),
                              "C09 [end to end] %s raised remotely: %s (case %s)" % (cls.__name__, msg, case),
                              {"mode": "e2e", "case": case, "cls": cls.__name__})
            if not bad:
                chk.validated()
            done += 1
        finally:
            p.close()
        if i % 50 == 49:
            gc.collect()
    return done


def classify_known(cls):
    if cls.__name__ in ("ExceptionGroup", "BaseExceptionGroup"):
        return "rebuild:" + cls.__name__
    return None


HOSTILE = {
    "wrong_arity": lambda r: (("builtins", "ValueError"), ("x",)),
    "names_not_text": lambda r: ((5, None), ("x",), (), "tb"),
    "dunder_attrs": lambda r: (("harness.canary", "CanaryExc"), ("x",), (("__class__", int), ("__dict__", "x"), ("__init__", "x")), "tb"),
    "text_record": lambda r: "just text",
    "int_other": lambda r: r.choice([0, 2, 7, -1]),
    "args_not_tuple": lambda r: (("builtins", "ValueError"), 5, (), "tb"),
    "attrs_not_pairs": lambda r: (("builtins", "ValueError"), ("x",), (1, 2, 3), "tb"),
    "huge_names": lambda r: (("os" * 500, "system" * 500), ("x",), (), "tb"),
    "os_system": lambda r: (("os", "system"), ("echo pwned",), (), "tb"),
    "unimported": lambda r: ((UNIMPORTED, "RemoteOnlyError"), ("x",), (), "tb"),
    "colorsys": lambda r: (("colorsys", "ONE_THIRD"), (), (), "tb"),
    "not_exception_class": lambda r: (("harness.canary", "NotAnException"), ("x",), (), "tb"),
}


def hostile(chk, vinegar, rnd):
    n = 0
    real_system = os.system
    hits = []
    os.system = lambda *a: hits.append(a)
    try:
        for name, mk in sorted(HOSTILE.items()):
            for imp in (False, True):
                for inst in (False, True):
                    rec = mk(rnd)
                    sys.modules.pop(UNIMPORTED, None)
                    CanaryExc.inits = NotAnException.inits = 0
                    before = set(sys.modules)
                    res = None
                    try:
                        res = vinegar.load(rec, import_custom_exceptions=imp, instantiate_custom_exceptions=inst,
                                           instantiate_oldstyle_exceptions=False)
                    except BaseException:  # noqa
                        pass
                    n += 1
                    chk.evaluated()
                    chk.distinct(("hostile", name, imp, inst))
                    newm = {m for m in set(sys.modules) - before if not m.startswith("encodings")}
                    bad = []
                    if newm and not (imp and newm <= {UNIMPORTED, "colorsys"}):
                        bad.append(("hostile-import", "a crafted record (%s) made the receiver import %s (import switch %s)" % (
                            name, sorted(newm), imp)))
                    if not imp and newm:
                        bad.append(("hostile-import", "a crafted record (%s) imported %s although importing is disabled" % (
                            name, sorted(newm))))
                    um = sys.modules.get(UNIMPORTED)
                    if CanaryExc.inits or NotAnException.inits or hits or (um is not None and um.RemoteOnlyError.inits):
                        bad.append(("hostile-constructor", "a crafted record (%s) made the receiver run a constructor / callable" % name))
                    if res is not None and not (res is StopIteration or isinstance(res, (BaseException, str))):
                        bad.append(("hostile-object", "a crafted record (%s) was loaded as %r" % (name, type(res))))
                    for key, msg in bad:
                        chk.violation(key, "C09 " + msg, {"mode": "hostile", "name": name, "imp": imp, "inst": inst})
                    sys.modules.pop("colorsys", None) if "colorsys" in newm else None
    finally:
        os.system = real_system
    return n


def main():
    chk = Check(PID)
    gc.disable()
    rnd = random.Random(chk.seed + 9)
    d = os.path.join(OUT, "c09.%d" % os.getpid())
    os.makedirs(d, exist_ok=True)
    f1 = os.path.join(d, "cases.ndjson")
    res = tlc.require_ok(tlc.run_tlc("RpycVinegar", "MC_RpycVinegar.cfg", workers=2, env={"OUT_FILE": f1}), "RpycVinegar")
    chk.add_tlc(res, "outcome table (2048 cases) with its safety meta-properties as ASSUMEs")
    chk.cov["states"] = max(1, chk.cov["states"])
    chk.cov["transitions"] = max(1, chk.cov["transitions"])
    cases = [json.loads(l) for l in open(f1)]
    shutil.rmtree(d, ignore_errors=True)
    if len(cases) != 2048:
        raise tlc.MachineryError("expected 2048 cases, got %d" % len(cases))
    moddir = write_unimported_module()
    try:
        from rpyc.core import vinegar, brine
        from rpyc import version as vmod
        version = vmod.version_string
        exc_classes, base_classes = builtin_classes()
        chk.cov["builtin_exception_classes"] = len(exc_classes) + len(base_classes)
        per_cat = {}
        for i, r in enumerate(cases):
            case, out = r["c"], r["out"]
            k = per_cat.get(case["cat"], 0)
            per_cat[case["cat"]] = k + 1
            cls = class_for(case["cat"], k, exc_classes, base_classes)
            bad, exc = run_case(case, out, cls, vinegar, brine, version, rnd)
            chk.evaluated()
            chk.distinct(("case", json.dumps(case, sort_keys=True)))
            known = classify_known(cls)
            for key, msg in bad:
                if known and key in ("load-raised", "class"):
                    chk.violation(known, "C09 %s cannot be rebuilt by the receiver: %s" % (cls.__name__, msg),
                                  {"mode": "case", "case": case, "cls": cls.__name__})
                else:
                    chk.violation("%s:%s" % (key, cls.__name__ if key in ("class", "load-raised", "args") else case["cat"]),
                                  "C09 %s (%s): %s [case %s]" % (cls.__name__, case["cat"], msg, case),
                                  {"mode": "case", "case": case, "cls": cls.__name__})
            if not bad:
                chk.validated()
            if i % 700 == 0:
                chk.sample({"kind": "table case executed through vinegar.dump -> brine -> vinegar.load", "case": case,
                            "class": cls.__name__, "expected": out})
        # every built-in class under every switch setting (class fidelity does not depend on them)
        for cls in exc_classes + base_classes:
            for tbf in (True, False):
                for inst in (True, False):
                    case = {"cat": "builtin_exc" if issubclass(cls, Exception) else "builtin_base", "args": "plain", "attrs": "plain",
                            "snd": {"tb": tbf, "ver": tbf}, "rcv": {"imp": inst, "inst": inst}}
                    out = {"cls": "Real", "imports": False, "constructs": False, "args": "same", "attrs": "same",
                           "traceback": "text" if tbf else "denied", "version": "text" if tbf else "denied"}
                    bad, exc = run_case(case, out, cls, vinegar, brine, version, rnd)
                    chk.evaluated()
                    chk.distinct(("builtin", cls.__name__, tbf, inst))
                    known = classify_known(cls)
                    for key, msg in bad:
                        if known and key in ("load-raised", "class"):
                            chk.violation(known, "C09 %s cannot be rebuilt by the receiver: %s" % (cls.__name__, msg),
                                          {"mode": "builtin", "cls": cls.__name__})
                        else:
                            chk.violation("%s:%s" % (key, cls.__name__), "C09 built-in %s: %s" % (cls.__name__, msg),
                                          {"mode": "builtin", "cls": cls.__name__, "case": case})
        chk.cov["hostile_records"] = hostile(chk, vinegar, rnd)
        chk.cov["end_to_end"] = end_to_end(chk, cases, exc_classes, base_classes, rnd, 250 if not chk.thorough else 2048)
    finally:
        sys.path.remove(moddir)
        shutil.rmtree(moddir, ignore_errors=True)
    chk.assumptions += ["KeyboardInterrupt is routed locally by the default configuration and therefore not sent",
                        "built-in classes with mandatory constructor arguments (Unicode*Error, exception groups) are built with "
                        "fixed arguments; their args are not compared item by item"]
    return chk.finish(rule="evaluations = exceptions pushed through dump/load (or a real connection pair); distinct = table cases, "
                      "(built-in class, switches) combinations and hostile records", exhaustive=True)


if __name__ == "__main__":
    main_wrapper(main)
