"""Schedules of the real servers chosen at statement granularity (spec: RpycServerSteps).

For every statement of the server's connection-handling functions (found from the working tree's own code objects) and
every phase of a client's life in which that statement runs (a client connecting, calling, leaving gracefully / abruptly, a
misbehaving client, close()), the thread that reaches the statement is stopped there (harness.linepause), another operation
of the system - close(), another client connecting and calling, another client leaving, another client's call - is run to
completion inside that window, the thread is released and the run is completed and judged by the property-level oracles of
C16 (good clients keep being served correctly, with their own service instance and credentials) and C17 (after close()
every client is cut, nothing is left in the tables, hooks ran once, descriptors are back).
TLC's counterexample for the pinned accept()/close() race (MC_RpycServerSteps_pinned) is one of these schedules and is
replayed by name.
"""
import gc
import sys
import threading
import time

from harness import linepause as lp
from harness.drivers import servers_common as sc

PHASES = ["connect", "call", "leave_graceful", "leave_abrupt", "bad", "close"]
INTRUDERS = {
    "connect": ["close", "connect2", "leave_other", "call_other"],
    "call": ["close", "connect2", "leave_other"],
    "leave_graceful": ["close", "connect2", "call_other"],
    "leave_abrupt": ["close", "connect2", "call_other"],
    "bad": ["connect2", "close"],
    "close": ["connect2", "leave_other", "call_other"],
}


def server_functions(flavour):
    from rpyc.utils import server as m
    fs = [m.Server.accept, m.Server._authenticate_and_serve_client, m.Server._serve_client, m.Server.close, m.Server.start]
    if flavour == "threaded":
        fs += [m.ThreadedServer._accept_method]
    elif flavour == "pool":
        P = m.ThreadPoolServer
        fs += [P.close, P._remove_from_inactive_connection, P._drop_connection, P._add_inactive_connection, P._handle_poll_result,
               P._serve_requests, P._accept_method, P._authenticate_and_build_connection]
    return fs


class Recorder(object):
    """which statements run in which phase (one tracing pass per flavour)"""

    def __init__(self, funcs):
        self.codes = {f.__code__: f for f in funcs}
        self.phase = None
        self.seen = {}          # (code, line) -> set of phases

    def start(self):
        mon = sys.monitoring
        lp._ensure()
        mon.register_callback(lp.TOOL, mon.events.LINE, self._cb)
        for c in self.codes:
            mon.set_local_events(lp.TOOL, c, mon.events.LINE)

    def _cb(self, code, line):
        if self.phase is not None and code in self.codes:
            self.seen.setdefault((code, line), set()).add(self.phase)

    def stop(self):
        mon = sys.monitoring
        for c in self.codes:
            mon.set_local_events(lp.TOOL, c, 0)
        mon.register_callback(lp.TOOL, mon.events.LINE, lp._on_line)


def do_phase(fx, phase, rnd, box):
    """the trigger operation; runs in a helper thread; box collects what the clients saw"""
    try:
        if phase == "connect":
            fx.connect("g1")
            box["g1"] = fx.call("g1")
        elif phase == "call":
            box["g0c"] = fx.call("g0")
        elif phase == "leave_graceful":
            fx.leave("g0", "graceful")
            box["left"] = "g0"
        elif phase == "leave_abrupt":
            fx.leave("g0", "abrupt")
            box["left"] = "g0"
        elif phase == "bad":
            fx.misbehave(rnd.choice(["random_bytes", "truncated_packet", "huge_length", "garbage_payload", "half_header", "poison_reply"]), rnd)
        elif phase == "close":
            fx.server_close()
    except Exception as ex:  # noqa
        box["phase_exc"] = repr(ex)


def do_intruder(fx, intr, box):
    try:
        if intr == "close":
            fx.server_close()
        elif intr == "connect2":
            fx.connect("g2")
            box["g2"] = fx.call("g2")
        elif intr == "leave_other":
            fx.leave("gA", "abrupt")
            box["left2"] = "gA"
        elif intr == "call_other":
            box["gAc"] = fx.call("gA")
    except Exception as ex:  # noqa
        box["intr_exc"] = repr(ex)


def discover(flavour, auth):
    """line -> phases in which it runs, from one traced run"""
    import random
    funcs = server_functions(flavour)
    rec = Recorder(funcs)
    rnd = random.Random(1)
    rec.start()
    try:
        for phase in PHASES:
            fx = sc.ServerFixture(flavour, "tcp", auth)
            try:
                fx.connect("g0")
                fx.call("g0")
                fx.connect("gA")
                fx.call("gA")
                time.sleep(0.15)
                rec.phase = phase
                do_phase(fx, phase, rnd, {})
                time.sleep(0.3)
                rec.phase = None
            finally:
                rec.phase = None
                fx.teardown()
    finally:
        rec.stop()
    out = []
    for f in funcs:
        for (ln, text) in lp.lines_of(f):
            for ph in sorted(rec.seen.get((f.__code__, ln), ()), key=PHASES.index):
                out.append((f, ln, text, ph))
    return out


def settle_call(fx, name, deadline=None):
    return fx.call(name)


def run_window(flavour, auth, func, line, text, phase, intr, rnd):
    """-> (list of (key, msg, which), exercised: bool)"""
    fx = sc.ServerFixture(flavour, "tcp", auth)
    bad = []
    box = {}
    exercised = False
    where = "[%s server%s] thread stopped before `%s` (%s) while %s; meanwhile %s" % (
        flavour, ", authenticator" if auth else "", text, func.__qualname__, PHASE_TEXT[phase], INTR_TEXT[intr])
    tag = "%s:%s:%s" % (func.__name__, phase, intr)
    try:
        fx.connect("g0")
        r0 = fx.call("g0")
        fx.connect("gA")
        rA = fx.call("gA")
        if r0[0] != "ok" or rA[0] != "ok":
            return [("setup", "a well-behaved client is not served at all: %r %r" % (r0, rA), "c16")], False
        counts = {"g0": 1, "gA": 1}
        time.sleep(0.05)
        bp = lp.arm(func, line)
        t1 = threading.Thread(target=do_phase, args=(fx, phase, rnd, box), daemon=True)
        t1.start()
        if bp.wait_hit(1.5):
            exercised = True
            t2 = threading.Thread(target=do_intruder, args=(fx, intr, box), daemon=True)
            t2.start()
            t2.join(0.6)                 # the intruder may need the stopped thread (close() joins the pool): then go on
            bp.release()
            t2.join(10)
            if t2.is_alive():
                bad.append(("hang:" + tag, "%s: that operation never finished" % where, "c17" if intr == "close" else "c16"))
        else:
            bp.release()
        t1.join(10)
        if t1.is_alive():
            bad.append(("hang:" + tag, "%s: the stopped operation never finished after it was released" % where,
                        "c17" if phase == "close" else "c16"))
        lp.disarm_all()
        if not exercised or bad:
            return bad, exercised
        # ---- judgement
        closed = fx.closed
        left = {box.get("left"), box.get("left2")} - {None}
        time.sleep(0.1)
        if not closed:
            # C16: everybody who is still there is served correctly, and so is a newcomer
            for name in ("g0", "gA", "g1", "g2"):
                if name not in fx.clients or name in left:
                    continue
                first = box.get(name)
                if name in ("g1", "g2"):
                    if first is None:
                        continue
                    if first[0] != "ok" or first[1] != 1:
                        bad.append(("not-served:" + tag, "%s: the new client's first call gave %r" % (where, first), "c16"))
                        continue
                    counts[name] = 1
                if name == "g0" and "g0c" in box:
                    counts["g0"] += 1
                    if box["g0c"][0] != "ok" or box["g0c"][1] != 2:
                        bad.append(("wrong-result:" + tag, "%s: %s's call gave %r" % (where, name, box["g0c"]), "c16"))
                        continue
                if name == "gA" and "gAc" in box:
                    counts["gA"] += 1
                    if box["gAc"][0] != "ok" or box["gAc"][1] != 2:
                        bad.append(("wrong-result:" + tag, "%s: %s's call gave %r" % (where, name, box["gAc"]), "c16"))
                        continue
                r = fx.call(name)
                counts[name] += 1
                if r[0] != "ok" or r[1] != counts[name]:
                    bad.append(("wrong-result:" + tag, "%s: afterwards %s's call gave %r, its own counter says %d" % (
                        where, name, r, counts[name]), "c16"))
            if not bad:
                try:
                    fx.connect("g9")
                    r = fx.call("g9")
                except Exception as ex:  # noqa
                    r = ("exc", repr(ex))
                if r[0] != "ok" or r[1] != 1:
                    bad.append(("not-accepting:" + tag, "%s: afterwards a new well-behaved client gets %r" % (where, r), "c16"))
            # departed clients leave nothing behind
            live = len([n for n in fx.clients if n not in left])
            if not bad and not sc.wait_for(lambda: fx.tracked() <= live, 3):
                bad.append(("left-behind:" + tag, "%s: %d client(s) are connected, the server's tables hold %d" % (
                    where, live, fx.tracked()), "c17"))
            if not bad and not sc.wait_for(lambda: not fx.poll_leftovers(), 3):
                bad.append(("poll-left-behind:" + tag, "%s: the server's poll set still holds descriptor(s) %s of departed clients" % (
                    where, fx.poll_leftovers()), "c17"))
            if not bad:
                try:
                    fx.server_close()
                except Exception as ex:  # noqa
                    bad.append(("close-raised:" + tag, "%s: close() raised %r" % (where, ex), "c17"))
        if not bad:
            # C17: the server is closed: everyone still connected is cut, promptly
            for name in list(fx.clients):
                if name in left:
                    continue
                t0 = time.time()
                r = fx.call(name)
                if r[0] != "eof":
                    bad.append(("no-eof:" + tag, "%s: after close() client %s got %r (%.1f s) instead of end-of-stream" % (
                        where, name, r, time.time() - t0), "c17"))
                    break
            if not bad and not sc.wait_for(lambda: fx.tracked() == 0, 3):
                bad.append(("left-behind-close:" + tag, "%s: after close() the server's tables still hold %d connection(s)" % (
                    where, fx.tracked()), "c17"))
            if not bad and fx.listener_open():
                bad.append(("listener-open:" + tag, "%s: after close() the listener still accepts" % where, "c17"))
            for c in list(fx.clients):
                fx.leave(c, "graceful")
            if not bad:
                if any(v > 1 for v in fx.reg.hooks.values()):
                    bad.append(("hook-twice:" + tag, "%s: a disconnect hook ran twice" % where, "c17"))
                elif not sc.wait_for(lambda: all(v == 1 for v in fx.reg.hooks.values()), 3):
                    bad.append(("hook-missing:" + tag, "%s: %d service instance(s) were never told that their connection ended" % (
                        where, sum(1 for v in fx.reg.hooks.values() if v == 0)), "c17"))
        return bad, exercised
    finally:
        lp.disarm_all()
        fx.teardown()
        gc.collect()
        if exercised and not bad:
            if not sc.wait_for(lambda: sc.fd_count() <= fx.fd0, 3):
                bad.append(("fd-leak:" + tag, "%s: %d descriptors before the server existed, %d after it was closed and everybody left" % (
                    where, fx.fd0, sc.fd_count()), "c17"))


PHASE_TEXT = {"connect": "a new client was connecting", "call": "a client's call was being served",
              "leave_graceful": "a client was closing its connection", "leave_abrupt": "a client's connection was reset",
              "bad": "a misbehaving client was being handled", "close": "close() was running"}
INTR_TEXT = {"close": "close() ran", "connect2": "another client connected and called", "leave_other": "another client's connection was reset",
             "call_other": "another client called"}


TRIVIAL = ("try:", "pass", "else:", "finally:", "return")

# windows that are always run: the schedules TLC's counterexamples and the repaired races live in
DIRECTED = {
    "c17": [("accept", None, "connect", "close"), ("_accept_method", None, "connect", "close"),
            ("_authenticate_and_serve_client", None, "connect", "close"), ("_authenticate_and_build_connection", None, "connect", "close"),
            ("close", None, "close", "connect2"), ("_handle_poll_result", None, "leave_abrupt", "close"),
            ("_drop_connection", None, "leave_abrupt", "close")],
    "c16": [("_drop_connection", None, "leave_graceful", "connect2"), ("_drop_connection", None, "leave_abrupt", "connect2"),
            ("_drop_connection", None, "bad", "connect2"), ("_serve_requests", "EOFError", "bad", "connect2"),
            ("_serve_requests", "_drop_connection", "leave_graceful", "connect2"),
            ("_serve_client", None, "connect", "connect2"), ("_authenticate_and_build_connection", None, "connect", "connect2"),
            ("_handle_poll_result", None, "leave_abrupt", "connect2")],
}


def sweep(chk, which, pid, flavour, auth, rnd, budget):
    """run window scenarios for one flavour; budget = number of scenarios beyond the directed ones (None = all)"""
    wins = [w for w in discover(flavour, auth) if w[2] not in TRIVIAL and not w[2].startswith("except")]
    scen = []
    for (f, ln, text, ph) in wins:
        for k, intr in enumerate(INTRUDERS[ph]):
            scen.append((k, f, ln, text, ph, intr))
    directed = []
    for (fname, frag, ph, intr) in DIRECTED.get(which or "", []):
        for s_ in scen:
            if s_[1].__name__ == fname and s_[4] == ph and s_[5] == intr and (frag is None or frag in s_[3]) and s_ not in directed:
                directed.append(s_)
    mine = (lambda s_: (s_[5] == "close" or s_[4] == "close")) if which == "c17" else (lambda s_: not (s_[5] == "close" or s_[4] == "close"))
    rest = [s_ for s_ in scen if s_ not in directed]
    rnd.shuffle(rest)
    rest.sort(key=lambda s_: 0 if mine(s_) else 1)
    order = directed + (rest if budget is None else rest[:budget])
    n_ex = 0
    for (_, f, ln, text, ph, intr) in order:
        bad, ex = run_window(flavour, auth, f, ln, text, ph, intr, rnd)
        chk.evaluated()
        if ex:
            n_ex += 1
            chk.distinct(("window", flavour, auth, f.__qualname__, text, ph, intr))
        mine = [(k, m) for (k, m, w) in bad if which is None or w == which]
        for key, msg in mine:
            chk.violation("window:%s:%s" % (flavour, key), "%s %s" % (pid, msg),
                          {"window": [flavour, auth, f.__qualname__, text, ph, intr]})
        if ex and not mine:
            chk.validated()
    chk.cov["windows_%s%s" % (flavour, "_auth" if auth else "")] = {"statement_phase_pairs": len(wins), "scenarios": len(scen),
                                                                   "directed": len(directed), "run": len(order), "window_reached": n_ex}
    return n_ex
