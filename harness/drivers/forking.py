"""ForkingServer scenarios, run in a dedicated child process (the server must live on the main thread there)."""
import json
import os
import subprocess
import sys
import tempfile
import time

VERIF = os.path.dirname(os.path.dirname(os.path.dirname(os.path.abspath(__file__))))

PROBE = r'''
import sys, os, json, socket, threading, time, logging, _thread, struct
import rpyc
from rpyc.utils.server import ForkingServer
out = {"steps": []}
lg = logging.getLogger("fork"); lg.disabled = True; lg.propagate = False
class Svc(rpyc.Service):
    def on_connect(self, conn): self.n = 0
    def exposed_inc(self):
        self.n += 1
        return (self.n, os.getpid())
srv = ForkingServer(Svc, hostname="127.0.0.1", port=0, logger=lg, listener_timeout=0.05, auto_register=False)
port = srv.port
PATIENCE = float(sys.argv[3])       # how long a client waits for an answer
import signal
# the main thread (the only one that may receive SIGCHLD) can be told to hold child-exit signals back for a while: several
# children exiting meanwhile then arrive as ONE signal, as they do whenever they exit close together
signal.signal(signal.SIGUSR1, lambda *a: signal.pthread_sigmask(signal.SIG_BLOCK, [signal.SIGCHLD]))
signal.signal(signal.SIGUSR2, lambda *a: signal.pthread_sigmask(signal.SIG_UNBLOCK, [signal.SIGCHLD]))
def client():
    res = out
    signal.pthread_sigmask(signal.SIG_BLOCK, [signal.SIGCHLD])
    try:
        time.sleep(0.2)
        c1 = rpyc.connect("127.0.0.1", port, config={"sync_request_timeout": PATIENCE})
        c2 = rpyc.connect("127.0.0.1", port, config={"sync_request_timeout": PATIENCE})
        res["c1"] = [c1.root.inc(), c1.root.inc()]
        res["c2"] = [c2.root.inc()]
        # a misbehaving client
        s = socket.create_connection(("127.0.0.1", port)); s.sendall(b"\xff" * 50); s.close()
        s = socket.create_connection(("127.0.0.1", port)); s.sendall(struct.pack("!LB", 0xfffffff0, 0)); s.close()
        c3 = rpyc.connect("127.0.0.1", port, config={"sync_request_timeout": PATIENCE})
        res["c3"] = [c3.root.inc()]
        c3.close()
        time.sleep(0.3)
        res["children_before_close"] = children()
        MODE = sys.argv[1]
        if MODE == "close":
            _thread.interrupt_main()          # KeyboardInterrupt in start(): the server closes itself on the main thread
            time.sleep(0.7)
            for name, c in (("c1", c1), ("c2", c2)):
                try:
                    res[name + "_after_close"] = ("ok", c.root.inc())
                except EOFError:
                    res[name + "_after_close"] = ("eof",)
                except Exception as ex:
                    res[name + "_after_close"] = (type(ex).__name__,)
            try:
                socket.create_connection(("127.0.0.1", port), timeout=1).close()
                res["listener_after_close"] = "open"
            except Exception:
                res["listener_after_close"] = "closed"
        elif MODE == "burst":
            os.kill(os.getpid(), signal.SIGUSR1)
            time.sleep(0.3)
            c1.close(); c2.close()
            for _ in range(40):
                time.sleep(0.05)
                if children().count("Z") >= 2:
                    break
            res["zombies_while_held"] = children().count("Z")
            os.kill(os.getpid(), signal.SIGUSR2)          # one SIGCHLD for both
            time.sleep(0.6)
            res["children_after_leave"] = children()
            _thread.interrupt_main()
            time.sleep(0.3)
        else:
            c1.close(); c2.close()
            time.sleep(0.5)
            res["children_after_leave"] = children()
            _thread.interrupt_main()
            time.sleep(0.3)
        for c in (c1, c2):
            try: c.close()
            except Exception: pass
        time.sleep(0.5)
        res["children_at_end"] = children()
    except BaseException as ex:
        res["error"] = repr(ex)
    finally:
        res["done"] = True
        json.dump(res, open(sys.argv[2], "w"))
        os._exit(0)
def children():
    me = os.getpid()
    kids = []
    for p in os.listdir("/proc"):
        if p.isdigit():
            try:
                st = open("/proc/%s/stat" % p).read().split()
                if int(st[3]) == me:
                    kids.append(st[2])
            except Exception:
                pass
    return kids
threading.Thread(target=client, daemon=True).start()
try:
    srv.start()
except BaseException:
    pass
time.sleep(3)
'''


def run_probe(mode, repo, patience=3):
    d = tempfile.mkdtemp(prefix="verif-fork-")
    script = os.path.join(d, "probe.py")
    outp = os.path.join(d, "out.json")
    open(script, "w").write(PROBE)
    env = dict(os.environ, PYTHONPATH=repo, PYTHONDONTWRITEBYTECODE="1")
    log = open(os.path.join(d, "log.txt"), "w")
    p = subprocess.Popen(["setsid", "timeout", "-k", "2", str(40 + 4 * int(patience)), "/venv/bin/python", script, mode, outp, str(patience)], stdout=log, stderr=log,
                         stdin=subprocess.DEVNULL, env=env, cwd=d)
    try:
        p.wait(60 + 4 * int(patience))
    except subprocess.TimeoutExpired:
        pass
    subprocess.run(["pkill", "-f", script], stdout=subprocess.DEVNULL, stderr=subprocess.DEVNULL)
    try:
        res = json.load(open(outp))
    except Exception as ex:
        res = {"error": "probe produced no result: %r; log: %s" % (ex, open(os.path.join(d, "log.txt")).read()[-500:])}
    import shutil
    shutil.rmtree(d, ignore_errors=True)
    return res


def run_forking(chk, pid, which):
    repo = os.environ.get("VERIF_REPO") or "/repo"
    for mode in ("close", "leave", "burst"):
        res = run_probe(mode, repo)
        for patience in (10, 25):
            # an answer that did not come within the client's patience is only held against the server when it does not come
            # to a more patient client either (a loaded machine forks slowly)
            if "error" in res and "expired" in res["error"]:
                chk.drift.append("forking scenario '%s': a client's patience ran out (%s); repeated with %d s" % (mode, res["error"], patience))
                res = run_probe(mode, repo, patience)
        chk.evaluated()
        chk.distinct(("forking", mode))
        if "error" in res:
            chk.violation("forking:probe-error", "%s [forking server] scenario '%s' failed: %s" % (pid, mode, res["error"]),
                          {"flavour": "forking", "mode": mode})
            continue
        c1, c2, c3 = res.get("c1"), res.get("c2"), res.get("c3")
        if which == "c16":
            ok = c1 and c2 and c3 and [x[0] for x in c1] == [1, 2] and c2[0][0] == 1 and c3[0][0] == 1 and \
                len({c1[0][1], c2[0][1], c3[0][1]}) == 3
            if not ok:
                chk.violation("forking:isolation", "%s [forking server] per-connection counters / processes are not independent, or a "
                              "well-behaved client was not served after misbehaving ones: c1=%r c2=%r c3=%r" % (pid, c1, c2, c3),
                              {"flavour": "forking", "mode": mode})
            else:
                chk.validated()
        else:
            if mode == "close":
                for name in ("c1", "c2"):
                    r = res.get(name + "_after_close")
                    if not r or r[0] != "eof":
                        chk.violation("forking:served-after-close", "%s [forking server] client %s of a closed server got %r instead of "
                                      "end-of-stream (children keep serving)" % (pid, name, r), {"flavour": "forking", "mode": mode})
                if res.get("listener_after_close") != "closed":
                    chk.violation("forking:listener-open", "%s [forking server] the listener is still open after close()" % pid,
                                  {"flavour": "forking", "mode": mode})
            if mode in ("leave", "burst") and "Z" in (res.get("children_after_leave") or []):
                chk.violation("forking:zombies-while-running", "%s [forking server] while the server is running, child processes of "
                              "departed clients are left as zombies (%s)%s" % (pid, res.get("children_after_leave"),
                              "; two clients left close together, their exits arrived as one signal" if mode == "burst" else ""),
                              {"flavour": "forking", "mode": mode})
            elif "Z" in (res.get("children_at_end") or []) or "Z" in (res.get("children_after_leave") or []):
                chk.violation("forking:zombies", "%s [forking server] child processes of departed clients are left as zombies (%s)" % (
                    pid, res.get("children_at_end")), {"flavour": "forking", "mode": mode})
        chk.sample({"kind": "forking server scenario (child process)", "mode": mode, "result": {k: v for k, v in res.items() if k != "steps"}})
