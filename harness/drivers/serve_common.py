"""Shared machinery of C13 and C14: the real Connection.serve / AsyncResult.wait / BgServingThread code run by
client threads under the deterministic scheduler against a scripted peer, bound to spec/RpycServe.tla."""
import gc
import os
import random
import struct
import threading

from harness import sim, tlc
from harness.common import OUT

FAR = 30.0    # sync_request_timeout of the fixture: only ever runs out when a waiter sleeps through


def tag(r):
    return "<%s>" % r


def frame(payload):
    return struct.pack("!LB", len(payload), 0) + payload + b"\n"


KIND2PC = {
    "start": {"start"}, "write": {"c_write"}, "ready?": {"w_check", "w_final", "d_expired", "s_precheck", "s_recheck"},
    "lock": {"s_cond_in", "s_reacq", "s_ncond_in", "d_ncond_in"}, "trylock": {"s_trylock"}, "cond_wait": {"s_wait"},
    "cond_blocked": {"s_blocked"}, "unlock:cond": {"s_cond_out1", "s_cond_out2", "s_ncond_out", "d_ncond_out"}, "poll": {"s_poll"},
    "read": {"s_hdr", "s_body"}, "unlock:recv": {"s_release", "s_giveup"}, "notify_all": {"s_notify", "d_notify"},
    "dispatch": {"s_dispatch"}, "set_ready": {"d_publish"}, "sleep": {"b_sleep"},
}


class Fixture(object):
    def __init__(self, reqs, bg=False, lines=False, callbacks=False):
        import rpyc
        from rpyc.core import protocol, consts, brine
        from rpyc.core.channel import Channel
        from rpyc.utils import helpers
        self.consts, self.brine = consts, brine
        self.reqs = reqs
        self.sched = s = sim.make_sched()
        self.undo_time = sim.patch_time(s)
        self.net = sim.Net(s)
        self.white = True
        self.created = {}          # thread name -> AsyncResults it created, in order
        self.results = {}          # per request: the AsyncResult-like object registered for it
        self.outcome = {}          # request -> ('ok', value) | ('exc', repr)
        self.done_at = {}
        self.dispatch_count = {}   # seq -> times dispatched
        self.callbacks = callbacks  # every client registers a callback on its result right after issuing the request
        self.cb_log = []
        self.waiting = {}          # thread name -> stack of AsyncResults whose wait() the thread is inside of
        fx = self
        # -- observed AsyncResult: reads/writes of the ready flag are scheduling points
        self._saved = []
        base = protocol.AsyncResult
        try:
            slot = base.__dict__["_is_ready"]

            class ObservedAsyncResult(base):
                __slots__ = ()

                def __init__(self, *a, **k):
                    cur = s.current()
                    fx.created.setdefault(cur.name if cur else None, []).append(self)
                    base.__init__(self, *a, **k)

                def wait(self):
                    # which result a thread is waiting for right now: the innermost wait() it is in (with replies that carry
                    # references a dispatch waits for an INSPECT round trip of its own)
                    cur = s.current()
                    st = fx.waiting.setdefault(cur.name if cur else None, [])
                    st.append(self)
                    try:
                        return base.wait(self)
                    finally:
                        st.pop()

                def _get(self):
                    s.yield_op("ready?", self)
                    return slot.__get__(self)

                def _set(self, v):
                    if v:
                        s.yield_op("set_ready", self)
                    slot.__set__(self, v)
                _is_ready = property(_get, _set)
            self._saved.append((protocol, "AsyncResult", base))
            protocol.AsyncResult = ObservedAsyncResult
            self.slot = slot
        except (KeyError, AttributeError, TypeError):
            self.white = False
            self.slot = None
        self._saved.append((protocol, "Lock", protocol.Lock))
        self._saved.append((protocol, "Condition", protocol.Condition))
        protocol.Lock = lambda: sim.SimLock(s, "lock")
        protocol.Condition = lambda *a: sim.SimCondition(s, name="cond")
        try:
            self.conn = conn = rpyc.VoidService()._connect(Channel(self.net.a, compress=False),
                                                           {"sync_request_timeout": FAR})
        finally:
            protocol.Lock, protocol.Condition = self._saved[-2][2], self._saved[-1][2]
        # auxiliary locks of the working tree (not part of the modelled protocol): schedulable, but silent when uncontended
        for attr in ("_cleanup_lock", "_proxy_count_lock"):
            if hasattr(conn, attr):
                setattr(conn, attr, sim.QuietSimLock(s, attr))
        try:
            conn._recvlock.name = "recv"
            conn._recv_event.name = "cond"
            conn._recv_event._lock.name = "cond"
            conn._sendlock = threading.Lock()     # sending is one step here (justified by C12)
            orig = conn._dispatch

            def dispatch(data):
                s.yield_op("dispatch", conn)
                try:
                    seq = brine.load(data)[1]
                    fx.dispatch_count[seq] = fx.dispatch_count.get(seq, 0) + 1
                except Exception:
                    pass
                return orig(data)
            conn._dispatch = dispatch
        except AttributeError:
            self.white = False
        self.clients = {}
        for t in sorted(reqs):
            self.clients[t] = s.spawn(t, self._client, t)
        self.bg = None
        self.bgobj = None
        if bg:
            old = helpers.spawn
            helpers.spawn = lambda f, *a, **k: s.spawn("bg", f, *a, **k)
            try:
                self.bgobj = helpers.BgServingThread(conn)
                self.bg = s.thread("bg")
            finally:
                helpers.spawn = old
        self.replied = []
        self.lines = None
        if lines:
            fns = [type(conn).serve, type(conn)._dispatch, type(conn)._seq_request_callback, type(conn)._async_request,
                   type(conn).async_request, type(conn).sync_request, base.wait, base.__call__, base.value, base.add_callback]
            self.lines = sim.LineYields(s, fns)
            self.lines.__enter__()

    def _client(self, t):
        for r in self.reqs[t]:
            try:
                res = self.conn.async_request(self.consts.HANDLE_PING, tag(r), timeout=FAR)
                self.results[r] = res
                if self.callbacks:
                    res.add_callback(lambda ar, r=r: self.cb_log.append(r))
                v = res.value
                self.outcome[r] = ("ok", v)
            except BaseException as ex:  # noqa
                if isinstance(ex, sim.SimAbort):
                    raise
                self.outcome[r] = ("exc", type(ex).__name__ + ": " + str(ex))
            self.done_at[r] = self.sched.now

    # -- the scripted peer
    def sent_requests(self):
        """requests whose frame has been written completely: list of (req, seq)"""
        frames, _ = sim.split_frames(self.net.a.written)
        out = []
        import re
        for fr in frames:
            try:
                msg, seq, args = self.brine.load(fr[5:-1])
            except Exception:
                continue
            m = re.search(rb"<(\w+)>", fr)
            if m:
                out.append((m.group(1).decode(), seq))
        return out

    def peer_choices(self):
        return [(r, seq) for r, seq in self.sent_requests() if r not in self.replied]

    def peer_reply(self, r, seq):
        c = self.consts
        self.replied.append(r)
        if r.endswith("x"):
            # this request fails on the peer: the answer is an exception message
            from rpyc.core import vinegar
            self.net.a.inbox += frame(self.brine.dump((c.MSG_EXCEPTION, seq, vinegar.dump(ValueError, ValueError(tag(r)), None, False, False))))
            return
        self.net.a.inbox += frame(self.brine.dump((c.MSG_REPLY, seq, (c.LABEL_VALUE, tag(r)))))

    # -- projection
    def kind(self, t):
        if t.done:
            return None
        op = t.pending
        k = op.kind
        if k == "unlock":
            k = "unlock:" + ("cond" if getattr(op.obj, "name", "") == "cond" else "recv")
        return k

    def is_ready(self, r):
        res = self.results.get(r)
        if res is None:
            for t, rs in self.reqs.items():
                if r in rs and len(self.created.get(t, ())) > rs.index(r):
                    res = self.created[t][rs.index(r)]
        if res is None:
            return False
        if self.slot is not None:
            return bool(self.slot.__get__(res))
        return False

    def sleeps_past_publication(self, name, r):
        """is the result that thread `name` (blocked now) waits for already published?  It is the innermost wait() the thread is
        in; outside of any (results collected by other means) the result of its current request r."""
        st = self.waiting.get(name)
        if st and self.slot is not None:
            return bool(self.slot.__get__(st[-1]))
        return self.is_ready(r)

    def owner(self, lock):
        o = lock.owner
        return o.name if isinstance(o, sim.SimThread) else ("none" if o is None else "other")

    def project(self):
        conn = self.conn
        inbox, _ = sim.split_frames(self.net.a.inbox)
        import re
        chan = []
        for fr in inbox:
            m = re.search(rb"<(\w+)>", fr)
            chan.append(m.group(1).decode() if m else "?")
        # a partially consumed frame (header read) still counts as the head of chan in the spec
        return {
            "recvlock": self.owner(conn._recvlock), "condlock": self.owner(conn._recv_event._lock),
            "waiters": sorted(w.name for w in conn._recv_event.waiters),
            "sent": sorted(r for r, _ in self.sent_requests()),
            "nchan": len(self.replied) - sum(1 for (who, n) in self.net.a.read_log if n != 5),
            "ready": {r: self.is_ready(r) for t in self.reqs for r in self.reqs[t]},
            "transit": len(conn._replies_in_transit) if hasattr(conn, "_replies_in_transit") else None,
        }

    def close(self):
        if self.lines:
            self.lines.__exit__()
        if self.bgobj is not None:
            self.bgobj._active = False
        self.sched.abort()
        for mod, name, old in self._saved:
            setattr(mod, name, old)
        self.undo_time()


def fixture_of(cfg):
    """the fixture class for a configuration: with `pool`, threads that do nothing but `while True: conn.serve(None)` - the loop
    of Connection.serve_threaded()'s threads - share the connection with the clients"""
    pool = tuple(cfg.get("pool", ()))
    if cfg.get("serve_threaded"):
        n_workers = cfg["serve_threaded"]

        class ServeThreadedFixture(Fixture):
            """a thread of the program sits in the real Connection.serve_threaded(n): its workers are managed threads p1..pn"""
            def __init__(self, *a, **k):
                Fixture.__init__(self, *a, **k)
                from rpyc.core import protocol
                counter = [0]
                old = protocol.spawn

                def spawn(fn, *fa, **fk):
                    counter[0] += 1
                    return self.sched.spawn("p%d" % counter[0], fn, *fa, **fk)
                self._saved.append((protocol, "spawn", old))
                protocol.spawn = spawn
                self.st = self.sched.spawn("st", self.conn.serve_threaded, n_workers)
                self.drain_threads = [self.st]
        return ServeThreadedFixture
    if not pool:
        return Fixture

    class PoolFixture(Fixture):
        def __init__(self, *a, **k):
            Fixture.__init__(self, *a, **k)
            self.pool = {}
            for name in pool:
                self.pool[name] = self.sched.spawn(name, self._serve_only)

        def _serve_only(self):
            try:
                while True:
                    self.conn.serve(None)
            except EOFError:
                pass
    return PoolFixture


def thread_choices(s):
    """what managed threads can do now, without advancing the clock"""
    out = []
    for t in s.live():
        if t.pending.is_enabled():
            out.append((t, "go"))
        elif t.pending.deadline is not None and t.pending.deadline <= s.now:
            out.append((t, "timeout"))
    return out


class Env(object):
    """an environment choice that looks like a thread to the schedule policies"""

    def __init__(self, name, idx, payload):
        self.name, self.idx, self.payload = name, idx, payload
        self.done = False
        self.pending = None


def run_impl(reqs, bg, chooser, lines=False, max_steps=6000, max_bg_loops=12, eof=False, callbacks=False, fixture=None):
    """One execution of the real code.  chooser(list_of_choices, sched) -> choice.
    Returns dict(trace, stalls, hangs, outcome, fx-derived facts)."""
    fx = (fixture or Fixture)(reqs, bg, lines, callbacks)
    s = fx.sched
    trace = []
    stalls = []      # (thread, where, received_by, woke_after_publication, req)
    problems = []    # (key, message)
    bg_loops = 0
    pub_step = {}    # request -> step at which its result was published
    wake_step = {}   # thread name -> step of its last completed blocking operation (poll / condition wait)
    seen_stall = set()
    lost_seen = False
    eof_done = False
    try:
        steps = 0
        while True:
            steps += 1
            if steps > max_steps:
                problems.append(("livelock", "no termination within %d steps" % max_steps))
                break
            if all(t.done for t in fx.clients.values()):
                break
            th = thread_choices(s)
            cl = [c for c in th if c[0] is not fx.bg]
            peer = [] if eof_done else fx.peer_choices()
            if eof and not eof_done and fx.sent_requests():
                peer = peer + [("*eof*", -1)]
            bg_sleeping = fx.bg is not None and not fx.bg.done and fx.bg.pending.kind == "sleep"
            bg_can = [c for c in th if c[0] is fx.bg]
            if bg_sleeping and bg_loops < max_bg_loops:
                bg_can = [(fx.bg, "timeout")]
            if not cl and (fx.bg is None or fx.bg.done or bg_sleeping):
                # no thread can take a step: only further traffic or a timeout can release whoever still waits
                for name, t in fx.clients.items():
                    if t.done:
                        continue
                    r = next((x for x in fx.reqs[name] if x not in fx.outcome), None)
                    if r is not None and fx.sleeps_past_publication(name, r) and (name, r) not in seen_stall:
                        seen_stall.add((name, r))
                        woke = wake_step.get(name, -1) > pub_step.get(r, 10 ** 9)
                        holder = fx.conn._recvlock.owner if fx.white else None
                        held = isinstance(holder, sim.SimThread) and holder is not t and not holder.done
                        stalls.append((name, t.pending.kind, received_by(fx, r), woke, r, held))
                frames_left, _ = sim.split_frames(fx.net.a.inbox)
                if frames_left and not lost_seen and not (fx.bg is not None and not fx.bg.done and
                                                          fx.white and fx.conn._recvlock.owner is None):
                    lost_seen = True
                    problems.append(("lost-wakeup", "a reply frame is available but every thread sleeps "
                                     "(receive lock %s)" % (fx.owner(fx.conn._recvlock) if fx.white else "?")))
            if not cl and not peer and (fx.bg is None or fx.bg.done or bg_sleeping):
                # ... and nothing is to come: the (30 s) timeouts run out
                far = []
                for name, t in fx.clients.items():
                    if t.done:
                        continue
                    r = next((x for x in fx.reqs[name] if x not in fx.outcome), None)
                    if r is not None and not fx.is_ready(r):
                        problems.append(("hang", "%s waits for %s whose reply was never processed although nothing is "
                                         "outstanding (blocked in %s)" % (name, r, t.pending.kind)))
                    if t.pending.deadline is not None:
                        far.append(t.pending.deadline)
                if not far:
                    problems.append(("deadlock", "threads blocked forever: " + "; ".join(
                        "%s at %r" % (n, t.pending) for n, t in fx.clients.items() if not t.done)))
                    break
                s.now = max(s.now, min(far))
                trace.append({"t": "env", "op": "stall_timeout"})
                continue
            if not cl and not bg_can and not peer:
                problems.append(("deadlock", "nobody can act"))
                break
            choices = cl + bg_can + [(Env("peer", 1000 + i, (r, seq)), "go") for i, (r, seq) in enumerate(peer)]
            c = chooser(choices, s)
            if isinstance(c[0], Env) and c[0].payload[0] == "*eof*":
                # the peer goes away: the transport reports end-of-stream from now on
                eof_done = True
                fx.net.b._closed = True
                trace.append({"t": "peer", "op": "eof"})
                continue
            if isinstance(c[0], Env):
                r, seq = c[0].payload
                fx.peer_reply(r, seq)
                trace.append({"t": "peer", "op": "reply", "r": r})
                continue
            t, wake = c
            kind = fx.kind(t)
            if kind == "sleep":
                bg_loops += 1
                s.now = max(s.now, t.pending.deadline)
            op_obj = t.pending.obj
            s.step(t, wake)
            if kind == "set_ready":
                for tn, lst in fx.created.items():
                    if op_obj in lst and tn in fx.reqs and lst.index(op_obj) < len(fx.reqs[tn]):
                        pub_step[fx.reqs[tn][lst.index(op_obj)]] = steps
            elif kind in ("poll", "cond_blocked"):
                wake_step[t.name] = steps
            if kind == "line":
                continue
            ev = {"t": t.name, "op": kind, "wake": wake}
            if fx.white:
                ev["recvlock"] = fx.owner(fx.conn._recvlock)
                ev["condlock"] = fx.owner(fx.conn._recv_event._lock)
            trace.append(ev)
        if getattr(fx, "pool", None):
            # serving-only threads may be in the middle of a dispatch when the last client is done: they go on until they sleep
            for _ in range(3000):
                mine = [c for c in thread_choices(s) if c[0] in fx.pool.values()]
                if not mine:
                    break
                s.step(*mine[0])
        for extra in getattr(fx, "drain_threads", ()):
            # threads of the program that have work left when the clients are done (serve_threaded() joining its workers and
            # closing the connection on its way out): let them, and whoever they wait for, finish
            for _ in range(3000):
                if extra.done:
                    break
                mine = [c for c in thread_choices(s) if c[0] not in fx.clients.values()]
                if not mine:
                    break
                s.step(*mine[0])
        if callbacks and fx.bg is not None:
            # the clients have their results; the background thread may still be inside the dispatch of the last reply (the
            # callbacks run after the result is published): let it finish that before the callbacks are counted
            for _ in range(400):
                if fx.bg.done or fx.bg.pending.kind == "sleep":
                    break
                mine = [c for c in thread_choices(s) if c[0] is fx.bg]
                if not mine:
                    break
                s.step(*mine[0])
        out = {"trace": trace, "stalls": stalls, "problems": problems, "outcome": dict(fx.outcome), "eof": eof_done,
               "cb_log": list(fx.cb_log), "callbacks": callbacks,
               "closed": bool(getattr(fx.conn, "closed", False)),
               "dispatch_count": dict(fx.dispatch_count), "seqs": [q for _, q in fx.sent_requests()],
               "transit_left": list(getattr(fx.conn, "_replies_in_transit", ())),
               "white": fx.white, "excs": {n: repr(t.exc) for n, t in fx.clients.items() if t.exc is not None}}
        return out
    finally:
        fx.close()


def received_by(fx, r):
    """name of the thread that read the reply frame of request r off the transport"""
    order = list(fx.replied)
    bodies = [who for (who, n) in fx.net.a.read_log if n != 5]
    try:
        i = order.index(r)
        return bodies[i]
    except (ValueError, IndexError):
        return None


def judge(res, reqs):
    """-> (c13 problems [(key,msg)], c14 stalls [(key,msg)])"""
    c13 = list(res["problems"])
    for t, rs in reqs.items():
        for r in rs:
            o = res["outcome"].get(r)
            if o is None:
                if not any(k in ("deadlock", "livelock", "hang") for k, _ in c13):
                    c13.append(("incomplete", "request %s of %s never completed" % (r, t)))
            elif r.endswith("x"):
                if o[0] != "exc" or not o[1].startswith("ValueError") or tag(r) not in o[1]:
                    c13.append(("error-as-value", "request %s of %s, which the peer answered with an exception (ValueError %s), completed "
                                "with %r" % (r, t, tag(r), o)))
            elif o[0] == "exc":
                c13.append(("lost-reply", "request %s of %s failed with %s although the peer answered it" % (r, t, o[1])))
            elif o[1] != tag(r):
                c13.append(("crossed", "request %s of %s completed with the reply %r of another request" % (r, t, o[1])))
    for n, e in res["excs"].items():
        c13.append(("exception", "thread %s died with %s" % (n, e)))
    for seq, n in res["dispatch_count"].items():
        if n != 1:
            c13.append(("dispatch-count", "incoming frame with seq %s dispatched %d times" % (seq, n)))
    if len(set(res["seqs"])) != len(res["seqs"]):
        c13.append(("seq-reuse", "sequence numbers reused: %s" % (res["seqs"],)))
    c14 = []
    for (t, where, rb, woke, r, held) in res["stalls"]:
        w = {"poll": "poll", "cond_blocked": "cond"}.get(where, where)
        if rb is not None and rb != t and not woke and (w == "poll" or (w == "cond" and held)):
            key = "stall:handoff:" + w
        else:
            key = "stall:%s:%s" % ("own" if rb == t else ("woke" if woke else "other"), w)
        c14.append((key, "waiter %s sleeps in %s (until further traffic or its timeout) although the reply to %s was already "
                    "processed (frame received by %s; waiter woke from a blocking call after the publication: %s; receive lock "
                    "held by another thread: %s)" % (t, where, r, rb, woke, held)))
    return c13, c14


def judge_eof(res, reqs, want=None, must_close=False):
    """C11 for a connection shared by threads: once the stream has ended nobody hangs, every request either got its own reply
    or fails with EOFError, and the connection is closed"""
    bad = []
    for key, msg in res["problems"]:
        if key in ("hang", "deadlock", "livelock", "lost-wakeup"):
            bad.append(("eof-" + key, "after the stream ended: " + msg))
    for t, rs in reqs.items():
        for r in rs:
            o = res["outcome"].get(r)
            if o is None:
                if not bad:
                    bad.append(("eof-incomplete", "after the stream ended request %s of %s never completed" % (r, t)))
            elif o[0] == "exc":
                if not (o[1].startswith("EOFError") or (r.endswith("x") and o[1].startswith("ValueError"))):
                    bad.append(("eof-wrong-exception", "request %s of %s failed with %s, not EOFError, when the stream ended" % (r, t, o[1])))
            elif o[1] != (want(r) if want else tag(r)):
                bad.append(("eof-crossed", "request %s of %s completed with %r" % (r, t, o[1])))
    for n, e in res["excs"].items():
        bad.append(("eof-exception", "thread %s died with %s" % (n, e)))
    if must_close and res.get("eof") and not res.get("closed"):
        bad.append(("eof-not-closed", "the stream ended and serve_threaded() is over, yet the connection does not report closed"))
    # whether the connection's own `closed` flag is set is judged by the single-threaded runs of C11: here a request whose
    # *send* hits the dead transport is told so by the write path, which closes the stream and leaves the flag to the next serve()
    return bad


def explore_eof(chk, cfgname, on_bad, n_random=60, configs=None, fixture=None, want=None):
    """the peer vanishes at an arbitrary moment while several threads use the connection"""
    cfg = (configs or CONFIGS)[cfgname]
    rnd = random.Random(chk.seed * 7919 + sum(map(ord, cfgname)))
    n = 0
    for i in range(n_random):
        if i % 3 == 2:
            ch = pct_chooser(random.Random(rnd.random()), depth=rnd.choice([1, 2, 3]), horizon=rnd.choice([30, 60, 150]))
        else:
            ch = random_chooser(random.Random(rnd.random()), rnd.choice([0.0, 0.5, 0.85]))
        res = run_impl(cfg["reqs"], cfg["bg"], ch, eof=True, fixture=fixture or fixture_of(cfg))
        chk.evaluated()
        n += 1
        bad = judge_eof(res, cfg["reqs"], want, must_close=bool(cfg.get("serve_threaded")))
        chk.distinct(("eof-sched", cfgname, tuple((e.get("t"), e.get("op"), e.get("wake")) for e in res["trace"])))
        if bad:
            on_bad(bad, {"mode": "eof-indices", "config": cfgname, "indices": ch.record})
        else:
            chk.validated()
        if n % 100 == 0:
            gc.collect()
    chk.cov["eof_runs_%s" % cfgname] = n
    return n


CONFIGS = {
    "2": dict(reqs={"t1": ["a1", "a2"], "t2": ["b1"]}, bg=False),
    "2s": dict(reqs={"t1": ["a1"], "t2": ["b1"]}, bg=False),
    "2bg": dict(reqs={"t1": ["a1"], "t2": ["b1"]}, bg=True),
    "1bg": dict(reqs={"t1": ["a1", "a2"]}, bg=True),
    "3": dict(reqs={"t1": ["a1"], "t2": ["b1"], "t3": ["c1"]}, bg=False),
    "3bg": dict(reqs={"t1": ["a1", "a2"], "t2": ["b1", "b2"], "t3": ["c1"]}, bg=True),
    # requests whose names end in x fail on the peer (line-preemption exploration only)
    "2x": dict(reqs={"t1": ["a1x", "a2"], "t2": ["b1x"]}, bg=False),
    "2bgx": dict(reqs={"t1": ["a1x"], "t2": ["b1"]}, bg=True),
    # serve_threaded(): threads that only serve, in a blocking loop, next to threads that issue requests
    "2p": dict(reqs={"t1": ["a1"], "t2": ["b1"]}, bg=False, pool=("p1",)),
    "1pp": dict(reqs={"t1": ["a1", "a2"]}, bg=False, pool=("p1", "p2")),
    "2pp": dict(reqs={"t1": ["a1"], "t2": ["b1"]}, bg=False, pool=("p1", "p2")),
    # the real Connection.serve_threaded(2) running in a thread of the program (C11: it closes the connection on every way out)
    "2st": dict(reqs={"t1": ["a1"], "t2": ["b1"]}, bg=False, serve_threaded=2),
}


def tla_consts(cfg, prefix="TV"):
    th = sorted(cfg["reqs"])
    defs = ['%sClients == {%s}' % (prefix, ", ".join('"%s"' % t for t in th))]
    cases = ['t = "%s" -> <<%s>>' % (t, ", ".join('"%s"' % r for r in cfg["reqs"][t])) for t in th]
    defs.append('%sReqs == [t \\in %sClients |-> CASE %s]' % (prefix, prefix, " [] ".join(cases)))
    pool = sorted(cfg.get("pool", ()))
    defs.append('%sPool == {%s}' % (prefix, ", ".join('"%s"' % t for t in pool)))
    lines = ["Clients <- %sClients" % prefix, "Reqs <- %sReqs" % prefix, 'Bg = "%s"' % ("bg" if cfg["bg"] else "none"),
             "Pool <- %sPool" % prefix, "Handoff = %s" % ("TRUE" if handoff_repaired() else "FALSE")]
    return "\n".join(defs), lines


def handoff_repaired():
    """does the working tree's serve() have the hand-off repair (serve(..., until=...))?  The specification has both variants."""
    import inspect
    from rpyc.core.protocol import Connection
    try:
        return "until" in inspect.signature(Connection.serve).parameters
    except (TypeError, ValueError):
        return False


INVS = ["RecvMutex", "CondMutex", "DispatchedOnce", "ReplyMatches", "Completed", "NoLostWakeup", "NoHang",
        "WillBeWoken", "OnlyKnownStalls"]


def invs():
    """with the hand-off repair the property holds as stated: no stall at all"""
    return INVS + (["NoStall"] if handoff_repaired() else [])


# --------------------------------------------------------------------------- choosers
def random_chooser(rng, stick):
    def choose(choices, s):
        ch = sim._order(s, choices)
        if stick and ch[0][0] is s.last and rng.random() < stick:
            i = 0
        else:
            i = rng.randrange(len(ch))
        choose.record.append(i)
        return ch[i]
    choose.record = []
    return choose


def pct_chooser(rng, depth=3, horizon=400):
    """PCT-style: random thread priorities, the highest-priority choice runs; `depth` random priority change points"""
    prio = {}
    changes = set(rng.sample(range(horizon), depth))

    def choose(choices, s):
        ch = sim._order(s, choices)
        k = len(choose.record)
        for c in ch:
            if c[0].name not in prio:
                prio[c[0].name] = rng.random()
        if k in changes:
            prio[ch[0][0].name] = -rng.random()      # demote whoever would run now
        best = max(range(len(ch)), key=lambda i: (prio[ch[i][0].name], -i))
        choose.record.append(best)
        return ch[best]
    choose.record = []
    return choose


def line_preempt_chooser(point, occurrence, seen=None, budget=400):
    """no preemption, except: when the running thread is about to execute source line `point` = (function name, line offset)
    for the `occurrence`-th time it is set aside and everybody else runs until blocked (or `budget` steps); then it goes on.
    seen: optional set collecting every (function, offset) a thread stopped at."""
    state = {"count": 0, "held": None, "left": 0}

    def choose(choices, s):
        ch = sim._order(s, choices)
        i = 0
        cur = ch[0][0]
        op = getattr(cur, "pending", None)
        info = getattr(op, "info", None) if op is not None and getattr(op, "kind", None) == "line" else None
        if seen is not None:
            for c in ch:
                o = getattr(c[0], "pending", None)
                if o is not None and getattr(o, "kind", None) == "line" and getattr(o, "info", None):
                    seen.add(tuple(o.info))
        if state["held"] is None and info is not None and tuple(info) == tuple(point) and cur is s.last:
            state["count"] += 1
            if state["count"] == occurrence:
                state["held"], state["left"] = cur, budget
        if state["held"] is not None:
            others = [k for k, c in enumerate(ch) if c[0] is not state["held"]]
            if others and state["left"] > 0:
                state["left"] -= 1
                i = others[0]
            else:
                state["held"] = False          # released for good
        choose.record.append(i)
        return ch[i]
    choose.record = []
    return choose


def judge_callbacks(res, reqs):
    """C15 with threads: a callback registered on a result that gets its reply runs exactly once - also when the reply is
    dispatched by another thread while the callback is being registered"""
    bad = []
    if not res.get("callbacks"):
        return bad
    for t, rs in reqs.items():
        for r in rs:
            o = res["outcome"].get(r)
            if o is None:
                continue
            n = res["cb_log"].count(r)
            if n != 1:
                bad.append(("callback-count", "the callback registered on the result of %s (outcome %r) ran %d time(s)" % (r, o, n)))
    return bad


def explore_line_preemptions(chk, cfgname, on_result, max_points=None, callbacks=False, fixture=None, configs=None):
    """every source line of serve / _dispatch / AsyncResult.__call__ / wait / value ... as the one place where the running thread
    is set aside while the others run: the schedules in which a reader sees a half-finished update"""
    cfg = (configs or CONFIGS)[cfgname]
    seen = set()
    ch = line_preempt_chooser(("", -1), 1, seen)
    res = run_impl(cfg["reqs"], cfg["bg"], ch, lines=True, callbacks=callbacks, fixture=fixture or fixture_of(cfg))
    on_result(res, cfg, {"mode": "indices", "config": cfgname, "lines": True, "indices": ch.record, "callbacks": callbacks})
    # a second discovery run with random switching sees the lines of paths the straight run does not take
    rr = random_chooser(random.Random(chk.seed + 5), 0.5)
    seen2 = set()

    def spy(choices, s):
        for c in sim._order(s, choices):
            o = getattr(c[0], "pending", None)
            if o is not None and getattr(o, "kind", None) == "line" and getattr(o, "info", None):
                seen2.add(tuple(o.info))
        return rr(choices, s)
    spy.record = rr.record
    res = run_impl(cfg["reqs"], cfg["bg"], spy, lines=True, callbacks=callbacks, fixture=fixture or fixture_of(cfg))
    on_result(res, cfg, {"mode": "indices", "config": cfgname, "lines": True, "indices": rr.record, "callbacks": callbacks})
    points = sorted(seen | seen2)
    if max_points is not None and len(points) > max_points:
        random.Random(chk.seed + 11).shuffle(points)
        points = sorted(points[:max_points])
    n = 0
    for pt in points:
        for occ in (1, 2, 3):
            ch = line_preempt_chooser(pt, occ)
            res = run_impl(cfg["reqs"], cfg["bg"], ch, lines=True, callbacks=callbacks, fixture=fixture or fixture_of(cfg))
            on_result(res, cfg, {"mode": "indices", "config": cfgname, "lines": True, "indices": ch.record, "callbacks": callbacks})
            n += 1
            if n % 100 == 0:
                gc.collect()
    chk.cov["line_preemptions_%s%s" % (cfgname, "_cb" if callbacks else "")] = {"points": len(points), "runs": n}
    return n


def index_chooser(indices, bound=None):
    def choose(choices, s):
        ch = sim._order(s, choices)
        if bound is not None and s.preemptions >= bound and ch[0][0] is s.last:
            ch = ch[:1]
        i = len(choose.record)
        idx = indices[i] if i < len(indices) else 0
        if idx >= len(ch):
            idx = 0
        choose.record.append(idx)
        choose.trace.append((len(ch), idx))
        return ch[idx]
    choose.record = []
    choose.trace = []
    return choose


def dfs(run_one, max_runs, bound):
    prefix = []
    n = 0
    while True:
        ch = index_chooser(prefix, bound)
        res = run_one(ch)
        n += 1
        yield n, ch, res
        tr = ch.trace
        while tr and tr[-1][1] + 1 >= tr[-1][0]:
            tr.pop()
        if not tr or n >= max_runs:
            return
        prefix = [i for _, i in tr[:-1]] + [tr[-1][1] + 1]


# --------------------------------------------------------------------------- spec -> code
def replay_graph(chk, cfgname, max_paths, on_problem):
    cfg = CONFIGS[cfgname]
    defs, lines = tla_consts(cfg, "G")
    d = os.path.join(OUT, "serve.%d" % os.getpid())
    os.makedirs(d, exist_ok=True)
    root = "G_RpycServe"
    with open(os.path.join(d, root + ".tla"), "w") as f:
        f.write("---- MODULE %s ----\nEXTENDS RpycServe\n%s\n====\n" % (root, defs))
    with open(os.path.join(d, root + ".cfg"), "w") as f:
        f.write("SPECIFICATION Spec\nCONSTANTS\n" + "\n".join("  " + x for x in lines) + "\n" +
                "\n".join("INVARIANT " + i for i in invs()) + "\n")
    dot = os.path.join(d, "graph")
    res = tlc.run_tlc(root, root + ".cfg", workers=8, dump=dot, cwd=d, jvm_props=["TLA-Library=" + tlc.SPEC])
    tlc.require_ok(res, "RpycServe graph dump")
    if res.violation:
        raise tlc.MachineryError("RpycServe violated %s in graph config %s" % (res.violation, cfgname))
    chk.add_tlc(res, "RpycServe state graph for transition cover (%s)" % cfgname)
    g = tlc.load_dot(dot + ".dot")
    import shutil
    shutil.rmtree(d, ignore_errors=True)
    paths = tlc.edge_cover_paths(g)
    rnd = random.Random(chk.seed)
    if len(paths) > max_paths:
        rnd.shuffle(paths)
        paths = paths[:max_paths]
    covered = set()
    for pi, path in enumerate(paths):
        fx = fixture_of(cfg)(cfg["reqs"], cfg["bg"])
        s = fx.sched
        bg_budget = [40]
        try:
            cur = path[0]
            ok = True
            for (label, dst) in path[1:]:
                s0, s1 = g.nodes[cur], g.nodes[dst]
                if s0 == s1:
                    cur = dst
                    continue
                try:
                    if label.startswith("PeerReply"):
                        r = label.split('"')[1]
                        seq = dict(fx.sent_requests())[r]
                        fx.peer_reply(r, seq)
                    elif label.startswith("Expire"):
                        far = [t.pending.deadline for t in fx.clients.values()
                               if not t.done and t.pending.deadline is not None]
                        if not far:
                            raise KeyError("no timer to expire")
                        s.now = max(s.now, min(far))
                    else:
                        import re as _re
                        m = _re.match(r'\w+\("(\w+)"', label)
                        if m and m.group(1) in s0["pc"]:
                            actor = [m.group(1)]
                        else:
                            actor = [t for t in s0["pc"] if s0["pc"][t] != s1["pc"][t]]
                        if len(actor) != 1:
                            raise tlc.MachineryError("cannot identify actor on edge %s" % label)
                        t = s.thread(actor[0])
                        if t.done:
                            raise KeyError("thread %s already finished" % t.name)
                        wake = "go"
                        if label.startswith("TimeoutWake") or t.pending.kind == "sleep":
                            s.now = max(s.now, t.pending.deadline)
                            wake = "timeout"
                        elif not t.pending.is_enabled():
                            if t.pending.deadline is not None and t.pending.deadline <= s.now:
                                wake = "timeout"
                            else:
                                raise KeyError("thread %s blocked at %r" % (t.name, t.pending))
                        s.step(t, wake)
                except (KeyError, sim.Deadlock) as ex:
                    ok = False
                    chk.drift.append("serve path %d step %s: %r" % (pi, label, ex))
                    break
                chk.evaluated()
                mism = compare(fx, s1) if ok else None
                if mism:
                    ok = False
                    chk.drift.append("serve path %d after %s: %s" % (pi, label, mism))
                if ok:
                    covered.add((cur, label, dst))
                    chk.distinct(("edge", cfgname, cur, label, dst))
                cur = dst
            if ok:
                chk.validated()
            if pi < 1:
                chk.sample({"kind": "TLC path replayed into the code", "config": cfgname,
                            "steps": [lab for lab, _ in path[1:]][:80]})
            # the schedule prefix is completed (peer answers everything, no further preemption) and judged
            try:
                for _ in range(3000):
                    if all(t.done for t in fx.clients.values()):
                        break
                    th = [c for c in thread_choices(s) if c[0] is not fx.bg]
                    if th:
                        s.step(*sim._order(s, th)[0])
                        continue
                    pc_ = fx.peer_choices()
                    if pc_:
                        fx.peer_reply(*pc_[0])
                        continue
                    if fx.bg is not None and not fx.bg.done and (bg_budget[0] > 0 or fx.bg.pending.kind != "sleep"):
                        b = fx.bg
                        if b.pending.kind == "sleep":
                            bg_budget[0] -= 1
                        if b.pending.is_enabled():
                            s.step(b, "go")
                        elif b.pending.deadline is not None:
                            s.now = max(s.now, b.pending.deadline)
                            s.step(b, "timeout")
                        continue
                    dl = [t.pending.deadline for t in fx.clients.values() if not t.done and t.pending.deadline is not None]
                    if not dl:
                        on_problem("deadlock", "threads blocked forever after a TLC path (%s)" % [
                            (n, repr(t.pending)) for n, t in fx.clients.items() if not t.done],
                            {"mode": "tlc-path", "config": cfgname, "labels": [lab for lab, _ in path[1:]]})
                        break
                    s.now = max(s.now, min(dl))
            except sim.Deadlock as ex:
                on_problem("deadlock", "%s (after a TLC path)" % ex, {"mode": "tlc-path", "config": cfgname,
                                                                      "labels": [lab for lab, _ in path[1:]]})
            for rr in [x for t_ in fx.reqs.values() for x in t_]:
                if rr not in fx.outcome and all(t.done for t in fx.clients.values()):
                    on_problem("incomplete", "request %s never completed (TLC path replay)" % rr,
                               {"mode": "tlc-path", "config": cfgname, "labels": [lab for lab, _ in path[1:]]})
            for seq_, n_ in fx.dispatch_count.items():
                if n_ != 1:
                    on_problem("dispatch-count", "incoming frame with seq %s dispatched %d times (TLC path replay)" % (seq_, n_),
                               {"mode": "tlc-path", "config": cfgname, "labels": [lab for lab, _ in path[1:]]})
            for r, o in fx.outcome.items():
                if o[0] == "ok" and o[1] != tag(r):
                    on_problem("crossed", "request %s completed with reply %r (TLC path replay)" % (r, o[1]),
                               {"mode": "tlc-path", "config": cfgname, "labels": [lab for lab, _ in path[1:]]})
                if o[0] == "exc":
                    on_problem("lost-reply", "request %s failed with %s (TLC path replay)" % (r, o[1]),
                               {"mode": "tlc-path", "config": cfgname, "labels": [lab for lab, _ in path[1:]]})
        finally:
            fx.close()
        if pi % 200 == 199:
            gc.collect()
    return len(paths), len(covered), g.nedges


def compare(fx, st):
    if not fx.white:
        return None
    p = fx.project()
    if p["recvlock"] != st["recvlock"]:
        return "recvlock %s vs spec %s" % (p["recvlock"], st["recvlock"])
    if p["condlock"] != st["condlock"]:
        return "condlock %s vs spec %s" % (p["condlock"], st["condlock"])
    if p["sent"] != sorted(st["sent"]):
        return "sent %s vs spec %s" % (p["sent"], sorted(st["sent"]))
    if p["waiters"] != sorted(st["waiters"]):
        return "waiters %s vs spec %s" % (p["waiters"], sorted(st["waiters"]))
    if p["nchan"] != len(st["chan"]):
        return "frames available %d vs spec %d" % (p["nchan"], len(st["chan"]))
    for r, v in p["ready"].items():
        if v != st["ready"][r]:
            return "ready[%s] %s vs spec %s" % (r, v, st["ready"][r])
    if p["transit"] is not None and "transit" in st and p["transit"] != st["transit"]:
        return "replies in transit %s vs spec %s" % (p["transit"], st["transit"])
    for t in fx.sched.threads:
        k = fx.kind(t)
        pc = st["pc"][t.name]
        if k is None:
            if pc != "done":
                return "thread %s finished vs spec pc %s" % (t.name, pc)
        elif pc not in KIND2PC.get(k, ()):
            return "thread %s at %s vs spec pc %s" % (t.name, k, pc)
    return None


# --------------------------------------------------------------------------- code -> spec
def explore(chk, cfgname, n_random, dfs_runs, dfs_bound, lines, on_result):
    cfg = CONFIGS[cfgname]
    rnd = random.Random(chk.seed * 104729 + sum(map(ord, cfgname)))
    traces = []
    n = 0
    for i in range(n_random):
        if i % 3 == 2:
            ch = pct_chooser(random.Random(rnd.random()), depth=rnd.choice([1, 2, 3]), horizon=rnd.choice([60, 150, 400]))
        else:
            ch = random_chooser(random.Random(rnd.random()), rnd.choice([0.0, 0.5, 0.85, 0.97]))
        res = run_impl(cfg["reqs"], cfg["bg"], ch, lines=lines, fixture=fixture_of(cfg))
        on_result(res, cfg, {"mode": "indices", "config": cfgname, "lines": lines, "indices": ch.record})
        traces.append(res["trace"])
        n += 1
        if n % 100 == 0:
            gc.collect()
    if dfs_runs:
        for k, ch, res in dfs(lambda c: run_impl(cfg["reqs"], cfg["bg"], c, fixture=fixture_of(cfg)), dfs_runs, dfs_bound):
            on_result(res, cfg, {"mode": "indices", "config": cfgname, "lines": False, "indices": ch.record})
            traces.append(res["trace"])
            n += 1
            if n % 100 == 0:
                gc.collect()
    return traces


def validate(chk, cfgname, traces, selftest=True):
    cfg = CONFIGS[cfgname]
    defs, lines = tla_consts(cfg)
    traces = [t for t in traces if t]
    if not traces:
        return
    batch = list(traces)
    n_real = len(batch)
    if selftest:
        base = max(traces, key=len)
        k = next((i for i, e in enumerate(base) if e.get("op") == "notify_all"), None)
        if k is not None:
            bad1 = [dict(e) for e in base]
            bad1[k] = dict(bad1[k], recvlock="bogus")
            bad2 = [dict(e) for e in base]
            del bad2[k]
            batch += [bad1, bad2]
    out, res = tlc.validate_traces("Trace_RpycServe", batch, defs, lines, invariants=invs(), name="serve_" + cfgname)
    chk.add_tlc(res, "trace validation batch (RpycServe, %s)" % cfgname)
    viol = res.violation
    if selftest and len(batch) > n_real:
        for j in range(n_real, len(batch)):
            if out[j] is not None and out[j][0] == out[j][1]:
                raise tlc.MachineryError("self-test: corrupted trace was accepted by Trace_RpycServe")
    acc = 0
    for j in range(n_real):
        if out[j] is None:
            continue
        if out[j][0] == out[j][1]:
            acc += 1
        else:
            chk.drift.append("serve trace %d of %s rejected at event %d/%d: %r" % (
                j, cfgname, out[j][0] + 1, out[j][1], traces[j][out[j][0]] if out[j][0] < len(traces[j]) else None))
    chk.validated(acc)
    chk.cov["impl_traces"] = chk.cov.get("impl_traces", 0) + n_real
    chk.cov["impl_traces_accepted"] = chk.cov.get("impl_traces_accepted", 0) + acc
    chk.sample({"kind": "implementation trace (accepted by TLC: %s)" % (out[0] is not None and out[0][0] == out[0][1]),
                "config": cfgname, "events": traces[0][:60]})
    return viol, res
