"""C15 - asynchronous results: one final outcome, callbacks once, timeouts exact (spec: RpycAsync).

TLC checks the specification exhaustively (T = 3, five timeout values, <= 4 operations, all orders of reply arrival,
unrelated traffic, expiry and queries) and generates behaviours by simulation; every behaviour is replayed on a real
AsyncResult attached to a real Connection in virtual time, against a scripted peer, and the log of what the program
observes (operation, result, instant) must equal the specification's `obs`.  Behaviours that begin with
set_expiry + wait are additionally driven through sync_request (configured timeout) and timed().
"""
import gc
import random
import struct

from harness import sim, tlc
from harness.common import Check, main_wrapper

PID = "C15"
NONE_T = -99
BUSY = 2


def frame(payload):
    return struct.pack("!LB", len(payload), 0) + payload + b"\n"


class Fixture(object):
    """program side P (real Connection on net.a) against a raw peer that the driver scripts"""

    def __init__(self, mode="async", cfg_timeout=30):
        import rpyc
        from rpyc.core import consts, brine, netref
        from rpyc.core.channel import Channel
        self.consts, self.brine = consts, brine
        fx = self
        self.sched = s = sim.make_sched()
        self.undo_time = sim.patch_time(s)
        self.simtime = sim.SimTime(s)
        self.net = sim.Net(s)

        class Svc(rpyc.Service):
            def exposed_slow(self, d):
                fx.simtime.sleep(d)
                return d

        self.conn = Svc()._connect(Channel(self.net.a, compress=False), {"sync_request_timeout": cfg_timeout})
        sim.simulate_conn_locks(s, self.conn, "P")
        self.mode = mode
        self.t_base = 0.0
        self.obs = []
        self.spins = 0
        self.fired = []
        self.ncb = 0
        self.res = None
        self.cmds = []
        self.prog = s.spawn("P", self._loop)
        self.fake_fn = netref.builtin_classes_cache["builtins.function"](self.conn, ("builtins.function", 11, 22))
        # learn the id of P's root object the way a peer would
        self.inject((consts.MSG_REQUEST, 900, (consts.HANDLE_GETROOT, (consts.LABEL_TUPLE, ()))))
        self.cmds.append(("serve",))
        self.settle()
        frs, _ = sim.split_frames(self.net.a.written)
        msg, seq, args = brine.load(frs[-1][5:-1])
        self.root_id = args[1]
        self.nwritten = len(frs)

    def _loop(self):
        s = self.sched
        while True:
            s.yield_op("idle", self, enabled=lambda: bool(self.cmds))
            cmd = self.cmds.pop(0)
            if cmd[0] == "stop":
                return
            if cmd[0] == "serve":
                self.conn.serve(0)
                continue
            name, fn = cmd[1], cmd[2]
            try:
                r = fn()
            except BaseException as ex:  # noqa
                if isinstance(ex, sim.SimAbort):
                    raise
                r = "timeout" if isinstance(ex, TimeoutError) else "exc:" + type(ex).__name__
            if name is not None:
                self.obs.append((name, r, int(round(s.now - self.t_base))))

    @property
    def idle(self):
        return not self.prog.done and self.prog.pending is not None and self.prog.pending.kind == "idle"

    def settle(self):
        """let every managed thread react to what is visible at the current instant (no time passes)"""
        s = self.sched
        for n in range(100000):
            if n and n % 3000 == 0:
                # a thread spins without time passing (e.g. polling with a zero timeout at the very instant of its
                # expiry): real clocks move on, so let a sliver of virtual time pass
                s.now += 0.001
                self.spins += 1
            ch = []
            for t in s.live():
                if t.pending.is_enabled():
                    ch.append((t, "go"))
                elif t.pending.deadline is not None and t.pending.deadline <= s.now:
                    ch.append((t, "timeout"))
            if not ch:
                return
            s.step(*ch[0])
        raise sim.StepLimit("settle")

    def inject(self, msg):
        self.net.a.inbox += frame(self.brine.dump(msg))

    # -- program operations
    def do(self, name, fn):
        self.cmds.append(("do", name, fn))
        self.settle()

    def create(self, expiry=None):
        c = self.consts
        if self.mode == "timed":
            import rpyc
            self.do(None, lambda: setattr(self, "res", rpyc.timed(self.fake_fn, expiry)("data")))
        elif self.mode == "timed_late":
            # the wrapper is made long before it is used: the time limit counts from each invocation, not from then
            import rpyc
            self.do(None, lambda: setattr(self, "wrapper", rpyc.timed(self.fake_fn, expiry)))
            self.sched.now += 1000.0
            self.t_base = self.sched.now
            self.do(None, lambda: setattr(self, "res", self.wrapper("data")))
        elif self.mode == "areq":
            self.do(None, lambda: setattr(self, "res", self.conn.async_request(
                c.HANDLE_PING, "data", timeout=None if expiry == NONE_T else expiry)))
        else:
            self.do(None, lambda: setattr(self, "res", self.conn.async_request(c.HANDLE_PING, "data")))
        frs, _ = sim.split_frames(self.net.a.written)
        self.req_seq = self.brine.load(frs[-1][5:-1])[1]

    def op(self, label):
        c = self.consts
        name = label.split("(")[0]
        if name == "SetExpiry":
            t = int(label.split("(")[1].rstrip(")"))
            self.do("set_expiry", lambda: (self.res.set_expiry(None if t == NONE_T else t), t)[1])
        elif name == "AddCallback":
            # callbacks are numbered as they are registered; a chaining one registers one more on the same result when it runs
            self.ncb += 1
            idx = self.ncb
            if "chain" in label:
                def cb(r, i=idx):
                    self.fired.append(i)
                    self.ncb += 1
                    self.res.add_callback(lambda r2, j=self.ncb: self.fired.append(j))
            else:
                def cb(r, i=idx):
                    self.fired.append(i)
            self.do("add_callback", lambda: (self.res.add_callback(cb), len(self.fired))[1])
        elif name == "QExpired":
            self.do("expired", lambda: bool(self.res.expired))
        elif name == "QReady":
            self.do("ready", lambda: bool(self.res.ready))
        elif name == "PollOther":
            self.do("poll", lambda: bool(self.conn.poll()))
        elif name == "StartWait":
            self.do("wait", lambda: (self.res.wait(), "ok")[1])
        elif name == "Tick":
            self.sched.now += 1.0
            self.settle()
        elif name == "ReplyArrives":
            self.inject((c.MSG_REPLY, self.req_seq, (c.LABEL_VALUE, "data")))
            self.settle()
        elif name == "OtherArrives":
            boxed = (c.LABEL_TUPLE, ((c.LABEL_LOCAL_REF, self.root_id), (c.LABEL_VALUE, "slow"), (c.LABEL_VALUE, (BUSY,)),
                                     (c.LABEL_VALUE, ())))
            self.inject((c.MSG_REQUEST, 901, (c.HANDLE_CALLATTR, boxed)))
            self.settle()
        elif name == "QuickArrives":
            self.inject((c.MSG_REQUEST, 902, (c.HANDLE_PING, (c.LABEL_TUPLE, ((c.LABEL_VALUE, "unrelated"),)))))
            self.settle()
        elif name in ("WaitReturn", "WaitTimeout", "WaitServe", "BusyDone", "Done", "Init"):
            pass
        else:
            raise tlc.MachineryError("unknown action " + label)

    def close(self):
        self.sched.abort()
        self.undo_time()


def norm_obs(obs):
    return [(o[0], o[1], o[2]) for o in obs]


def replay(chk, beh, mode="async"):
    """returns list of (key, message) disagreements between the code and the specification"""
    labels = [l for l, _ in beh]
    first_exp = None
    if mode in ("sync", "timed", "timed_late", "areq"):
        first_exp = int(labels[1].split("(")[1].rstrip(")"))
    fx = Fixture(mode=mode if mode in ("timed", "timed_late", "areq") else "async")
    bad = []
    try:
        if mode in ("timed", "timed_late", "areq"):
            fx.create(expiry=first_exp)
            fx.obs.append(("set_expiry", first_exp, 0))
            start = 2
        else:
            fx.create()
            start = 1
        for i in range(start, len(beh)):
            label, st = beh[i]
            fx.op(label)
            chk.evaluated()
            spec_obs = [tuple(o) for o in st["obs"]]
            got = norm_obs(fx.obs)
            # the specification says the wait is over at this instant, so it must be over in the code too
            if st["prog"] == "idle" and not fx.idle:
                bad.append(("late", "after %s the specification has the program back from its wait at t=%s (%s), the code is still "
                            "waiting (blocked at %r)" % (labels[1:i + 1], st["now"], spec_obs[-1:] , fx.prog.pending)))
                break
            # compare when the program is at rest in both
            if st["prog"] == "idle" and fx.idle:
                if got != spec_obs:
                    bad.append(("obs", "after %s the program observed %s, the specification says %s" % (
                        labels[1:i + 1], got, spec_obs)))
                    break
                if list(st["fired"]) != fx.fired:
                    bad.append(("callbacks", "after %s callbacks ran as %s, the specification says %s" % (
                        labels[1:i + 1], fx.fired, list(st["fired"]))))
                    break
        return bad, labels
    finally:
        fx.close()


def replay_sync(chk, beh):
    """set_expiry(t) + wait at time 0 == sync_request with sync_request_timeout = t"""
    labels = [l for l, _ in beh]
    t = int(labels[1].split("(")[1].rstrip(")"))
    fx = Fixture(cfg_timeout=None if t == NONE_T else t)
    c = fx.consts
    bad = []
    try:
        fx.cmds.append(("do", "wait", lambda: (fx.conn.sync_request(c.HANDLE_PING, "data"), "ok")[1]))
        fx.settle()
        frs, _ = sim.split_frames(fx.net.a.written)
        fx.req_seq = fx.brine.load(frs[-1][5:-1])[1]
        for i in range(3, len(beh)):
            label, st = beh[i]
            if label.split("(")[0] in ("SetExpiry", "AddCallback", "QExpired", "QReady", "StartWait", "PollOther"):
                if any(o[0] == "wait" for o in fx.obs):
                    break         # the synchronous request is over; later operations need an AsyncResult
                continue
            fx.op(label)
            chk.evaluated()
            if any(o[0] == "wait" for o in fx.obs):
                break
        spec = [tuple(o) for o in beh[-1][1]["obs"] if o[0] == "wait"]
        got = [o for o in norm_obs(fx.obs) if o[0] == "wait"]
        interfering = any(l.split("(")[0] in ("SetExpiry",) for l in labels[3:])
        if fx.idle and spec and not interfering and got != spec[:1]:
            bad.append(("sync", "sync_request with configured timeout %s: observed %s, async_request+expiry semantics give %s "
                        "(events %s)" % (t, got, spec[:1], labels[3:])))
        return bad, labels
    finally:
        fx.close()


def slow_callback_elsewhere(chk, rnd):
    """two threads on one connection: t1's result has a callback that takes 10 s (user code); t2 waits for its own reply with a
    5 s expiry; t1's reply comes first and t1 itself dispatches it (so t1 sits in the callback); t2's reply arrives at t = 2.
    t2 is idle - not serving anything - so its wait must end at t = 2 with the value (not at 5 with the time-out, not at 10)."""
    from harness.drivers import serve_common as svc
    bad = []
    ran_in = []

    class Fx(svc.Fixture):
        def _client(self, t):
            r = self.reqs[t][0]
            try:
                if t == "t1":
                    res = self.conn.async_request(self.consts.HANDLE_PING, svc.tag(r))
                    self.results[r] = res
                    res.add_callback(lambda ar: (ran_in.append(self.sched.current().name), sim.SimTime(self.sched).sleep(10)))
                    res.wait()
                    self.outcome[r] = ("ok", res.value)
                else:
                    res = self.conn.async_request(self.consts.HANDLE_PING, svc.tag(r), timeout=5)
                    self.results[r] = res
                    self.outcome[r] = ("ok", res.value)
            except BaseException as ex:  # noqa
                if isinstance(ex, sim.SimAbort):
                    raise
                self.outcome[r] = ("exc", type(ex).__name__)
            self.done_at[r] = self.sched.now

    fx = Fx({"t1": ["a1"], "t2": ["b1"]}, False)
    s = fx.sched
    try:
        def settle():
            for _ in range(5000):
                en = [t for t in s.live() if t.pending.is_enabled()]
                if not en:
                    return
                s.step(en[rnd.randrange(len(en))], "go")
            raise sim.StepLimit("slow callback scenario")
        settle()                                   # both requests are out, both threads wait
        sent = dict(fx.sent_requests())
        if set(sent) != {"a1", "b1"}:
            chk.drift.append("slow-callback scenario: requests not sent (%s)" % sorted(sent))
            return bad
        fx.peer_reply("a1", sent["a1"])
        settle()                                   # somebody dispatches a1 and sits in its callback
        s.now = 2.0
        fx.peer_reply("b1", sent["b1"])
        settle()
        for _ in range(20):                        # let the clock run: time-outs and the end of the callback
            if all(t.done for t in fx.clients.values()):
                break
            live = [t for t in s.live() if t.pending.deadline is not None]
            if not live:
                break
            s.now = max(s.now, min(t.pending.deadline for t in live))
            for t in live:
                if t.pending.deadline <= s.now and not t.pending.is_enabled():
                    s.step(t, "timeout")
            settle()
        chk.evaluated()
        if ran_in[:1] != ["t1"]:
            return bad                             # t2 dispatched a1 itself: it was busy serving, nothing is demanded
        o, at = fx.outcome.get("b1"), fx.done_at.get("b1")
        if o != ("ok", svc.tag("b1")) or at is None or abs(at - 2.0) > 1e-6:
            bad.append(("threads:held-up-by-callback", "t2 waits (expiry 5 s) for a reply that arrives at t = 2 s while t1 runs a 10 s "
                        "callback of another result: t2 ended with %r at t = %s instead of its value at t = 2" % (o, at)))
        else:
            chk.validated()
        return bad
    finally:
        fx.close()


def main():
    chk = Check(PID)
    gc.disable()
    res = tlc.require_ok(tlc.run_tlc("MC_RpycAsync", "MC_RpycAsync.cfg" if chk.thorough else "MC_RpycAsync_q.cfg",
                                     coverage=True, timeout=3000), "MC_RpycAsync")
    if res.violation:
        raise tlc.MachineryError("specification RpycAsync violates " + res.violation)
    chk.add_tlc(res, "exhaustive: T=3, timeouts {none,-1,0,1,2}, <=%d operations, reply/unrelated traffic at any instant"
                % (4 if chk.thorough else 3))
    for a in ("Tick", "ReplyArrives", "OtherArrives", "QuickArrives", "SetExpiry", "AddCallback", "QExpired", "QReady", "PollOther", "StartWait",
              "WaitReturn", "WaitTimeout", "WaitServe", "BusyDone"):
        if res.coverage.get(a, (0, 0))[1] == 0:
            raise tlc.MachineryError("vacuity: action %s never taken" % a)
    if chk.replay:
        import json
        rep = json.load(open(chk.replay))["replay"]
        behs, _ = tlc.simulate_behaviours("MC_RpycAsync", "MC_RpycAsync.cfg", rep["num"], rep["depth"], rep["seed"])
        beh = behs[rep["index"]]
        bad, labels = (replay_sync(chk, beh) if rep["mode"] == "sync" else replay(chk, beh, rep["mode"]))
        for key, msg in bad:
            print("VIOLATION property=%s replay=%s\n   %s" % (PID, chk.replay, msg))
        return 1 if bad else 0
    # focused model (set_expiry + wait only): the whole state graph is covered, so every ordering of reply, unrelated
    # traffic (slow and instant) and expiry around a wait is executed
    import os
    import shutil
    from harness.common import OUT
    d = os.path.join(OUT, "c15.%d" % os.getpid())
    os.makedirs(d, exist_ok=True)
    gres = tlc.run_tlc("MC_RpycAsync", "MC_RpycAsync_wait.cfg", workers=8, dump=os.path.join(d, "graph"))
    tlc.require_ok(gres, "RpycAsync wait-focused graph")
    chk.add_tlc(gres, "wait-focused model (set_expiry, wait; reply / slow / instant unrelated traffic): full graph")
    g = tlc.load_dot(os.path.join(d, "graph.dot"))
    shutil.rmtree(d, ignore_errors=True)
    quiet = ("WaitReturn", "WaitTimeout", "WaitServe", "BusyDone", "Tick")
    paths = tlc.event_then_quiet_paths(g, lambda lab: lab.split("(")[0] not in quiet + ("Done",), quiet)
    prnd = random.Random(chk.seed)
    maxp = 10 ** 6
    if len(paths) > maxp:
        prnd.shuffle(paths)
        paths = paths[:maxp]
    for pi, path in enumerate(paths):
        beh = [("Init", g.nodes[path[0]])] + [(lab, g.nodes[dst]) for lab, dst in path[1:]]
        labels = [l for l, _ in beh]
        modes = ["async"]
        if len(labels) > 2 and labels[1].startswith("SetExpiry") and beh[1][1]["now"] == 0:
            t0 = int(labels[1].split("(")[1].rstrip(")"))
            modes.append("areq")
            if labels[2] == "StartWait":
                modes.append("sync")
            if t0 >= 0:
                modes += ["timed", "timed_late"]
        for mode in modes:
            bad, labels = (replay_sync(chk, beh) if mode == "sync" else replay(chk, beh, mode))
            chk.distinct(("wait-graph", mode, tuple(labels)))
            if not bad:
                chk.validated()
            for key, msg in bad:
                chk.violation(key, "C15 [wait-focused, %s] %s" % (mode, msg), {"mode": "graph", "labels": labels})
        if pi % 300 == 299:
            gc.collect()
    chk.cov["wait_graph_paths"] = len(paths)
    num = 300 if not chk.thorough else 8000
    total = 0
    for rnd_i, depth in enumerate((14, 22)):
        seed = chk.seed * 2 + rnd_i + 1
        behs, sres = tlc.simulate_behaviours("MC_RpycAsync", "MC_RpycAsync.cfg", num, depth, seed)
        tlc.require_ok(sres, "simulate RpycAsync")
        chk.cov.setdefault("simulated_behaviours", 0)
        chk.cov["simulated_behaviours"] += len(behs)
        for bi, beh in enumerate(behs):
            if len(beh) < 3:
                continue
            labels = [l for l, _ in beh]
            modes = ["async"]
            if labels[1].startswith("SetExpiry"):
                modes.append("areq")
            if labels[1].startswith("SetExpiry") and len(labels) > 2 and labels[2] == "StartWait":
                modes.append("sync")
                if int(labels[1].split("(")[1].rstrip(")")) >= 0:
                    modes += ["timed", "timed_late"]
            elif labels[1].startswith("SetExpiry") and int(labels[1].split("(")[1].rstrip(")")) >= 0:
                modes += ["timed", "timed_late"]
            for mode in modes:
                bad, labels = (replay_sync(chk, beh) if mode == "sync" else replay(chk, beh, mode))
                total += 1
                chk.distinct((mode, tuple(labels)))
                if not bad:
                    chk.validated()
                for key, msg in bad:
                    chk.violation(key, "C15 [%s] %s" % (mode, msg), {"mode": mode, "num": num, "depth": depth, "seed": seed,
                                                                       "index": bi, "labels": labels})
            if bi < 2:
                chk.sample({"kind": "TLC behaviour replayed on a real AsyncResult in virtual time", "actions": labels[1:],
                            "observations": [list(o) for o in beh[-1][1]["obs"]]})
            if bi % 200 == 199:
                gc.collect()
    chk.cov["replays"] = total
    # callbacks under threads: the reply is dispatched by another thread while the callback is being registered (every source
    # line of add_callback / __call__ / serve as the forced preemption point)
    from harness.drivers import serve_common as svc

    def on_result(res, cfg, rep):
        chk.evaluated()
        bad = svc.judge_callbacks(res, cfg["reqs"])
        for key, msg in bad:
            chk.violation("threads:" + key, "C15 [reply dispatched by another thread] " + msg, rep)
        if not bad:
            chk.validated()
    for cfgname in (("2bg", "2") if not chk.thorough else ("2bg", "2", "3", "3bg")):
        svc.explore_line_preemptions(chk, cfgname, on_result, callbacks=True)
    # an idle waiter is not held up by another thread's slow callback
    srnd = random.Random(chk.seed + 77)
    for i in range(40 if not chk.thorough else 600):
        for key, msg in slow_callback_elsewhere(chk, srnd):
            chk.violation(key, "C15 " + msg, {"mode": "slow-callback", "run": i})
        if i % 100 == 99:
            gc.collect()
    chk.assumptions += [
        "virtual time: one tick = 1 s; a waiter reacts to data / expiry at the instant it happens (run-to-completion)",
        "'the reply came first' means: it was processed by a serve on the connection before the expiry instant; a frame that "
        "sits unread in the transport until after the expiry is discarded (this is what the code does and the reading taken)",
        "the ready query is only issued when no unrelated request is queued in front of the reply"]
    return chk.finish(rule="evaluations = specification steps executed on the real AsyncResult; distinct = distinct "
                      "(mode, action sequence) behaviours replayed with equal observation logs")


if __name__ == "__main__":
    main_wrapper(main)
