"""C01 - remote calls compute what a local call would, at any nesting depth (spec: RpycCallTree).

TLC checks, for every enumerated call tree (3158 trees: depth <= 3, fan-out <= 2, every placement of raises and catches),
that evaluation by two message-passing peers gives EvalLocal's answer with every reached node executed exactly once,
and exports EvalLocal for each tree.  Every tree is then instantiated as real Python closures living on two real
Connections - a node's children are passed to it as callables (references), so callees call back into their callers -
and executed; compared: the outermost result or exception (class and arguments), per-node invocation counters, the
arguments every node received (positional and keyword; plain parts equal and type-exact, references designating the
caller's objects: a mutation through them is seen by the owner).  The same closures run in one process as a second
oracle for the specification's EvalLocal.
"""
import gc
import json
import os
import random
import shutil

from harness import sim, tlc
from harness.common import Check, main_wrapper, OUT
from harness.pair import Pair

PID = "C01"
CLASSES = [ValueError, KeyError, IndexError, ZeroDivisionError, RuntimeError, TypeError, AttributeError]


def code(path):
    c = 1
    for i in path:
        c = c * 3 + i
    return c


def sub(tree, path):
    for i in path:
        tree = tree["c"][i - 1]
    return tree


def payload_for(path):
    """(positional, keyword) arguments passed when node `path` is called; lists are fresh per call"""
    k = code(path) % 8
    return [((5,), {}), (("text",), {}), ((None,), {"k": 1}), (((1, (2, "x")),), {}), (((1, [2]),), {}), (([1, 2],), {}),
            ((), {"only": 3, "other": "kw"}), ((1, "a"), {"z": (1, 2)})][k]


def is_proxy(x):
    return hasattr(type(x), "____id_pack__")


class Run(object):
    """one evaluation of a tree; remote=True: nodes alternate between the two sides of a real pair"""

    def __init__(self, tree, remote, pair=None):
        self.tree = tree
        self.remote = remote
        self.ran = {}
        self.problems = []
        self.fns = {}
        self._build(())

    def _build(self, path):
        self.fns[path] = self.make_fn(path)
        for i in range(1, len(sub(self.tree, path)["c"]) + 1):
            self._build(path + (i,))

    def check_received(self, path, pos, kw):
        epos, ekw = payload_for(path)
        if len(pos) != len(epos) or set(kw) != set(ekw):
            self.problems.append("node %s received %d positional / keywords %s, sent %d / %s" % (
                path, len(pos), sorted(kw), len(epos), sorted(ekw)))
            return
        for got, exp in list(zip(pos, epos)) + [(kw[k], ekw[k]) for k in ekw]:
            self.check_value(path, got, exp)

    def check_value(self, path, got, exp):
        if type(exp) is list:
            if self.remote and not is_proxy(got):
                self.problems.append("node %s: a list argument arrived by value" % (path,))
                return
            got.append("seen-by-%s" % code(path))       # must become visible to the owner of the list
        elif type(exp) is tuple and any(type(x) is list for x in exp):
            if type(got) is not tuple or len(got) != len(exp):
                self.problems.append("node %s: mixed tuple arrived as %r" % (path, type(got)))
                return
            for g, e in zip(got, exp):
                self.check_value(path, g, e)
        else:
            if type(got) is not type(exp) or got != exp:
                self.problems.append("node %s: argument %r arrived as %r" % (path, exp, got))

    def make_fn(self, path):
        node = sub(self.tree, path)
        run = self

        def f(*args, **kwargs):
            run.ran[path] = run.ran.get(path, 0) + 1
            k = len(node["c"])
            kids, pos = args[:k], args[k:]
            run.check_received(path, pos, kwargs)
            acc = 1
            for i in range(1, k + 1):
                if node["r"] == i - 1:
                    raise CLASSES[code(path) % len(CLASSES)](code(path))
                cpath = path + (i,)
                grand = [run.fns[cpath + (j,)] for j in range(1, len(node["c"][i - 1]["c"]) + 1)]
                cpos, ckw = payload_for(cpath)
                cpos = tuple(list(x) if type(x) is list else (tuple(list(y) if type(y) is list else y for y in x) if type(x) is tuple else x)
                             for x in cpos)
                try:
                    v = kids[i - 1](*(tuple(grand) + cpos), **ckw)
                    acc += v if type(v) is int else v[0]
                    run.check_mutation(cpath, cpos)
                except Exception as ex:  # noqa
                    c = ex.args[0] if ex.args else None
                    if type(c) is not int or not isinstance(ex, CLASSES[c % len(CLASSES)]) or type(ex).__name__ != CLASSES[c % len(CLASSES)].__name__:
                        run.problems.append("node %s: the exception of a descendant arrived as %s%r" % (path, type(ex).__name__, ex.args))
                        raise
                    if i in node["catch"]:
                        acc += 100 + c
                    else:
                        raise
            if node["r"] == k:
                raise CLASSES[code(path) % len(CLASSES)](code(path))
            return acc if code(path) % 2 else [acc]        # some nodes return their value inside a list (by reference)
        return f

    def check_mutation(self, cpath, cpos):
        for x in cpos:
            for y in (x if type(x) is tuple else (x,)):
                if type(y) is list and ("seen-by-%s" % code(cpath)) not in y:
                    self.problems.append("node %s mutated a list it received by reference, the owner does not see it" % (cpath,))


def local_eval(tree):
    run = Run(tree, remote=False)
    kids = [run.fns[(i,)] for i in range(1, len(tree["c"]) + 1)]
    pos, kw = payload_for(())
    pos = tuple(list(x) if type(x) is list else x for x in pos)
    try:
        v = run.fns[()](*(tuple(kids) + pos), **kw)
        res = (True, v if type(v) is int else v[0])
    except Exception as ex:  # noqa
        res = (False, ex.args[0], type(ex).__name__)
    return res, run


def remote_eval(tree):
    import rpyc
    run = Run(tree, remote=True)

    class Svc(rpyc.Service):
        def exposed_root(self, *args, **kwargs):
            return run.fns[()](*args, **kwargs)
    cfg = {"allow_public_attrs": True}
    p = Pair(rpyc.VoidService(), Svc(), config_a=dict(cfg), config_b=dict(cfg), patch_time=False)
    try:
        a = p.a
        root = a.call(lambda: a.conn.root.root)
        kids = [run.fns[(i,)] for i in range(1, len(tree["c"]) + 1)]
        pos, kw = payload_for(())
        pos = tuple(list(x) if type(x) is list else x for x in pos)

        def prog():
            v = root(*(tuple(kids) + pos), **kw)
            return v if type(v) is int else v[0]
        tag = object()
        a.do(tag, prog)
        if tag not in a.results:
            return ("hang", None), run
        kind, val = a.results.pop(tag)
        if kind == "ok":
            res = (True, val)
        else:
            res = (False, val.args[0] if getattr(val, "args", None) else None, type(val).__name__)
        p.settle()
        return res, run
    finally:
        p.close()


def judge(chk, row, rnd, source):
    tree = row["tree"]
    exp_ok, exp_v = row["ok"], row["v"]
    exp_ran = {tuple(p) for p in row["ran"]}
    (lres, lrun) = local_eval(tree)
    if (lres[0], lres[1]) != (exp_ok, exp_v) or set(lrun.ran) != exp_ran:
        raise tlc.MachineryError("the single-process evaluation %r / %s disagrees with the specification's EvalLocal %r for %s"
                                 % (lres, sorted(lrun.ran), (exp_ok, exp_v, sorted(exp_ran)), json.dumps(tree)))
    rres, rrun = remote_eval(tree)
    bad = []
    if rres[0] == "hang":
        bad.append(("hang", "the computation did not finish"))
    elif rres[0] != exp_ok or rres[1] != exp_v:
        bad.append(("answer", "the two peers computed %r, one process computes %r" % (rres, lres)))
    elif not exp_ok and rres[2] != lres[2]:
        bad.append(("exception-class", "the outermost caller got %s, locally it is %s" % (rres[2], lres[2])))
    for p_ in set(rrun.ran) | exp_ran:
        n = rrun.ran.get(p_, 0)
        if n != (1 if p_ in exp_ran else 0):
            bad.append(("ran", "node %s ran %d times (a local evaluation runs it %d time(s))" % (p_, n, 1 if p_ in exp_ran else 0)))
    for msg in rrun.problems:
        bad.append(("args", msg))
    return bad


def random_tree(rnd, depth):
    k = rnd.choice([0, 1, 1, 2, 2, 3]) if depth > 0 else 0
    kids = [random_tree(rnd, depth - 1) for _ in range(k)]
    r = rnd.choice([-1, -1, -1] + list(range(0, k + 1)))
    catch = [i for i in range(1, k + 1) if rnd.random() < 0.4]
    return {"c": kids, "r": r, "catch": catch}


def main():
    chk = Check(PID)
    gc.disable()
    rnd = random.Random(chk.seed + 1)
    d = os.path.join(OUT, "c01.%d" % os.getpid())
    os.makedirs(d, exist_ok=True)
    f1 = os.path.join(d, "trees.ndjson")
    res = tlc.require_ok(tlc.run_tlc("RpycCallTree", "MC_RpycCallTree.cfg", coverage=True, env={"OUT_FILE": f1}, timeout=3000),
                         "RpycCallTree")
    if res.violation:
        raise tlc.MachineryError("RpycCallTree violates " + res.violation)
    chk.add_tlc(res, "message-passing evaluation = local recursion, exactly-once, for all 3158 enumerated call trees")
    rows = [json.loads(l) for l in open(f1)]
    shutil.rmtree(d, ignore_errors=True)
    if chk.replay:
        rep = json.load(open(chk.replay))["replay"]
        row = next(r for r in rows if r["tree"] == rep["tree"]) if rep.get("source") == "tlc" else None
        if row is None:
            lres, lrun = local_eval(rep["tree"])
            row = {"tree": rep["tree"], "ok": lres[0], "v": lres[1], "ran": [list(p) for p in lrun.ran]}
        bad = judge(chk, row, rnd, "replay")
        for key, msg in bad:
            print("VIOLATION property=%s replay=%s\n   %s" % (PID, chk.replay, msg))
        return 1 if bad else 0
    if not chk.thorough:
        rnd.shuffle(rows)
        deep = [r for r in rows if any(len(p) >= 3 for p in r["ran"])]
        rows = rows[:900] + deep[:150]
    n = 0
    for row in rows:
        bad = judge(chk, row, rnd, "tlc")
        n += 1
        chk.evaluated()
        chk.distinct(("tree", json.dumps(row["tree"], sort_keys=True)))
        if not bad:
            chk.validated()
        for key, msg in bad:
            chk.violation(key, "C01 %s [tree %s]" % (msg, json.dumps(row["tree"])), {"source": "tlc", "tree": row["tree"]})
        if n % 400 == 1:
            chk.sample({"kind": "call tree executed on two real peers", "tree": row["tree"], "expected": [row["ok"], row["v"]]})
        if n % 100 == 0:
            gc.collect()
    # beyond the enumerated set: deeper and wider random trees, judged by the single-process evaluation
    for i in range(60 if not chk.thorough else 1500):
        t = random_tree(rnd, rnd.choice([3, 4, 5]))
        lres, lrun = local_eval(t)
        if len(lrun.ran) > 60:
            continue
        row = {"tree": t, "ok": lres[0], "v": lres[1], "ran": [list(p) for p in lrun.ran]}
        bad = judge(chk, row, rnd, "random")
        chk.evaluated()
        chk.distinct(("rtree", json.dumps(t, sort_keys=True)))
        for key, msg in bad:
            chk.violation(key, "C01 %s [random tree %s]" % (msg, json.dumps(t)), {"source": "random", "tree": t})
        if i % 50 == 49:
            gc.collect()
    chk.cov["trees_executed"] = n
    chk.assumptions += ["node bodies are pure apart from counters; exceptions are built-in classes carrying the node's code",
                        "argument shapes: int, text, None+keyword, nested tuple, tuple mixing value and list, list, keyword-only, "
                        "mixed positional+keyword; half of the nodes return their value inside a list (by reference)"]
    return chk.finish(rule="evaluations = call trees executed on two real Connections and compared with EvalLocal; distinct = trees")


if __name__ == "__main__":
    main_wrapper(main)
