"""C19 - bytes on the wire are those of the published 5.x protocol (spec: RpycWire).

The specification is the independent reference: tag table, shortest-form rule, frame layout and the numeric values of
message kinds, boxing labels and handler numbers are literals in spec/RpycWire.tla.
1. constants: what TLC exports is compared with rpyc.core.consts and the Channel class attributes.
2. vectors: the specification's universe and seeded random values (all length classes) are compared byte for byte with
   brine.dump - not merely round-tripped, which is what defeats a self-consistent renumbering.
3. frames: Channel.send output for sizes around the compression threshold and the chunk size is parsed with the layout
   of the specification (4-byte big-endian length, flag, payload, newline; zlib only above the threshold).
4. conversation: a reference peer whose every frame is computed by TLC (Enc of the message tuple) talks to a real
   Connection - GETROOT, GETATTR, CALLATTR with each boxing label, PING, an exception, DEL, CLOSE - and every frame the
   real side emits is decoded by the specification's decoder and compared structurally; in the other direction a real
   client Connection drives a reference server whose replies are computed by TLC.
"""
import gc
import json
import random
import struct
import zlib

from harness import sim, tlc
from harness import wire_common as wc
from harness.common import Check, main_wrapper
from harness.drivers.c04 import rand_plain

PID = "C19"


def frame(payload):
    return struct.pack("!LB", len(payload), 0) + payload + b"\n"


def check_constants(chk, const):
    from rpyc.core import consts, channel
    n = 0
    for group, prefix in (("msg", "MSG_"), ("label", "LABEL_"), ("handle", "HANDLE_")):
        for name, val in const[group].items():
            n += 1
            chk.evaluated()
            got = getattr(consts, prefix + name, None)
            if got != val:
                chk.violation("const:%s%s" % (prefix, name), "C19 %s%s is %r, the published value is %r" % (prefix, name, got, val),
                              {"const": prefix + name})
        impl_names = {k[len(prefix):] for k in dir(consts) if k.startswith(prefix)}
        extra = impl_names - set(const[group])
        missing = set(const[group]) - impl_names
        if extra or missing:
            chk.violation("const:set:" + group, "C19 the set of %s constants differs from the published one (extra %s, missing %s)"
                          % (prefix, sorted(extra), sorted(missing)), {})
    if consts.EXC_STOP_ITERATION != const["exc_stop_iteration"]:
        chk.violation("const:EXC_STOP_ITERATION", "C19 EXC_STOP_ITERATION is %r" % consts.EXC_STOP_ITERATION, {})
    ch = channel.Channel
    if ch.COMPRESSION_THRESHOLD != const["threshold"]:
        chk.violation("const:threshold", "C19 compression threshold %r, published %r" % (ch.COMPRESSION_THRESHOLD, const["threshold"]), {})
    if ch.FLUSHER != bytes([const["flusher"]]):
        chk.violation("const:flusher", "C19 flusher %r" % (ch.FLUSHER,), {})
    if ch.FRAME_HEADER.size != 5 or ch.FRAME_HEADER.pack(258, 1) != b"\x00\x00\x01\x02\x01":
        chk.violation("const:header", "C19 frame header layout is not 4-byte big-endian length + flag byte", {})
    return n


class RecStream(object):
    MAX_IO_CHUNK = 64000

    def __init__(self):
        self.buf = bytearray()
        self.closed = False

    def write(self, data):
        self.buf += data

    def close(self):
        self.closed = True


def _inflate(body):
    try:
        return zlib.decompress(body)
    except zlib.error:
        return None


def check_frames(chk, const, rnd):
    from rpyc.core.channel import Channel
    n = 0
    th = const["threshold"]
    for size in (0, 1, 5, th - 1, th, th + 1, th + 500, 63993, 63994, 63995, 64000, 70000):
        for kind in ("zeros", "random"):
            for comp in (True, False):
                data = bytes(size) if kind == "zeros" else bytes(rnd.getrandbits(8) for _ in range(size))
                st = RecStream()
                Channel(st, compress=comp).send(data)
                raw = bytes(st.buf)
                n += 1
                chk.evaluated()
                chk.distinct(("frame", size, kind, comp))
                bad = None
                if len(raw) < 6:
                    bad = "frame shorter than header + flusher"
                else:
                    ln = int.from_bytes(raw[:4], "big")
                    flag = raw[4]
                    body = raw[5:-1]
                    want_flag = 1 if (comp and size > th) else 0
                    if ln != len(body):
                        bad = "length field %d but %d payload bytes" % (ln, len(body))
                    elif raw[-1:] != bytes([const["flusher"]]):
                        bad = "no trailing newline"
                    elif flag != want_flag:
                        bad = "compression flag %d for %d bytes with compression %s (threshold %d)" % (flag, size, comp, th)
                    elif flag == 1 and _inflate(body) != data:
                        bad = "compressed payload does not decompress to the data"
                    elif flag == 0 and body != data:
                        bad = "payload differs from the data"
                if bad:
                    chk.violation("frame:%s" % bad.split()[0], "C19 Channel.send of %d %s bytes (compress=%s): %s" % (size, kind, comp, bad),
                                  {"size": size, "kind": kind, "comp": comp})
                else:
                    chk.validated()
    # and the receiving side accepts what a conforming sender emits
    from rpyc.core.channel import Channel as Ch

    class FeedStream(RecStream):
        def __init__(self, data):
            RecStream.__init__(self)
            self.data = data

        def read(self, count):
            out, self.data = self.data[:count], self.data[count:]
            if len(out) < count:
                raise EOFError()
            return out
    for size in (0, 3, th, th + 1, 20000):
        data = bytes(rnd.getrandbits(2) for _ in range(size))
        for flag in (0, 1):
            body = zlib.compress(data, 6) if flag else data      # any zlib level is conforming
            raw = struct.pack("!LB", len(body), flag) + body + b"\n"
            got = Ch(FeedStream(raw)).recv()
            n += 1
            chk.evaluated()
            if got != data:
                chk.violation("frame:recv", "C19 Channel.recv of a conforming frame (flag %d, %d bytes) returned different data" % (flag, size), {})
    return n


def D(v):
    return wc.to_desc(v)


class Conversation(object):
    """a real Connection (net.a) against a reference peer whose frames are encoded / decoded by TLC"""

    def __init__(self, role):
        import rpyc
        from rpyc.core.channel import Channel
        self.sched = s = sim.make_sched()
        self.undo = sim.patch_time(s)
        self.net = sim.Net(s)
        conv = self

        class Svc(rpyc.Service):
            exposed_greeting = "hello"

            def exposed_add(self, a, b):
                return a + b

            def exposed_mklist(self):
                return conv.thelist

            def exposed_fail(self):
                raise ValueError("boom", 42)

            def exposed_apply(self, fn, x):
                return fn(x)
        self.thelist = [1, 2, 3]
        self.conn = Svc()._connect(Channel(self.net.a, compress=False), {})
        sim.simulate_conn_locks(s, self.conn, "R")
        self.nread = 0
        if role == "server":
            self.thread = s.spawn("R", self._serve)
            s.settle()

    def _serve(self):
        try:
            self.conn.serve_all()
        except BaseException as ex:  # noqa
            if isinstance(ex, sim.SimAbort):
                raise

    def feed(self, payload):
        self.net.a.inbox += frame(payload)
        self.sched.settle()

    def emitted(self):
        frs, _ = sim.split_frames(self.net.a.written)
        out = [f[5:-1] for f in frs[self.nread:]]
        self.nread = len(frs)
        return out

    def close(self):
        self.sched.abort()
        self.undo()


def tlc_enc(msgs, name):
    out, _, _, res = wc.tlc_batch([{"id": i, "kind": "enc", "v": D(m)} for i, m in enumerate(msgs, 1)], name=name)
    return [bytes(out[i]["bytes"]) for i in range(1, len(msgs) + 1)], res


def tlc_dec(payloads, name):
    out, _, _, res = wc.tlc_batch([{"id": i, "kind": "dec", "b": list(p)} for i, p in enumerate(payloads, 1)], name=name)
    vals = []
    for i in range(1, len(payloads) + 1):
        r = out[i]["res"]
        vals.append(wc.from_desc(r["v"]) if r["ok"] and not r["rest"] else None)
    return vals, res


def conversation_server(chk, const):
    """reference client (TLC-encoded frames) -> real server Connection"""
    M, L, H = const["msg"], const["label"], const["handle"]
    V = lambda x: (L["VALUE"], x)   # noqa
    T = lambda *xs: (L["TUPLE"], tuple(xs))   # noqa
    cv = Conversation("server")
    bad = []
    try:
        # round 1: PING, GETROOT
        enc, res = tlc_enc([(M["REQUEST"], 1, (H["PING"], T(V("payload")))), (M["REQUEST"], 2, (H["GETROOT"], T()))], "c19a")
        chk.add_tlc(res, "conversation round 1: request frames encoded by the specification")
        for p in enc:
            cv.feed(p)
        dec, res = tlc_dec(cv.emitted(), "c19b")
        chk.add_tlc(res, "conversation round 1: the real side's frames decoded by the specification")
        if len(dec) != 2 or dec[0] != (M["REPLY"], 1, (L["VALUE"], "payload")):
            bad.append("PING: real side answered %r" % (dec[:1],))
        root_id = None
        if len(dec) == 2 and dec[1] is not None and dec[1][0] == M["REPLY"] and dec[1][1] == 2 and dec[1][2][0] == L["REMOTE_REF"]:
            root_id = dec[1][2][1]
            if not (type(root_id) is tuple and len(root_id) == 3 and type(root_id[0]) is str and type(root_id[1]) is int):
                bad.append("GETROOT: object identifier %r is not (name, int, int)" % (root_id,))
        else:
            bad.append("GETROOT: real side answered %r" % (dec[1:2],))
        if root_id is not None:
            R = (L["LOCAL_REF"], root_id)
            msgs = [(M["REQUEST"], 3, (H["GETATTR"], T(R, V("greeting")))),
                    (M["REQUEST"], 4, (H["CALLATTR"], T(R, V("add"), V((2, 3)), V(())))),
                    (M["REQUEST"], 5, (H["CALLATTR"], T(R, V("mklist"), V(()), V(())))),
                    (M["REQUEST"], 6, (H["CALLATTR"], T(R, V("fail"), V(()), V(())))),
                    (M["REQUEST"], 7, (H["CALLATTR"], T(R, V("add"), T(V("a"), V("b")), V(())))),
                    (M["REQUEST"], 8, (H["HASH"], T(R))),
                    (M["REQUEST"], 9, (H["GETATTR"], T(R, V("_nope"))))]
            enc, res = tlc_enc(msgs, "c19c")
            chk.add_tlc(res, "conversation round 2 encoded")
            for p in enc:
                cv.feed(p)
            dec, res = tlc_dec(cv.emitted(), "c19d")
            chk.add_tlc(res, "conversation round 2 decoded")
            want = {3: (M["REPLY"], (L["VALUE"], "hello")), 4: (M["REPLY"], (L["VALUE"], 5)), 7: (M["REPLY"], (L["VALUE"], "ab"))}
            byseq = {d[1]: d for d in dec if d is not None}
            for seq, (k, val) in want.items():
                d = byseq.get(seq)
                if d is None or d[0] != k or d[2] != val:
                    bad.append("request %d: real side answered %r, expected kind %d value %r" % (seq, d, k, val))
            d = byseq.get(5)
            list_id = None
            if d is None or d[0] != M["REPLY"] or d[2][0] != L["REMOTE_REF"]:
                bad.append("mklist: expected a REMOTE_REF reply, got %r" % (d,))
            else:
                list_id = d[2][1]
            d = byseq.get(6)
            if d is None or d[0] != M["EXCEPTION"] or not (type(d[2]) is tuple and d[2][0] == ("builtins", "ValueError") and d[2][1] == ("boom", 42)):
                bad.append("fail(): expected an EXCEPTION message carrying (('builtins','ValueError'), ('boom', 42), ...), got %r" % (d,))
            d = byseq.get(8)
            if d is None or d[0] != M["REPLY"] or d[2][0] != L["VALUE"] or type(d[2][1]) is not int:
                bad.append("HASH: got %r" % (d,))
            d = byseq.get(9)
            if d is None or d[0] != M["EXCEPTION"]:
                bad.append("GETATTR of a private name: expected EXCEPTION, got %r" % (d,))
            if list_id is not None:
                Lr = (L["LOCAL_REF"], list_id)
                msgs = [(M["REQUEST"], 10, (H["CALLATTR"], T(Lr, V("__len__"), V(()), V(())))),
                        (M["REQUEST"], 11, (H["STR"], T(Lr))),
                        (M["REQUEST"], 12, (H["DEL"], T(Lr, V(1)))),
                        (M["REQUEST"], 13, (H["CALLATTR"], T(Lr, V("__len__"), V(()), V(())))),
                        (M["REQUEST"], 14, (H["CLOSE"], T()))]
                enc, res = tlc_enc(msgs, "c19e")
                chk.add_tlc(res, "conversation round 3 encoded")
                for p in enc:
                    cv.feed(p)
                dec, res = tlc_dec(cv.emitted(), "c19f")
                chk.add_tlc(res, "conversation round 3 decoded")
                byseq = {d[1]: d for d in dec if d is not None}
                if byseq.get(10, (None,))[0] != M["REPLY"] or byseq[10][2] != (L["VALUE"], 3):
                    bad.append("len(list) through a local reference: %r" % (byseq.get(10),))
                if byseq.get(11, (None,))[0] != M["REPLY"] or byseq[11][2] != (L["VALUE"], "[1, 2, 3]"):
                    bad.append("STR: %r" % (byseq.get(11),))
                if byseq.get(12, (None,))[0] != M["REPLY"]:
                    bad.append("DEL: %r" % (byseq.get(12),))
                if byseq.get(13, (None,))[0] != M["EXCEPTION"]:
                    bad.append("use after DEL must fail: %r" % (byseq.get(13),))
                if not cv.conn.closed:
                    bad.append("CLOSE request did not close the connection")
        return bad
    finally:
        cv.close()


def conversation_client(chk, const):
    """real client Connection -> reference server (TLC decodes the requests, TLC encodes the replies)"""
    M, L, H = const["msg"], const["label"], const["handle"]
    cv = Conversation("client")
    bad = []
    results = {}
    s = cv.sched
    try:
        def prog():
            c = cv.conn
            results["ping"] = c.sync_request(H["PING"], "x" * 10)
            root = c.root
            results["attr"] = root.val
            results["call"] = root.method(1, (2, "three"), key=4.5)
            try:
                root.broken()
            except Exception as ex:  # noqa
                results["exc"] = (type(ex).__name__, ex.args)
        t = s.spawn("C", prog)
        root_id = ("mod.Root", 111, 222)
        meth_id = ("builtins.method", 333, 444)
        broken_id = ("builtins.method", 333, 555)
        steps = 0
        seen = []
        while not t.done and steps < 40:
            steps += 1
            s.settle()
            reqs = cv.emitted()
            if not reqs:
                break
            dec, res = tlc_dec(reqs, "c19g%d" % steps)
            chk.add_tlc(res, "client conversation: requests of the real side decoded by the specification")
            replies = []
            for d in dec:
                seen.append(d)
                if d is None or d[0] != M["REQUEST"]:
                    bad.append("the real client emitted something that is not a REQUEST per the format: %r" % (d,))
                    continue
                seq, (handler, args) = d[1], d[2]
                if handler == H["PING"]:
                    data = args[1][0] if args[0] == L["VALUE"] else args[1][0][1]
                    replies.append((M["REPLY"], seq, (L["VALUE"], data)))
                elif handler == H["GETROOT"]:
                    replies.append((M["REPLY"], seq, (L["REMOTE_REF"], root_id)))
                elif handler == H["INSPECT"]:
                    replies.append((M["REPLY"], seq, (L["VALUE"], (("method", None), ("broken", "doc")))))
                elif handler == H["GETATTR"]:
                    name = args[1][1][1]
                    if name == "val":
                        replies.append((M["REPLY"], seq, (L["VALUE"], (1, "two"))))
                    elif name == "broken":
                        replies.append((M["REPLY"], seq, (L["REMOTE_REF"], broken_id)))
                    else:
                        replies.append((M["REPLY"], seq, (L["REMOTE_REF"], meth_id)))
                elif handler == H["CALLATTR"]:
                    tgt, name, a, kw = args[1]
                    if name[1] == "method":
                        ok = tgt == (L["LOCAL_REF"], root_id) and a == (L["VALUE"], (1, (2, "three"))) and kw == (L["VALUE"], (("key", 4.5),))
                        if not ok:
                            bad.append("CALLATTR request layout: target %r args %r kwargs %r" % (tgt, a, kw))
                        replies.append((M["REPLY"], seq, (L["VALUE"], "called")))
                    else:
                        replies.append((M["EXCEPTION"], seq, (("builtins", "KeyError"), ("k",), (), "remote tb")))
                elif handler == H["CALL"]:
                    tgt, a, kw = args[1]
                    if tgt == (L["LOCAL_REF"], broken_id):
                        replies.append((M["EXCEPTION"], seq, (("builtins", "KeyError"), ("k",), (), "remote tb")))
                    else:
                        ok = tgt == (L["LOCAL_REF"], meth_id) and a == (L["VALUE"], (1, (2, "three"))) and kw == (L["VALUE"], (("key", 4.5),))
                        if not ok:
                            bad.append("CALL request layout: target %r args %r kwargs %r" % (tgt, a, kw))
                        replies.append((M["REPLY"], seq, (L["VALUE"], "called")))
                elif handler == H["DEL"]:
                    replies.append((M["REPLY"], seq, (L["VALUE"], None)))
                else:
                    replies.append((M["EXCEPTION"], seq, (("builtins", "ValueError"), ("unexpected handler %r" % (handler,),), (), "tb")))
            enc, res = tlc_enc(replies, "c19h%d" % steps)
            chk.add_tlc(res, "client conversation: replies encoded by the specification")
            for p in enc:
                cv.net.a.inbox += frame(p)
        s.settle()
        if results.get("ping") != "x" * 10:
            bad.append("PING reply not understood: %r" % (results.get("ping"),))
        if results.get("attr") != (1, "two"):
            bad.append("value reply not understood: %r" % (results.get("attr"),))
        if results.get("call") != "called":
            bad.append("method call through the reference server: %r" % (results.get("call"),))
        if results.get("exc", (None,))[0] != "KeyError" or results["exc"][1] != ("k",):
            bad.append("exception message from a conforming peer: %r" % (results.get("exc"),))
        return bad
    finally:
        cv.close()


def main():
    chk = Check(PID)
    gc.disable()
    rnd = random.Random(chk.seed + 19)
    from rpyc.core import brine
    _, uni, const, res = wc.tlc_batch([], universe=True, laws=True, name="c19uni")
    chk.add_tlc(res, "universe of the specification with its encodings; laws of the format")
    chk.cov["states"] = max(1, chk.cov["states"])
    chk.cov["transitions"] = max(1, chk.cov["transitions"])
    chk.cov["constants_checked"] = check_constants(chk, const)
    for row in uni:
        if "fset" in json.dumps(row["v"]):
            continue
        v = wc.from_desc(row["v"])
        chk.evaluated()
        chk.distinct(("uni", json.dumps(row["v"], sort_keys=True)))
        try:
            got = brine.dump(v)
        except Exception as ex:
            got = repr(ex).encode()
        if got != bytes(row["bytes"]):
            chk.violation("vector:%s" % row["v"]["t"], "C19 dump(%r) emits %r, the published format says %r" % (v, got, bytes(row["bytes"])),
                          {"v": row["v"]})
        else:
            chk.validated()
    vals = []
    for i in range(1500 if not chk.thorough else 20000):
        v, pat = rand_plain(rnd)
        if isinstance(v, frozenset) or "frozenset" in repr(v):
            continue
        try:
            vals.append((v, wc.to_desc(v, pat)))
        except ValueError:
            continue
    out, _, _, res2 = wc.tlc_batch([{"id": i, "kind": "enc", "v": d} for i, (v, d) in enumerate(vals, 1)], name="c19enc")
    chk.add_tlc(res2, "Enc evaluated by TLC on %d seeded random plain values" % len(vals))
    for i, (v, d) in enumerate(vals, 1):
        chk.evaluated()
        try:
            got = brine.dump(v)
        except Exception as ex:
            got = repr(ex).encode()
        if got != bytes(out[i]["bytes"]):
            chk.violation("bytes:%s" % d["t"], "C19 dump(%s) emits %r..., the published format says %r..." % (
                repr(v)[:60], got[:30], bytes(out[i]["bytes"])[:30]), {"desc": d})
        else:
            chk.validated()
            chk.distinct(("val", i))
        # what a conforming implementation emits is accepted and means the same
        try:
            back = brine.load(bytes(out[i]["bytes"]))
            if not wc.same(back, v):
                chk.violation("accept:%s" % d["t"], "C19 load of the reference encoding of %s gives %s" % (repr(v)[:60], repr(back)[:60]),
                              {"desc": d})
        except Exception as ex:
            chk.violation("accept-raised:%s" % d["t"], "C19 load of the reference encoding of %s raised %r" % (repr(v)[:60], ex), {"desc": d})
    chk.cov["frames_checked"] = check_frames(chk, const, rnd)
    for name, fn in (("server", conversation_server), ("client", conversation_client)):
        bad = fn(chk, const)
        chk.evaluated()
        chk.distinct(("conversation", name))
        for msg in bad:
            chk.violation("conversation:%s:%s" % (name, msg.split(":")[0]), "C19 [reference peer vs real %s] %s" % (name, msg),
                          {"mode": "conversation", "role": name})
        if not bad:
            chk.validated()
    chk.sample({"kind": "vector compared byte for byte", "value": repr(vals[0][0])[:80], "bytes": list(brine.dump(vals[0][0])[:24])})
    chk.assumptions += ["the reference is the specification's literal tables, taken from the pinned 5.0 release and the documentation",
                        "zlib output is compared after decompression; frozenset encodings after decoding"]
    return chk.finish(rule="evaluations = constants, vectors, frames and conversation steps compared with the specification; "
                      "distinct = distinct vectors / frames")


if __name__ == "__main__":
    main_wrapper(main)
