"""C16 - a server keeps serving good clients correctly whatever bad clients do (spec: RpycServer)."""
import threading

from harness.common import Check, main_wrapper
from harness.drivers.c17 import run

PID = "C16"


def main():
    threading.excepthook = lambda args: None
    chk = Check(PID)
    run(chk, "c16", PID)
    extra_isolation(chk)
    from harness.drivers.forking import run_forking
    run_forking(chk, PID, "c16")
    chk.assumptions += ["misbehaving clients: random bytes, truncated packet then disconnect, absurd length field, corrupt compressed "
                        "data, garbage payload, connect-and-leave, failed authentication, half a header; stalled clients are kept "
                        "below the pool size",
                        "real sockets and threads; conditions awaited with deadlines"]
    chk.assumptions += ["schedules at statement granularity are forced with sys.monitoring breakpoints on the real server threads; one thread "
                        "is held inside a window while one other operation runs to completion"]
    return chk.finish(rule="evaluations = steps of TLC paths executed against real servers + window scenarios; distinct = (flavour, "
                      "transport, path) and (statement, phase, intruder)")


def extra_isolation(chk):
    """per-connection export tables: the object a connection hands out cannot be reached through another connection, and many
    interleaved good and bad clients leave every good client's counter intact"""
    import random
    from harness.drivers import servers_common as sc
    from rpyc.core import consts
    rnd = random.Random(chk.seed + 16)
    for flavour in ("threaded", "pool"):
        fx = sc.ServerFixture(flavour, "tcp", False)
        try:
            names = ["g%d" % i for i in range(4)]
            for n in names:
                fx.connect(n)
            lists = {n: fx.clients[n]["conn"].root.getlist() for n in names}
            ids = {n: object.__getattribute__(lists[n], "____id_pack__") for n in names}
            chk.evaluated()
            if len(set(ids.values())) != len(ids):
                chk.violation("%s:shared-object" % flavour, "C16 [%s server] two connections were handed the same object" % flavour,
                              {"flavour": flavour})
            # an identifier harvested from one connection must mean nothing on another one
            from rpyc.core import netref
            stolen = netref.builtin_classes_cache["builtins.list"](fx.clients["g0"]["conn"], ids["g1"])
            try:
                r = fx.clients["g0"]["conn"].sync_request(consts.HANDLE_STR, stolen)
                chk.violation("%s:foreign-id" % flavour, "C16 [%s server] an object exported to one client was reachable from another "
                              "client's connection (%r)" % (flavour, r), {"flavour": flavour})
            except Exception:
                chk.validated()
            object.__setattr__(stolen, "____refcount__", 0)
            counts = {n: 0 for n in names}
            for step in range(60):
                if rnd.random() < 0.35:
                    fx.misbehave(rnd.choice(["random_bytes", "truncated_packet", "huge_length", "corrupt_zlib", "garbage_payload",
                                             "connect_only", "half_header", "poison_reply"]), rnd)
                n = rnd.choice(names)
                r = fx.call(n)
                counts[n] += 1
                chk.evaluated()
                if r[0] != "ok" or r[1] != counts[n]:
                    chk.violation("%s:counter" % flavour, "C16 [%s server] after %d interleaved good and bad clients, %s's call returned "
                                  "%r, its own counter says %d" % (flavour, step, n, r, counts[n]), {"flavour": flavour})
                    break
            else:
                chk.validated()
            # more hostile answers than the server has workers (each names an exception that is not an Exception): the good
            # clients are still served afterwards, and nobody who serves them has gone
            import time as _time
            for _ in range(7):
                fx.misbehave("poison_reply", rnd)
            _time.sleep(0.3)
            for n in names:
                r = fx.call(n)
                counts[n] += 1
                chk.evaluated()
                if r[0] != "ok" or r[1] != counts[n]:
                    chk.violation("%s:after-hostile-replies" % flavour, "C16 [%s server] after 7 clients that answered the server's own "
                                  "request with SystemExit / KeyboardInterrupt / GeneratorExit, %s's call returned %r (its counter "
                                  "says %d)" % (flavour, n, r, counts[n]), {"flavour": flavour, "scenario": "hostile-replies"})
                    break
            else:
                chk.validated()
            dead = [getattr(w, "name", "?") for w in getattr(fx.server, "workers", []) if not w.is_alive()]
            if dead and not fx.closed:
                chk.violation("%s:worker-lost" % flavour, "C16 [%s server] worker threads ended while the server is running (%s): "
                              "each hostile client takes one away" % (flavour, dead), {"flavour": flavour, "scenario": "hostile-replies"})
            del lists, stolen
        finally:
            fx.teardown()


if __name__ == "__main__":
    main_wrapper(main)
