"""C13 - threads sharing a connection never cross, duplicate or lose replies (spec: RpycServe)."""
import gc

from harness import tlc
from harness.common import Check, main_wrapper
from harness.drivers import serve_common as sc
from harness.drivers import serve_nested as sn

PID = "C13"
ACTIONS = ["Start", "CWrite", "WCheck", "WFinal", "CondIn", "CondOut", "STryLock", "SWait", "SBlocked", "SPoll", "SHdr",
           "SBody", "SRelease", "SNotify", "SDispatch", "DExpired", "DPublish", "PeerReply"]


def model_check(chk, cfgs):
    for cfg, what in cfgs:
        res = tlc.require_ok(tlc.run_tlc("MC_RpycServe", cfg, coverage=True, timeout=3000), cfg)
        if res.violation:
            raise tlc.MachineryError("specification RpycServe violates %s under %s" % (res.violation, cfg))
        chk.add_tlc(res, what)
        for a in ACTIONS:
            if res.coverage.get(a, (0, 0))[1] == 0:
                raise tlc.MachineryError("vacuity: action %s never taken in %s" % (a, cfg))


def main():
    chk = Check(PID)
    gc.disable()

    def problem(key, msg, rep):
        chk.violation(key, "C13 " + msg, rep)

    def on_result(res, cfg, rep):
        chk.evaluated()
        chk.distinct(("sched", rep["config"], tuple((e.get("t"), e.get("op"), e.get("wake")) for e in res["trace"])))
        c13, c14 = sc.judge(res, cfg["reqs"])
        for key, msg in c13:
            problem(key, msg, rep)

    if chk.replay:
        import json
        rep = json.load(open(chk.replay))["replay"]
        if rep.get("mode") not in ("indices", "nested"):
            print("replay of a TLC path: rerun ./check C13")
            return 0
        if rep.get("mode") == "nested":
            cfg = sn.NCONFIGS[rep["config"]]
            res = sc.run_impl(cfg["reqs"], False, sc.index_chooser(rep["indices"]), lines=rep.get("lines", False),
                              fixture=sn.fixture_for(cfg["nested"], cfg.get("pool", ())))
            c13, _ = sn.judge(res, cfg)
        else:
            cfg = sc.CONFIGS[rep["config"]]
            res = sc.run_impl(cfg["reqs"], cfg["bg"], sc.index_chooser(rep["indices"]), lines=rep.get("lines", False))
            c13, _ = sc.judge(res, cfg["reqs"])
        for key, msg in c13:
            print("VIOLATION property=%s replay=%s\n   %s" % (PID, chk.replay, msg))
        return 1 if c13 else 0

    h = "_h" if sc.handoff_repaired() else ""       # the specification's variant that matches the working tree's serve()
    cfgs = [("MC_RpycServe_2%s.cfg" % h, "exhaustive: 2 clients (2+1 requests), no background thread"),
            ("MC_RpycServe_1bg%s.cfg" % h, "exhaustive: 1 client (2 requests) + background serving thread")]
    if chk.thorough:
        cfgs += [("MC_RpycServe_2bg%s.cfg" % h, "exhaustive: 2 clients + background serving thread"),
                 ("MC_RpycServe_3%s.cfg" % h, "exhaustive: 3 clients")]
    if h:
        # serve_threaded(): threads that only serve in a blocking loop (specified for the repaired serve())
        cfgs += [("MC_RpycServe_2p_h.cfg", "exhaustive: 2 clients + 1 thread that only serves (serve_threaded's loop)")]
        if chk.thorough:
            cfgs += [("MC_RpycServe_1pp_h.cfg", "exhaustive: 1 client (2 requests) + 2 serving-only threads"),
                     ("MC_RpycServe_2pp_h.cfg", "exhaustive: 2 clients + 2 serving-only threads")]
    model_check(chk, cfgs)
    # spec -> code
    gplan = [("2s", 1500), ("1bg", 1500)] if not chk.thorough else [("2", 12000), ("1bg", 6000), ("2bg", 6000)]
    if h:
        gplan += [("2p", 1200 if not chk.thorough else 8000)]
    for cfgname, mp in gplan:
        np_, ne, tot = sc.replay_graph(chk, cfgname, mp, problem)
        chk.cov["graph_%s" % cfgname] = {"paths": np_, "edges_covered": ne, "edges_total": tot}
    # code -> spec
    plan = [("2", 120, 500, 2, False), ("2bg", 120, 300, 2, False), ("3", 100, 300, 1, False)]
    if chk.thorough:
        plan = [("2", 500, 6000, 3, False), ("2bg", 500, 4000, 2, False), ("3", 400, 4000, 2, False),
                ("3bg", 400, 1000, 1, False), ("2", 250, 0, 0, True), ("3bg", 250, 0, 0, True)]
    if h:
        plan += [("2p", 100, 300, 2, False)] if not chk.thorough else [("2p", 400, 3000, 2, False), ("1pp", 300, 2000, 2, False),
                                                                          ("2pp", 300, 1000, 1, False)]
    for cfgname, nr, nd, bound, lines in plan:
        traces = sc.explore(chk, cfgname, nr, nd, bound, lines, on_result)
        r = sc.validate(chk, cfgname, [norm(t) for t in traces if not lines])
        if r and r[0] and r[0] not in ("OnlyKnownStalls",):
            problem("trace-invariant:" + r[0], "an implementation trace reaches a state violating %s" % r[0],
                    {"mode": "trace", "config": cfgname, "tlc": r[1].stdout[-1500:]})
    for cfgname in (("2", "2bg", "2x", "2bgx") if not chk.thorough else ("2", "2bg", "2x", "2bgx", "3", "3bg")) + (("2p",) if h else ()):
        sc.explore_line_preemptions(chk, cfgname, on_result)
    # replies that carry references: the dispatching thread makes a round trip of its own inside the dispatch (RpycServeNested)
    if sc.handoff_repaired():
        sn.model_check(chk, chk.thorough)
    sn.explore(chk, "c13", lambda k, m, r: problem("nested:" + k, "[nested round trips] " + m, r), lambda k, m, r: None, chk.thorough)
    chk.assumptions += [
        "preemption between operations on shared objects (locks, condition, transport, ready flag, dispatch entry); "
        "additionally every source line of serve/_dispatch/_seq_request_callback/_async_request/AsyncResult.wait/__call__/value as the "
        "single place where the running thread is set aside while the others run; thorough tier: random schedules at line granularity",
        "sending a request is one step (C12 covers _send); the peer answers every request, in any order",
        "virtual time: the 30 s request timeout only runs out when every thread is blocked and nothing is in flight",
        "stalls of a waiter whose reply was already processed belong to C14 and are not reported here"]
    return chk.finish(rule="evaluations = implementation steps compared with a TLC state + complete executions judged; "
                      "distinct = graph edges replayed + distinct schedules")


def norm(trace):
    out = []
    for e in trace:
        out.append({"t": e.get("t", ""), "op": e.get("op", ""), "wake": e.get("wake", ""),
                    "recvlock": e.get("recvlock", ""), "condlock": e.get("condlock", ""), "r": e.get("r", "")})
    return out


if __name__ == "__main__":
    main_wrapper(main)
