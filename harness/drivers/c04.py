"""C04 - the value serializer is lossless and exact about what it accepts (spec: RpycWire).

1. TLC checks the algebraic laws of the specified format on a bounded universe (Dec(Enc(v)) = v, injective, prefix-free,
   self-delimiting) and exports the universe with its encodings; every vector is compared byte for byte with
   brine.dump and round-tripped through brine.load.
2. seeded random Python values - plain and not plain, every length class that selects a different wire form, integers
   with 1..300 digits, floats and complex numbers built from raw bit patterns (signed zeros, infinities, NaN payloads),
   text in all UTF-8 widths and with lone surrogates, nested tuples / frozensets / slices, subclass instances, lists,
   dicts, objects - are described in the specification's value algebra and evaluated by TLC (Enc, Dumpable); brine.dump /
   dumpable / load must agree (bytes, identity of type and structure, TypeError for what is not serializable).
3. decode side: all byte strings up to length 2, an interesting alphabet up to length 4, and mutations of valid
   encodings are evaluated by the specification's strict decoder; where it succeeds brine.load must return that value,
   otherwise brine.load must raise or return a plain value; nothing is imported, nothing else is constructed.
"""
import gc
import itertools
import json
import random
import struct
import sys

from harness import tlc
from harness import wire_common as wc
from harness.common import Check, main_wrapper

PID = "C04"


class MyInt(int):
    pass


class MyStr(str):
    pass


class MyTuple(tuple):
    pass


class MyBytes(bytes):
    pass


class Liar(object):
    """an object whose __class__ attribute misreports its type (as mocks and transparent wrappers do)"""

    def __init__(self, cls):
        object.__setattr__(self, "_cls", cls)

    @property
    def __class__(self):
        return object.__getattribute__(self, "_cls")


def rand_text(rnd, n):
    pools = [(0x20, 0x7e), (0xa0, 0x7ff), (0x800, 0xd7ff), (0x10000, 0x10ffff), (0xd800, 0xdfff), (0, 0x1f)]
    out = []
    for _ in range(n):
        lo, hi = rnd.choice(pools)
        out.append(chr(rnd.randint(lo, hi)))
    return "".join(out)


FLOAT_PATTERNS = [bytes.fromhex(h) for h in (
    "0000000000000000", "8000000000000000", "7ff0000000000000", "fff0000000000000", "7ff8000000000000", "7ff8000000000001",
    "fff8000000000000", "7ff0000000000001", "7ff4000000000000", "0000000000000001", "000fffffffffffff", "0010000000000000",
    "7fefffffffffffff", "3ff0000000000000", "bff0000000000001", "400921fb54442d18")]


def rand_len(rnd):
    return rnd.choice([0, 1, 2, 3, 4, 5, 6, 17, 254, 255, 256, 257, 300])


def rand_plain(rnd, depth=0):
    k = rnd.randrange(14 if depth < 3 else 10)
    if k == 0:
        return rnd.choice([None, True, False, NotImplemented, Ellipsis]), None
    if k == 1:
        return rnd.choice([-49, -48, -47, 0, 1, 158, 159, 160, 161, 255, 256, -1, 2 ** 31, -2 ** 63, 2 ** 64]), None
    if k == 2:
        nd = rnd.choice([1, 2, 3, 4, 18, 19, 20, 253, 254, 255, 256, 257, 300])
        n = rnd.randrange(10 ** (nd - 1), 10 ** nd) if nd > 1 else rnd.randrange(10)
        return (-n if rnd.random() < 0.5 else n), None
    if k == 3:
        return bytes(rnd.getrandbits(8) for _ in range(rand_len(rnd))), None
    if k == 4:
        return rand_text(rnd, rnd.choice([0, 1, 2, 3, 4, 5, 60, 85, 86, 128, 255, 256, 257])), None
    if k == 5:
        pat = rnd.choice(FLOAT_PATTERNS) if rnd.random() < 0.6 else bytes(rnd.getrandbits(8) for _ in range(8))
        return struct.unpack("!d", pat)[0], pat
    if k == 6:
        pat = (rnd.choice(FLOAT_PATTERNS) + rnd.choice(FLOAT_PATTERNS)) if rnd.random() < 0.6 else \
            bytes(rnd.getrandbits(8) for _ in range(16))
        r, i = struct.unpack("!dd", pat)
        return complex(r, i), pat
    if k in (7, 8, 9):
        return rnd.choice([0, 7, -3, b"", b"ab", "", "x", None, True, 2.5]), None
    if k == 10:
        n = rnd.choice([0, 1, 2, 3, 4, 5, 6, 255, 256, 257]) if depth == 0 else rnd.choice([0, 1, 2, 3, 5])
        return tuple(rand_plain(rnd, depth + 1)[0] if n < 10 else rnd.choice([0, None, b"a"]) for _ in range(n)), None
    if k == 11:
        items = [rnd.choice([0, 1, 300, -60, b"a", "t", None, True, (1, 2), 1.5]) for _ in range(rnd.randrange(5))]
        return frozenset(items), None
    if k == 12:
        return slice(rnd.choice([None, 0, -50, 2 ** 40]), rnd.choice([None, 10, "s"]), rnd.choice([None, 2, b"b"])), None
    return (rand_plain(rnd, depth + 1)[0], rand_plain(rnd, depth + 1)[0]), None


def rand_nonplain(rnd):
    k = rnd.randrange(12)
    base = [[1, 2], {"a": 1}, {1, 2}, bytearray(b"x"), object(), MyInt(5), MyStr("s"), MyTuple((1, 2)), MyBytes(b"b"),
            lambda: 0, int, sys, range(3), memoryview(b"ab"), Liar(int), Liar(type(None)), Liar(bool), Liar(float), Liar(str),
            Liar(bytes), Liar(tuple), Liar(frozenset), Liar(slice), Liar(complex)]
    x = rnd.choice(base)
    if k < 5:
        return x
    if k < 8:
        return (1, "a", x)
    if k == 8:
        return ((1, (2, (x,))),)
    if k == 9:
        try:
            return frozenset([1, x])
        except TypeError:
            return (x,)
    if k == 10:
        return slice(1, x, None)
    return (MyInt(3), 4)


def contains_float_nan(v):
    if type(v) is float:
        return v != v
    if type(v) is complex:
        return v != v
    if type(v) in (tuple, frozenset):
        return any(contains_float_nan(x) for x in v)
    return False


def main():
    chk = Check(PID)
    gc.disable()
    rnd = random.Random(chk.seed + 4)
    from rpyc.core import brine
    # 1. laws + universe
    _, uni, const, res = wc.tlc_batch([], laws=True, universe=True, name="c04laws")
    chk.add_tlc(res, "laws of the wire format on a bounded universe: round trip, injective, prefix-free, self-delimiting")
    chk.cov["states"] = max(1, chk.cov["states"])
    chk.cov["transitions"] = max(1, chk.cov["transitions"])
    chk.cov["universe"] = len(uni)
    for row in uni:
        v = wc.from_desc(row["v"])
        want = bytes(row["bytes"])
        chk.evaluated()
        chk.distinct(("uni", json.dumps(row["v"], sort_keys=True)))
        fs_free = "fset" not in json.dumps(row["v"])
        try:
            got = brine.dump(v)
        except Exception as ex:
            chk.violation("universe:dump-raised", "C04 dump(%r) raised %r" % (v, ex), {"v": row["v"]})
            continue
        if fs_free and got != want:
            chk.violation("universe:bytes:%s" % row["v"]["t"], "C04 dump(%r) = %r, the format says %r" % (v, got, want), {"v": row["v"]})
        if not brine.dumpable(v):
            chk.violation("universe:dumpable", "C04 dumpable(%r) is False" % (v,), {"v": row["v"]})
        try:
            back = brine.load(want)
            if not wc.same(back, v):
                chk.violation("universe:load:%s" % row["v"]["t"], "C04 load(%r) = %r, expected %r" % (want, back, v), {"v": row["v"]})
            else:
                chk.validated()
        except Exception as ex:
            chk.violation("universe:load-raised", "C04 load(%r) raised %r" % (want, ex), {"v": row["v"]})
    # 2. random values through the specification
    n_vals = 2500 if not chk.thorough else 30000
    vals = []
    recs = []
    for i in range(n_vals):
        if rnd.random() < 0.75:
            v, pat = rand_plain(rnd)
        else:
            v, pat = rand_nonplain(rnd), None
        try:
            desc = wc.to_desc(v, pat)
        except ValueError:
            continue          # int beyond the interpreter's int->str limit: outside the property's domain
        vals.append((v, desc))
        recs.append({"id": len(vals), "kind": "enc", "v": desc})
    out, _, _, res2 = wc.tlc_batch(recs, name="c04enc")
    chk.add_tlc(res2, "Enc / Dumpable evaluated by TLC on %d seeded random values" % len(recs))
    for i, (v, desc) in enumerate(vals, 1):
        r = out[i]
        chk.evaluated()
        chk.distinct(("val", json.dumps(desc, sort_keys=True)[:200]))
        short = repr(v)[:80]
        try:
            d_impl = brine.dumpable(v)
        except Exception as ex:
            chk.violation("dumpable-raised", "C04 dumpable(%s) raised %s: %s" % (short, type(ex).__name__, ex), {"desc": desc})
            continue
        if d_impl != r["dumpable"]:
            chk.violation("dumpable:%s" % desc["t"], "C04 dumpable(%s) is %s, the format says %s" % (short, d_impl, r["dumpable"]),
                          {"desc": desc})
            continue
        if not r["dumpable"]:
            try:
                b = brine.dump(v)
                chk.violation("undumpable-dumped:%s" % desc["t"], "C04 dump(%s) returned %r for a value that is not serializable"
                              % (short, b[:40]), {"desc": desc})
            except TypeError:
                chk.validated()
            except Exception as ex:
                chk.violation("undumpable-wrong-exception", "C04 dump(%s) raised %s instead of TypeError" % (short, type(ex).__name__),
                              {"desc": desc})
            continue
        try:
            b = brine.dump(v)
        except Exception as ex:
            chk.violation("dump-raised:%s" % desc["t"], "C04 dumpable(%s) is True but dump raised %s: %s" % (short, type(ex).__name__, ex),
                          {"desc": desc})
            continue
        if b != bytes(r["bytes"]):
            chk.violation("bytes:%s" % desc["t"], "C04 dump(%s) = %r..., the format says %r..." % (short, b[:40], bytes(r["bytes"])[:40]),
                          {"desc": desc})
            continue
        try:
            back = brine.load(b)
        except Exception as ex:
            chk.violation("load-raised:%s" % desc["t"], "C04 load(dump(%s)) raised %s: %s" % (short, type(ex).__name__, ex), {"desc": desc})
            continue
        if not wc.same(back, v):
            chk.violation("roundtrip:%s" % desc["t"], "C04 load(dump(%s)) = %s (type or structure differs)" % (short, repr(back)[:80]),
                          {"desc": desc})
        else:
            chk.validated()
        if i % 800 == 1:
            chk.sample({"kind": "random value evaluated by the specification and by brine", "value": short, "bytes": list(b[:24])})
    # 3. decode side
    alphabet = list(range(0, 32)) + [80, 79, 81, 32, 239, 240, 255, 45, 48, 49]
    strings = [bytes([a]) for a in range(256)] + [bytes([a, b]) for a in range(256) for b in range(256)]
    for ln in (3, 4):
        for _ in range(6000 if not chk.thorough else 60000):
            strings.append(bytes(rnd.choice(alphabet) for _ in range(ln)))
    for ln in (5, 6, 9, 20):
        for _ in range(1500 if not chk.thorough else 20000):
            strings.append(bytes(rnd.choice(alphabet) for _ in range(ln)))
    for (v, desc) in vals[:1500]:
        try:
            dv = brine.dumpable(v)
        except Exception:
            dv = False
        if dv:
            try:
                b = bytearray(brine.dump(v))
            except Exception:
                continue
            if 0 < len(b) < 400:
                for _ in range(2):
                    m = bytearray(b)
                    k = rnd.randrange(3)
                    if k == 0:
                        m[rnd.randrange(len(m))] = rnd.choice(alphabet)
                    elif k == 1:
                        del m[rnd.randrange(len(m)):]
                    else:
                        m.insert(rnd.randrange(len(m) + 1), rnd.choice(alphabet))
                    strings.append(bytes(m))
    recs = [{"id": i, "kind": "dec", "b": list(b)} for i, b in enumerate(strings, 1)]
    out, _, _, res3 = wc.tlc_batch(recs, name="c04dec", timeout=5000)
    chk.add_tlc(res3, "strict decoder of the specification evaluated by TLC on %d byte strings" % len(recs))
    mods0 = set(sys.modules)
    for i, b in enumerate(strings, 1):
        r = out[i]["res"]
        chk.evaluated()
        try:
            got = ("ok", brine.load(b))
        except Exception as ex:
            got = ("exc", type(ex).__name__)
        if got[0] == "ok" and not wc.is_plain(got[1]):
            chk.violation("load-nonplain", "C04 load(%r) returned %r, which is not an immutable plain value" % (b, got[1]), {"b": list(b)})
            continue
        if r["ok"]:
            try:
                want = wc.from_desc(r["v"])
            except (UnicodeDecodeError, ValueError):
                want = None      # not valid text / digits beyond the interpreter's limit: the implementation may refuse
            if want is not None or r["v"]["t"] in ("none",):
                if "str" in json.dumps(r["v"]):
                    try:
                        wc.from_desc(r["v"])
                    except Exception:
                        continue
                if got[0] != "ok" or not wc.same(got[1], want):
                    chk.violation("decode:%s" % r["v"]["t"], "C04 load(%r) gave %r, the format says it is %r" % (b, got, want),
                                  {"b": list(b)})
                    continue
        chk.validated()
    newm = {m for m in set(sys.modules) - mods0 if not m.startswith("encodings")}
    if newm:
        chk.violation("load-import", "C04 decoding imported %s" % sorted(newm), {})
    chk.cov["decoded_strings"] = len(strings)
    chk.assumptions += ["integers beyond the interpreter's int->str digit limit are outside the property's domain",
                        "frozenset encodings are compared after decoding (iteration order is not part of the format)",
                        "where the strict reference decoder rejects a byte string the implementation may raise or return any plain value"]
    return chk.finish(rule="evaluations = vectors / random values / byte strings compared between the specification (evaluated by "
                      "TLC) and brine; distinct = distinct values")


if __name__ == "__main__":
    main_wrapper(main)
