"""C18 - the registry reflects exactly the live registrations and cannot be knocked over (spec: RpycRegistry).

TLC checks the specification (3 server addresses, 2 service names in mixed case, clock 0..3, pruning interval 1, 13 kinds
of malformed / silent input) and generates behaviours by simulation; every behaviour is replayed on real
UDPRegistryServer and TCPRegistryServer objects whose listening socket is a scripted fake and whose clock is virtual -
one iteration of the main loop per step.  After every step: the reply bytes (decoded), the notifications fired, the
service table and the liveness of the main loop are compared with the specification's state.  A real-socket run over
loopback UDP and TCP confirms the simulation.
"""
import gc
import os
import random
import socket
import struct
import sys
import threading
import time as real_time

from harness import tlc
from harness import refbrine
from harness.common import Check, main_wrapper

PID = "C18"
NAMEMAP = {"FOO": "foo", "BAR": "Bar"}       # what clients send for the canonical (upper-case) names


class Hang(BaseException):
    """the main loop would block for ever on a client that sends nothing"""


class FakeClock(object):
    def __init__(self):
        self.now = 0.0

    def time(self):
        return self.now

    def sleep(self, d):
        self.now += d

    def __getattr__(self, n):
        return getattr(real_time, n)


class FakeUDP(object):
    def __init__(self, srv_holder):
        self.queue = []
        self.sent = []
        self.holder = srv_holder

    def recvfrom(self, n):
        if self.queue:
            return self.queue.pop(0)
        self.holder["srv"].active = False          # nothing more to process: leave the main loop
        raise socket.timeout()

    def sendto(self, data, addr):
        self.sent.append((data, addr))

    def getsockname(self):
        return ("127.0.0.1", 18811)

    def close(self):
        pass

    def settimeout(self, t):
        pass


class FakeConnSock(object):
    def __init__(self, peer, data):
        self.peer, self.data, self.sent, self.closed, self.timeout = peer, data, [], False, None

    def getpeername(self):
        return self.peer

    def settimeout(self, t):
        self.timeout = t

    def recv(self, n):
        if self.data is None:
            if self.timeout is not None:
                raise socket.timeout()
            raise Hang()
        d, self.data = self.data, b""
        return d

    def send(self, data):
        self.sent.append(data)
        return len(data)

    sendall = send

    def close(self):
        self.closed = True

    def shutdown(self, how):
        pass

    def __enter__(self):
        return self

    def __exit__(self, *a):
        self.close()


class FakeTCPListener(object):
    def __init__(self, srv_holder):
        self.queue = []
        self.accepted = []
        self.holder = srv_holder

    def accept(self):
        if self.queue:
            c = self.queue.pop(0)
            self.accepted.append(c)
            return c, c.peer
        self.holder["srv"].active = False
        raise socket.timeout()

    def getsockname(self):
        return ("127.0.0.1", 18811)

    def close(self):
        pass

    def settimeout(self, t):
        pass


class Fixture(object):
    def __init__(self, mode, interval):
        from rpyc.utils import registry
        from rpyc.core import brine
        import logging
        self.registry, self.brine, self.mode = registry, brine, mode
        self.notes = []
        fx = self
        base = registry.UDPRegistryServer if mode == "udp" else registry.TCPRegistryServer

        class Srv(base):
            def on_service_added(self, name, addrinfo):
                fx.notes.append(("added", name, addrinfo))

            def on_service_removed(self, name, addrinfo):
                fx.notes.append(("removed", name, addrinfo))
        lg = logging.getLogger("verif-c18")
        lg.disabled = True
        self.srv = Srv(host="127.0.0.1", port=0, pruning_timeout=interval, logger=lg)
        self.srv.sock.close()
        self.holder = {"srv": self.srv}
        self.fake = FakeUDP(self.holder) if mode == "udp" else FakeTCPListener(self.holder)
        self.srv.sock = self.fake
        self.clock = FakeClock()
        self.old_time = registry.time
        registry.time = self.clock
        self.nreq = 0

    def request(self, payload, host, silent=False):
        """one datagram / TCP request through one iteration of the main loop.
        returns (status, reply) status in ok|noreply|dead|hang"""
        self.nreq += 1
        peer = (host, 40000 + self.nreq)
        del self.notes[:]
        if self.mode == "udp":
            if silent:
                return "noreply", None            # there is no such thing as a silent datagram
            self.fake.queue.append((payload, peer))
            n0 = len(self.fake.sent)
        else:
            c = FakeConnSock(peer, None if silent else payload)
            self.fake.queue.append(c)
        self.srv.active = True
        try:
            self.srv._work()
        except Hang:
            return "hang", None
        except BaseException as ex:  # noqa
            return "dead", ex
        if self.mode == "udp":
            new = self.fake.sent[n0:]
            if not new:
                return "noreply", None
            data, addr = new[-1]
            if addr != peer:
                return "ok", ("misdirected", addr)
        else:
            if not c.sent:
                return "noreply", None
            data = b"".join(c.sent)
        try:
            return "ok", self.brine.load(data)
        except Exception as ex:
            return "ok", ("undecodable", repr(ex))

    def table(self):
        out = {}
        for name, d in self.srv.services.items():
            for addr, t in d.items():
                out[(name, addr)] = t
        return out

    def close(self):
        self.registry.time = self.old_time


def malformed_payload(kind, brine, rnd):
    from harness import refbrine
    D = refbrine.dump          # the requests are built with an encoder of the published format that is not the code under test
    return {
        "wrong_magic": lambda: D(("NOPE", "register", (("FOO",), 1))),
        "unknown_cmd": lambda: D(("RPYC", "explode", ())),
        "numeric_cmd": lambda: D(("RPYC", rnd.choice([7, 0, 2.5]), ())),
        "none_cmd": lambda: D(("RPYC", None, ())),
        "bytes_cmd": lambda: D(("RPYC", b"query", ("FOO",))),
        "args_not_tuple": lambda: D(("RPYC", "query", 5)),
        "wrong_argc": lambda: D(("RPYC", rnd.choice(["query", "register", "unregister"]), (1, 2, 3, 4))),
        "wrong_types": lambda: D(("RPYC", "register", (5, 1))),
        "garbage": lambda: bytes(rnd.getrandbits(8) for _ in range(rnd.randint(1, 30))),
        "not_triple": lambda: D(("RPYC", "query")),
        "empty": lambda: b"",
        "query_nontext": lambda: D(("RPYC", "query", (5,))),
        "tcp_silent": lambda: None,
    }[kind]()


def replay(chk, beh, mode, rnd, interval):
    """returns list of (key, message)"""
    fx = Fixture(mode, interval)
    from harness import refbrine
    D = refbrine.dump
    bad = []
    labels = []
    # ports are whatever value the registering server sends (the registry does not look at them): in some replays one of the
    # specification's ports stands for an unusual - but serializable - value
    weird = rnd.choice([None, None, 10 ** 254, 10 ** 255, 10 ** 256, -7, 2.5, "eighty", b"80", (8, 0), 2 ** 70])
    wport = rnd.choice([1, 2, 3])

    def pm(a):
        a = tuple(a)
        return (a[0], weird) if (weird is not None and a[1] == wport) else a
    try:
        for i in range(1, len(beh)):
            label, st = beh[i]
            prev = beh[i - 1][1]
            labels.append(label)
            name = label.split("(")[0]
            chk.evaluated()
            if name == "Tick":
                fx.clock.now += 1.0
                continue
            if name == "Register":
                a = addr_of(label)
                ns = sorted(n for n in st["tab"] if st["tab"][n][a] == st["now"] and n in names_in(label))
                ns = names_in(label)
                status, rep = fx.request(D(("RPYC", "register", (tuple(NAMEMAP[n] for n in ns), pm(a)[1]))), a[0])
            elif name == "Unregister":
                a = addr_of(label)
                status, rep = fx.request(D(("RPYC", rnd.choice(["unregister", "UNREGISTER"]), (pm(a)[1],))), a[0])
            elif name == "Query":
                n = label.split('"')[1]
                status, rep = fx.request(D(("RPYC", "query", (rnd.choice([NAMEMAP[n], n, n.lower()]),))), "querier")
            else:
                kind = label.split('"')[1]
                if kind == "tcp_silent" and mode == "udp":
                    continue
                status, rep = fx.request(malformed_payload(kind, fx.brine, rnd), "evil", silent=(kind == "tcp_silent"))
            where = "after %s" % (labels[-6:],)
            if status == "dead":
                bad.append(("loop-dead:%s" % (label.split('"')[1] if name == "Malformed" else name),
                            "%s the main loop died with %r" % (where, rep)))
                break
            if status == "hang":
                bad.append(("loop-hang", "%s the main loop blocks for ever on a client that sends nothing" % where))
                break
            # the table
            want = {(n, pm(a)): float(t) for n in st["tab"] for a, t in st["tab"][n].items() if t != -1}
            got = fx.table()
            if got != want:
                bad.append(("table:%s" % name, "%s the service table is %s, the specification says %s" % (where, got, want)))
                break
            # notifications
            wn = [((x[0], x[1], pm(x[2])) if len(x) > 2 else tuple(x)) for x in st["notes"]]
            gn = list(fx.notes)
            if name == "Query":
                stale = {pm(a) for a, t in prev["tab"][label.split('"')[1]].items() if t != -1 and t < prev["now"] - interval}
                if sorted(gn, key=repr) != sorted((("removed", label.split('"')[1], a) for a in stale), key=repr):
                    bad.append(("notes:Query", "%s pruning notified %s, expected removal of %s" % (where, gn, sorted(stale, key=repr))))
                    break
            elif sorted(gn, key=repr) != sorted(wn, key=repr):
                bad.append(("notes:%s" % name, "%s notifications %s, the specification says %s" % (where, gn, wn)))
                break
            # the reply
            if name in ("Register", "Unregister"):
                if (status, rep) != ("ok", "OK"):
                    bad.append(("reply:%s" % name, "%s answered %s %r instead of OK" % (where, status, rep)))
                    break
            elif name == "Query":
                r = st["reply"]
                fresh = {pm(a) for a in r["set"]}
                times = {pm(a): t for a, t in r["times"].items()} if isinstance(r["times"], dict) else {}
                if status != "ok" or type(rep) is not tuple or {tuple(x) for x in rep} != fresh or len(rep) != len(fresh):
                    bad.append(("reply:Query:set", "%s the query was answered %s %r, live registrations are %s" % (
                        where, status, rep, sorted(fresh, key=repr))))
                    break
                ts = [times[tuple(x)] for x in rep]
                if ts != sorted(ts):
                    bad.append(("reply:Query:order", "%s the answer %r is not ordered by refresh time (%s)" % (where, rep, ts)))
                    break
            else:
                if status == "ok" and rep == "OK":
                    bad.append(("reply:Malformed", "%s a malformed request was answered OK" % where))
                    break
        return bad, labels
    finally:
        fx.close()


def addr_of(label):
    inner = label[label.index("<<") + 2:label.index(">>")]
    h, p = inner.split(",")
    return (h.strip().strip('"'), int(p))


def names_in(label):
    rest = label[label.index(">>") + 2:]
    return [n for n in ("FOO", "BAR") if '"%s"' % n in rest]


def real_socket_run(chk, mode):
    """ground truth over loopback with real sockets and real time (interval 1 s)"""
    from rpyc.utils import registry
    import logging
    lg = logging.getLogger("verif-c18-real")
    lg.disabled = True
    notes = []
    base = registry.UDPRegistryServer if mode == "udp" else registry.TCPRegistryServer

    class Srv(base):
        def on_service_added(self, name, addrinfo):
            notes.append(("added", name, addrinfo[1]))

        def on_service_removed(self, name, addrinfo):
            notes.append(("removed", name, addrinfo[1]))
    srv = Srv(host="127.0.0.1", port=0, pruning_timeout=1, logger=lg)
    port = srv.sock.getsockname()[1]
    th = threading.Thread(target=srv.start)
    th.daemon = True
    th.start()
    cli_cls = registry.UDPRegistryClient if mode == "udp" else registry.TCPRegistryClient
    cli = cli_cls("127.0.0.1", port, timeout=2, logger=lg)
    bad = []
    try:
        for _ in range(100):
            if srv.active:
                break
            real_time.sleep(0.02)
        ok = cli.register(("Foo", "bar"), 1234)
        r1 = cli.discover("foo")
        # malformed traffic
        if mode == "udp":
            s = socket.socket(socket.AF_INET, socket.SOCK_DGRAM)
            for p in (b"", b"\xff\xfe", struct.pack("!B", 7)):
                s.sendto(p, ("127.0.0.1", port))
            from rpyc.core import brine
            s.sendto(refbrine.dump(("RPYC", 7, ())), ("127.0.0.1", port))
            s.close()
        r2 = cli.discover("FOO")
        cli.unregister(1234)
        r3 = cli.discover("foo")
        chk.evaluated()
        if not ok or len(r1) != 1 or r1[0][1] != 1234:
            bad.append("register/discover over real %s sockets: %r %r" % (mode, ok, r1))
        if len(r2) != 1:
            bad.append("after malformed datagrams the registry no longer answers: %r" % (r2,))
        if r3 != ():
            bad.append("discover after unregister: %r" % (r3,))
        if not th.is_alive():
            bad.append("the registry's main loop thread died")
    except Exception as ex:
        bad.append("real-socket run raised %r" % (ex,))
    finally:
        try:
            srv.close()
        except Exception:
            pass
        th.join(5)
    return bad


def main():
    chk = Check(PID)
    gc.disable()
    rnd = random.Random(chk.seed + 18)
    res = tlc.require_ok(tlc.run_tlc("MC_RpycRegistry", "MC_RpycRegistry.cfg", coverage=True, timeout=3000), "MC_RpycRegistry")
    if res.violation:
        raise tlc.MachineryError("RpycRegistry violates " + res.violation)
    chk.add_tlc(res, "exhaustive: 3 addresses, 2 names, clock 0..3, interval 1, 13 malformed kinds")
    for a in ("Register", "Unregister", "Query", "Tick", "Malformed"):
        if res.coverage.get(a, (0, 0))[1] == 0:
            raise tlc.MachineryError("vacuity: action %s never taken" % a)
    num = 250 if not chk.thorough else 4000
    total = 0
    for k, depth in enumerate((25, 45)):
        behs, sres = tlc.simulate_behaviours("MC_RpycRegistry", "MC_RpycRegistry.cfg", num, depth, chk.seed * 3 + k + 1)
        tlc.require_ok(sres, "simulate RpycRegistry")
        for bi, beh in enumerate(behs):
            for mode in ("udp", "tcp"):
                bad, labels = replay(chk, beh, mode, rnd, 1)
                total += 1
                chk.distinct((mode, tuple(labels)))
                if not bad:
                    chk.validated()
                for key, msg in bad:
                    chk.violation("%s:%s" % (mode if key.startswith("loop-hang") else "any", key), "C18 [%s] %s" % (mode, msg),
                                  {"mode": mode, "labels": labels})
            if bi < 1:
                chk.sample({"kind": "TLC behaviour replayed on real registry server objects", "steps": [l for l, _ in beh[1:]][:30]})
            if bi % 100 == 99:
                gc.collect()
    chk.cov["behaviours_replayed"] = total
    for mode in ("udp", "tcp"):
        for msg in real_socket_run(chk, mode):
            chk.violation("real:%s" % mode, "C18 [real %s sockets] %s" % (mode, msg), {"mode": "real-" + mode})
    chk.assumptions += ["one iteration of the main loop per request; the listening socket is a scripted fake, the clock is virtual",
                        "order among registrations with equal refresh time is unspecified",
                        "a TCP client that connects and sends nothing must not block the loop for ever (a bounded receive "
                        "timeout is acceptable)"]
    return chk.finish(rule="evaluations = requests processed by real registry servers and compared with the specification; distinct = "
                      "(transport, behaviour) pairs")


if __name__ == "__main__":
    main_wrapper(main)
