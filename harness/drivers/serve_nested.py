"""Nested serving for C13 / C14 (spec: RpycServeNested): threads share one Connection and the peer's replies carry
references to objects of classes the holder has not seen, so the thread that dispatches such a reply makes a round trip of
its own (HANDLE_INSPECT) INSIDE the dispatch - serve() re-entered on the same thread while the outer reply still counts as
in transit.  The real code runs under the deterministic scheduler against the scripted peer of serve_common; its executions
are judged directly and validated by TLC against Trace_RpycServeNested."""
import gc
import random

from harness import tlc
from harness.drivers import serve_common as svc

NCONFIGS = {
    "n1": dict(reqs={"t1": ["a"]}, nested={"a": "ia"}, bg=False, mc="MC_RpycServeNested_1.cfg"),
    "n2a": dict(reqs={"t1": ["a"], "t2": ["b"]}, nested={"a": "ia"}, bg=False, mc="MC_RpycServeNested_2a.cfg"),
    "n2ab": dict(reqs={"t1": ["a"], "t2": ["b"]}, nested={"a": "ia", "b": "ib"}, bg=False, mc="MC_RpycServeNested_2ab.cfg"),
    "n3a": dict(reqs={"t1": ["a"], "t2": ["b"], "t3": ["c"]}, nested={"a": "ia"}, bg=False, mc="MC_RpycServeNested_3a.cfg"),
    "n3ab": dict(reqs={"t1": ["a"], "t2": ["b"], "t3": ["c"]}, nested={"a": "ia", "b": "ib"}, bg=False,
                 mc="MC_RpycServeNested_3ab.cfg"),
    # next to threads that only serve (serve_threaded's workers): the situation its docstring warns about
    "n2a_p": dict(reqs={"t1": ["a"], "t2": ["b"]}, nested={"a": "ia"}, bg=False, pool=("p1",), mc="MC_RpycServeNested_2a_p.cfg"),
    "n2ab_p": dict(reqs={"t1": ["a"], "t2": ["b"]}, nested={"a": "ia", "b": "ib"}, bg=False, pool=("p1",),
                   mc="MC_RpycServeNested_2ab_p.cfg"),
    "n1_pp": dict(reqs={"t1": ["a"]}, nested={"a": "ia"}, bg=False, pool=("p1", "p2"), mc="MC_RpycServeNested_1_pp.cfg"),
}
ACTIONS = ["Start", "CWrite", "WCheck", "WFinal", "Precheck", "TryLock", "Blocked", "Recheck", "Recv", "Release", "Notify",
           "Dispatch", "PopCb", "DExpired", "Publish", "Published", "PeerReply"]


def fixture_for(nested, pool=()):
    class NestedFixture(svc.Fixture):
        def __init__(self, *a, **k):
            svc.Fixture.__init__(self, *a, **k)
            self.pool = {}
            for name in pool:
                self.pool[name] = self.sched.spawn(name, self._serve_only)

        def _serve_only(self):
            try:
                while True:
                    self.conn.serve(None)
            except EOFError:
                pass

        def _client(self, t):
            for r in self.reqs[t]:
                try:
                    res = self.conn.async_request(self.consts.HANDLE_PING, svc.tag(r), timeout=svc.FAR)
                    self.results[r] = res
                    v = res.value
                    if r in nested:
                        name = v.____id_pack__[0]
                        v.____refcount__ = 0       # no release notice when the handle goes: the scripted peer lends nothing
                        self.outcome[r] = ("ok", "ref:" + name)
                        del v
                    else:
                        self.outcome[r] = ("ok", v)
                except BaseException as ex:  # noqa
                    from harness import sim
                    if isinstance(ex, sim.SimAbort):
                        raise
                    self.outcome[r] = ("exc", type(ex).__name__ + ": " + str(ex))
                self.done_at[r] = self.sched.now

        def peer_reply(self, r, seq):
            c = self.consts
            self.replied.append(r)
            if r in nested:
                k = sorted(nested).index(r)
                payload = (c.MSG_REPLY, seq, (c.LABEL_REMOTE_REF, ("vmod.C<%s>" % nested[r], 7001 + k, 8001 + k)))
            elif r in nested.values():
                payload = (c.MSG_REPLY, seq, (c.LABEL_VALUE, (("frob", None), ("twiddle", "doc"))))
            else:
                payload = (c.MSG_REPLY, seq, (c.LABEL_VALUE, svc.tag(r)))
            self.net.a.inbox += svc.frame(self.brine.dump(payload))
    return NestedFixture


def to_events(trace):
    """the scheduler's operation log -> the events of Trace_RpycServeNested"""
    out = []
    last = {}
    last_try = {}
    woken = set()
    reads = {}
    for e in trace:
        t = e.get("t")
        if t == "peer":
            out.append({"t": "peer", "op": "reply", "r": e.get("r", ""), "recvlock": ""})
            continue
        if t == "env":
            out.append({"t": "env", "op": e.get("op", ""), "r": "", "recvlock": ""})
            continue
        op = e.get("op")
        rl = e.get("recvlock", "")
        keep = None
        if op in ("cond_blocked", "poll") and e.get("wake") == "timeout":
            keep = "timeout"                      # no such step in the specification: a time-out only runs out in a stall
        elif op == "cond_blocked":
            woken.add(t)
        elif op == "lock":
            if t in woken:
                woken.discard(t)
                keep = "wake"
        elif op in ("unlock:cond", "cond_wait", "poll"):
            pass
        elif op == "read":
            reads[t] = reads.get(t, 0) + 1
            if reads[t] % 2 == 0:
                keep = "recv"
        elif op == "unlock:recv":
            if last.get(t) == "trylock" and t in last_try:
                out[last_try[t]]["recvlock"] = rl      # taken and given back under the condition's lock: one step
            else:
                keep = "release"
        else:
            keep = op
        last[t] = op
        if keep is not None:
            if keep == "trylock":
                last_try[t] = len(out)
            out.append({"t": t, "op": keep, "r": "", "recvlock": rl})
    # the run is cut when the last client is done: a try-lock that is a thread's last logged operation may be the first half of
    # "taken and given back" (the second half was never logged), so what it left behind is not asserted
    for t, i in last_try.items():
        if not any(e.get("t") == t for e in out[i + 1:]):
            out[i]["recvlock"] = "?"
    return out


def tla_consts(cfg, prefix="TN"):
    th = sorted(cfg["reqs"])
    nested = cfg["nested"]
    defs = ['%sClients == {%s}' % (prefix, ", ".join('"%s"' % t for t in th)),
            '%sReq == [t \\in %sClients |-> CASE %s]' % (prefix, prefix, " [] ".join(
                't = "%s" -> "%s"' % (t, cfg["reqs"][t][0]) for t in th)),
            '%sNested == {%s}' % (prefix, ", ".join('"%s"' % r for r in sorted(nested))),
            '%sInsp == [r \\in %sNested |-> CASE %s]' % (prefix, prefix, " [] ".join(
                'r = "%s" -> "%s"' % (r, nested[r]) for r in sorted(nested)))]
    defs.append('%sPool == {%s}' % (prefix, ", ".join('"%s"' % t for t in sorted(cfg.get("pool", ())))))
    lines = ["Clients <- %sClients" % prefix, "Req <- %sReq" % prefix, "Nested <- %sNested" % prefix,
             "InspOf <- %sInsp" % prefix, "Pool <- %sPool" % prefix, "Own = TRUE"]
    return "\n".join(defs), lines


INVS = ["RecvMutex", "DispatchedOnce", "ReplyMatches", "TransitExact", "NoHang", "NoStall", "WillBeWoken", "AtTheEnd"]


def judge(res, cfg):
    """-> (C13 problems, C14 problems) of one execution"""
    c13, c14 = [], []
    nested = cfg["nested"]
    for t, rs in cfg["reqs"].items():
        for r in rs:
            o = res["outcome"].get(r)
            want = ("ok", "ref:vmod.C<%s>" % nested[r]) if r in nested else ("ok", svc.tag(r))
            if o is None:
                c13.append(("incomplete", "request %s of %s never completed" % (r, t)))
            elif tuple(o) != want:
                c13.append(("wrong-result", "request %s of %s completed with %r instead of %r" % (r, t, o, want)))
    for seq, n in res["dispatch_count"].items():
        if n != 1:
            c13.append(("dispatch-count", "the reply with sequence number %s was dispatched %d times" % (seq, n)))
    if len(set(res["seqs"])) != len(res["seqs"]):
        c13.append(("seq-reuse", "sequence numbers reused: %s" % (res["seqs"],)))
    for key, msg in res["problems"]:
        c13.append((key, msg))
    if res.get("transit_left"):
        c13.append(("transit-left", "replies still counted as in transit after everything finished: %r" % (res["transit_left"],)))
    for name, where, by, woke, r, held in res["stalls"]:
        c14.append(("stall:nested:" + where, "waiter %s sleeps in %s although the reply to %s was already processed (frame received "
                    "by %s) - with replies carrying references (nested INSPECT round trips)" % (name, where, r, by)))
    return c13, c14


def model_check(chk, thorough):
    names = ["n1", "n2a", "n2ab", "n2a_p"] + (["n3a", "n3ab", "n2ab_p", "n1_pp"] if thorough else [])
    for n in names:
        cfg = NCONFIGS[n]
        res = tlc.require_ok(tlc.run_tlc("MC_RpycServeNested", cfg["mc"], coverage=True, timeout=3000), cfg["mc"])
        if res.violation:
            raise tlc.MachineryError("specification RpycServeNested violates %s under %s" % (res.violation, cfg["mc"]))
        chk.add_tlc(res, "RpycServeNested, exhaustive: %d client(s), replies of %s carry references (nested INSPECT)" % (
            len(cfg["reqs"]), sorted(cfg["nested"])))
        if n not in ("n1", "n1_pp"):
            for a in ACTIONS + (["PoolEnter"] if cfg.get("pool") else []):
                if res.coverage.get(a, (0, 0))[1] == 0:
                    raise tlc.MachineryError("vacuity: action %s never taken in %s" % (a, cfg["mc"]))
    # the first version of the repair (a thread waits for its own outer reply): TLC's hang, kept as the witness
    res = tlc.run_tlc("MC_RpycServeNested", "MC_RpycServeNested_1_notown.cfg", timeout=600)
    if res.violation != "NoHang":
        raise tlc.MachineryError("RpycServeNested with Own = FALSE should violate NoHang, TLC says %r" % (res.violation,))
    chk.add_tlc(res, "RpycServeNested with Own = FALSE (a thread not ignoring its own replies in transit): NoHang counterexample")


def explore(chk, which, on_c13, on_c14, thorough):
    """random, PCT and line-preempted schedules of the real code; every trace validated against the specification"""
    if not svc.handoff_repaired():
        chk.note("nested serving is specified for the repaired serve() only; the working tree has the pinned one")
        return
    plan = [("n2a", 60, 30), ("n2ab", 60, 30), ("n3a", 40, 20), ("n2a_p", 50, 25)] if not thorough else \
        [("n1", 20, 10), ("n2a", 600, 300), ("n2ab", 600, 300), ("n3a", 500, 300), ("n3ab", 500, 300), ("n2a_p", 500, 300),
         ("n2ab_p", 400, 200), ("n1_pp", 300, 150)]
    for name, n_random, n_pct in plan:
        cfg = NCONFIGS[name]
        fxc = fixture_for(cfg["nested"], cfg.get("pool", ()))
        rnd = random.Random(chk.seed * 7919 + sum(map(ord, name)))
        traces = []

        def one(chooser, lines=False):
            res = svc.run_impl(cfg["reqs"], False, chooser, lines=lines, fixture=fxc)
            chk.evaluated()
            rep = {"mode": "nested", "config": name, "lines": lines, "indices": chooser.record}
            chk.distinct(("nested", name, tuple((e.get("t"), e.get("op")) for e in res["trace"])))
            c13, c14 = judge(res, cfg)
            for key, msg in c13:
                on_c13(key, msg, rep)
            for key, msg in c14:
                on_c14(key, msg, rep)
            return res
        for i in range(n_random):
            res = one(svc.random_chooser(rnd, rnd.choice((0.0, 0.5, 0.8))))
            traces.append(to_events(res["trace"]))
            if i % 100 == 99:
                gc.collect()
        for i in range(n_pct):
            res = one(svc.pct_chooser(rnd, depth=rnd.choice((1, 2, 3)), horizon=200))
            traces.append(to_events(res["trace"]))
        bad = validate(chk, name, traces)
        for key, msg, rep in bad:
            (on_c14 if key.startswith("trace-invariant:NoStall") else on_c13)(key, msg, rep)
        if which == "c13" or thorough:
            # every source line of serve / _dispatch / wait / __call__ ... as the one forced preemption point
            def on_result(res, _cfg, rep):
                chk.evaluated()
                c13, c14 = judge(res, cfg)
                rep = dict(rep, mode="nested")
                for key, msg in c13:
                    on_c13(key, msg, rep)
                for key, msg in c14:
                    on_c14(key, msg, rep)
            if name in ("n2a", "n2ab") or thorough:
                svc.explore_line_preemptions(chk, name, on_result, max_points=None if thorough else 40, fixture=fxc,
                                             configs=NCONFIGS)
        gc.collect()


def validate(chk, name, traces, selftest=True):
    cfg = NCONFIGS[name]
    defs, lines = tla_consts(cfg)
    traces = [t for t in traces if t]
    if not traces:
        return []
    batch = list(traces)
    n_real = len(batch)
    if selftest:
        base = max(traces, key=len)
        k = next((i for i, e in enumerate(base) if e.get("op") == "set_ready"), None)
        if k is not None:
            bad1 = [dict(e) for e in base]
            del bad1[k]                                     # a publication that was never logged
            bad2 = [dict(e) for e in base]
            j = next((i for i, e in enumerate(base) if e.get("op") == "release"), None)
            if j is not None:
                bad2[j] = dict(bad2[j], recvlock="bogus")
                batch += [bad1, bad2]
            else:
                batch += [bad1]
    out, res = tlc.validate_traces("Trace_RpycServeNested", batch, defs, lines, invariants=INVS, name="nested_" + name)
    chk.add_tlc(res, "trace validation batch (RpycServeNested, %s)" % name)
    bad = []
    if len(batch) > n_real:
        for j in range(n_real, len(batch)):
            if out[j] is not None and out[j][0] == out[j][1]:
                raise tlc.MachineryError("self-test: a corrupted trace was accepted by Trace_RpycServeNested")
    if res.violation:
        bad.append(("trace-invariant:" + res.violation, "an implementation trace with nested round trips reaches a state violating %s"
                    % res.violation, {"mode": "trace", "config": name, "tlc": res.stdout[-1500:]}))
    acc = 0
    for j in range(n_real):
        if out[j] is not None and out[j][0] == out[j][1]:
            acc += 1
        else:
            at = out[j][0] if out[j] is not None else 0
            chk.drift.append("nested trace %d of %s rejected at event %d/%d: %r" % (
                j, name, at + 1, len(traces[j]), traces[j][at] if at < len(traces[j]) else None))
    chk.validated(acc)
    chk.cov["nested_traces"] = chk.cov.get("nested_traces", 0) + n_real
    chk.cov["nested_traces_accepted"] = chk.cov.get("nested_traces_accepted", 0) + acc
    chk.sample({"kind": "implementation trace with a nested round trip (accepted by TLC: %s)" % (
        out[0] is not None and out[0][0] == out[0][1]), "config": name, "events": traces[0][:70]})
    return bad
