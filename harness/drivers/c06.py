"""C06 - attribute access by the peer follows the connection's policy, and only its own (spec: RpycAttr).

TLC evaluates the decision table of the specification (all 2^5 switch settings x 3 prefixes x 7 name classes x 4 object
shapes x 4 operations = 10752 cases, plus the hook cases), checks its meta-properties and exports it; every case is
executed against the real request handlers through a real connection pair (the peer issues HANDLE_GETATTR / SETATTR /
DELATTR / CALLATTR requests with text, bytes and non-text names on freshly built objects), and the observed outcome -
which attribute was actually read, written, deleted or called, and which exception the peer saw - must be one the table
permits.  TLC also enumerates the histories of opening and closing differently configured connections (default,
classic, public); each history is replayed with real connections and after every step every open connection must
still decide according to its own configuration, and the process-wide default must be untouched.
"""
import copy
import gc
import json
import os
import random
import shutil

from harness import sim, tlc
from harness.common import Check, main_wrapper, OUT
from harness.pair import Pair

PID = "C06"
PREFIX = {"std": "exposed_", "alt": "x_", "empty": ""}
OPCFG = {"get": "allow_getattr", "set": "allow_setattr", "del": "allow_delattr", "call": "allow_getattr"}


def run_tlc(chk):
    d = os.path.join(OUT, "c06.%d" % os.getpid())
    os.makedirs(d, exist_ok=True)
    f1, f2 = os.path.join(d, "cases.ndjson"), os.path.join(d, "hooks.ndjson")
    res = tlc.require_ok(tlc.run_tlc("RpycAttr", "MC_RpycAttr.cfg", workers=4, coverage=True,
                                     env={"OUT_FILE": f1, "OUT_FILE2": f2},
                                     dump=os.path.join(d, "graph")), "RpycAttr")
    if res.violation:
        raise tlc.MachineryError("RpycAttr violates " + res.violation)
    chk.add_tlc(res, "decision table (10752 cases, meta-properties as ASSUMEs) + histories of <=3 connections of 3 kinds")
    cases = [json.loads(l) for l in open(f1)]
    hooks = [json.loads(l) for l in open(f2)]
    g = tlc.load_dot(os.path.join(d, "graph.dot"))
    shutil.rmtree(d, ignore_errors=True)
    return cases, hooks, g


def rpyc_config(cfg, op, rnd):
    c = {"allow_all_attrs": cfg["all"], "allow_exposed_attrs": cfg["exposed"], "allow_safe_attrs": cfg["safe"],
         "allow_public_attrs": cfg["public"], "exposed_prefix": PREFIX[cfg["prefix"]],
         "allow_getattr": rnd.random() < 0.5, "allow_setattr": rnd.random() < 0.5, "allow_delattr": rnd.random() < 0.5}
    c[OPCFG[op]] = cfg["enabled"]
    return c


def name_for(nc, prefix, rnd):
    if nc == "prefixed":
        return prefix + "foo"
    return {"safe": "__add__", "dunder": "__secret__", "private": "_hid", "public": "foo", "bytes": b"foo",
            "nonstr": rnd.choice([5, None, ("foo",), 2.5])}[nc]


class Thing(object):
    pass


class IsolationBroken(Exception):
    """the client connection (default configuration) refused an exposed method: another connection's configuration leaked"""


class Fixture(object):
    """server side B under a given configuration; client A (default configuration) issues the raw requests"""

    def __init__(self, config_b, service_b=None):
        import rpyc
        fx = self
        self.stash = []

        class Cli(rpyc.Service):
            def exposed_take(self, x):
                fx.stash.append(x)
                return None
        self.pair = Pair(Cli(), service_b or rpyc.VoidService(), config_b=config_b, patch_time=False)

    def push(self, obj):
        """the server hands obj to the client (by reference); returns the client's proxy"""
        b = self.pair.b
        try:
            b.call(lambda: b.conn.root.take(obj))
        except AttributeError as ex:
            raise IsolationBroken("a connection with the default configuration refused access to an exposed method "
                                  "(%s) while a differently configured connection exists" % ex)
        return self.stash[-1]

    def request(self, handler, *args):
        a = self.pair.a
        tag = object()
        a.do(tag, lambda: a.conn.sync_request(handler, *args))
        kind, val = a.results.pop(tag)
        if kind == "ok":
            return ("ok", val if isinstance(val, (str, int, type(None))) else "<obj>")
        return ("exc", type(val).__name__ if not type(val).__module__.startswith("rpyc") else type(val).__name__)

    def close(self):
        self.pair.close()


def direct_request(conn, consts, handler, obj, *args):
    """the same request handed straight to the connection's handler table (what _dispatch_request does after unboxing)"""
    try:
        h = conn._HANDLERS[handler]
        val = h(conn, obj, *args)
        return ("ok", val if isinstance(val, (str, int, type(None))) else "<obj>")
    except Exception as ex:
        return ("exc", type(ex).__name__)


def exec_case(fx, consts, case, rnd, direct=False):
    """returns (observed description, matches allowed?)"""
    cfg, op, nc, shape = case["cfg"], case["op"], case["nc"], case["shape"]
    prefix = PREFIX[cfg["prefix"]]
    name = name_for(nc, prefix, rnd)
    sname = name.decode() if isinstance(name, bytes) else (name if isinstance(name, str) else "foo")
    twin = prefix + sname
    obj = Thing()
    mk = (lambda tag: (lambda: tag)) if op == "call" else (lambda tag: tag)
    if shape["plain"]:
        obj.__dict__[sname] = mk("PLAIN")
    if shape["twin"] and prefix:
        obj.__dict__[twin] = mk("TWIN")
    before = dict(obj.__dict__)
    if direct:
        req = lambda h, *a: direct_request(fx.pair.b.conn, consts, h, obj, *a)   # noqa
    else:
        proxy = fx.push(obj)
        req = lambda h, *a: fx.request(h, proxy, *a)   # noqa
    if op == "get":
        out = req(consts.HANDLE_GETATTR, name)
    elif op == "set":
        out = req(consts.HANDLE_SETATTR, name, "NEW")
    elif op == "del":
        out = req(consts.HANDLE_DELATTR, name)
    else:
        out = req(consts.HANDLE_CALLATTR, name, (), ())
    after = dict(obj.__dict__)
    del fx.stash[:]
    changed = {k for k in set(before) | set(after) if before.get(k, "<absent>") != after.get(k, "<absent>")}

    def matches(outcome):
        if outcome in ("AttributeError", "TypeError"):
            return out == ("exc", outcome) and not changed
        target = sname if outcome == "Plain" else twin
        exists = target in before
        if op in ("get", "call"):
            if exists:
                return out == ("ok", "PLAIN" if target == sname and shape["plain"] else "TWIN") and not changed
            return out == ("exc", "AttributeError") and not changed
        if op == "set":
            return out[0] == "ok" and changed == {target} and after.get(target) == "NEW"
        if op == "del":
            if exists:
                return out[0] == "ok" and changed == {target} and target not in after
            return out == ("exc", "AttributeError") and not changed
        return False
    ok = any(matches(o) for o in case["allowed"])
    return {"name": repr(name), "result": list(out), "changed": sorted(changed)}, ok


# --------------------------------------------------------------------------- hook cases
def exec_hook_case(consts, h, rnd, cases_by_key):
    import rpyc
    from rpyc.utils.helpers import restricted
    touched = []
    cfgd = {"allow_getattr": h["enabled"], "allow_setattr": h["enabled"], "allow_delattr": h["enabled"],
            "allow_public_attrs": rnd.random() < 0.5, "allow_all_attrs": False}
    op = h["op"]
    handler = {"get": consts.HANDLE_GETATTR, "set": consts.HANDLE_SETATTR, "del": consts.HANDLE_DELATTR}[op]
    extra = ("NEW",) if op == "set" else ()
    if h["kind"] == "ownhooks":
        class Own(object):
            def __init__(self):
                self.data = {"ok": "V"}

            def _rpyc_getattr(self, name):
                touched.append(("get", name))
                if name != "ok":
                    raise AttributeError(name)
                return self.data[name]

            def _rpyc_setattr(self, name, value):
                touched.append(("set", name))
                if name != "ok":
                    raise AttributeError(name)
                self.data[name] = value

            def _rpyc_delattr(self, name):
                touched.append(("del", name))
                if name != "ok":
                    raise AttributeError(name)
                del self.data[name]
        obj = Own()
        fx = Fixture(cfgd)
        try:
            proxy = fx.push(obj)
            out = fx.request(handler, proxy, "ok" if h["listed"] else "other", *extra)
        finally:
            fx.close()
        if "Hook" in h["allowed"]:
            ok = out[0] == "ok" and touched == [(op, "ok")] and \
                {"get": obj.data.get("ok") == "V", "set": obj.data.get("ok") == "NEW", "del": "ok" not in obj.data}[op]
        else:
            ok = out == ("exc", "AttributeError") and obj.data == {"ok": "V"}
        return {"result": list(out), "touched": touched, "data": dict(obj.data)}, ok
    if h["kind"] == "restricted":
        under = Thing()
        under.r = "R"
        under.w = "W"
        under.n = "N"
        wmode = h.get("w", "given")
        if wmode == "given":
            view = restricted(under, ["r"], ["w"])
        elif wmode == "default":
            view = restricted(under, ["r"])
        else:
            view = restricted(under, ["r"], rnd.choice([(), [], set(), frozenset()]))
        fx = Fixture(cfgd)
        try:
            proxy = fx.push(view)
            wname = "w" if wmode == "given" else "r"
            name = {"get": "r", "set": wname, "del": "r"}[op] if h["listed"] else "n"
            out = fx.request(handler, proxy, name, *extra)
        finally:
            fx.close()
        d = dict(under.__dict__)
        if "Underlying" in h["allowed"]:
            ok = (op == "get" and out == ("ok", "R") and d == {"r": "R", "w": "W", "n": "N"}) or \
                 (op == "set" and out[0] == "ok" and d == dict({"r": "R", "w": "W", "n": "N"}, **{wname: "NEW"}))
        else:
            ok = out == ("exc", "AttributeError") and d == {"r": "R", "w": "W", "n": "N"}
        return {"result": list(out), "underlying": d}, ok
    if h["kind"] in ("class_of_hooked", "forwarder"):
        hook_calls = []

        def mk_hooked():
            class Hooked(object):
                exposed_cval = "CV"
                plainc = "PC"

                def __init__(self):
                    self.data = {"ok": "V"}

                def _rpyc_getattr(self, name):
                    hook_calls.append(("get", name))
                    return self.data[name]

                def _rpyc_setattr(self, name, value):
                    hook_calls.append(("set", name))
                    self.data[name] = value

                def _rpyc_delattr(self, name):
                    hook_calls.append(("del", name))
                    del self.data[name]
            return Hooked

        def mk_plain():
            class Plain(object):
                exposed_cval = "CV"
                plainc = "PC"
            return Plain
        fx = Fixture(cfgd)
        try:
            if h["kind"] == "class_of_hooked":
                target, twin = mk_hooked(), mk_plain()
                name = "cval" if h["listed"] else "plainc"
            else:
                inner = mk_hooked()()

                class Wrapper(object):
                    def __init__(self, inner_):
                        self.__dict__["_inner"] = inner_
                        self.__dict__["own"] = "OWN"

                    def __getattr__(self, name):
                        return getattr(self.__dict__["_inner"], name)

                class PlainW(object):
                    def __init__(self):
                        self.own = "OWN"
                target, twin = Wrapper(inner), PlainW()
                name = "ok" if h["listed"] else "own"
            outs = []
            for obj in (target, twin):
                proxy = fx.push(obj)
                outs.append(fx.request(handler, proxy, name, *extra))
                del fx.stash[:]
        finally:
            fx.close()
        ok = outs[0] == outs[1] and not hook_calls
        if h["kind"] == "forwarder":
            ok = ok and inner.data == {"ok": "V"}
        return {"result_on_object": list(outs[0]), "result_on_hookless_twin": list(outs[1]), "hook_calls": hook_calls}, ok
    # service: reads by configuration, writes and deletes always refused
    class Svc(rpyc.Service):
        exposed_val = "SV"
        plainval = "PV"
    svc = Svc()
    fx = Fixture(cfgd, service_b=svc)
    try:
        root = fx.pair.a.call(lambda: fx.pair.a.conn.root)
        name = "val" if h["listed"] else "plainval"
        out = fx.request(handler, root, name, *extra)
    finally:
        fx.close()
    if "Config" in h["allowed"]:
        # default-like configuration: exposed twin of `val` is readable when getattr is enabled; `plainval` only if public
        if not h["enabled"]:
            ok = out == ("exc", "AttributeError")
        elif h["listed"]:
            ok = out == ("ok", "SV")
        else:
            ok = out == (("ok", "PV") if cfgd["allow_public_attrs"] else ("exc", "AttributeError"))
    else:
        ok = out == ("exc", "AttributeError") and Svc.exposed_val == "SV" and Svc.plainval == "PV" and \
            "val" not in svc.__dict__ if hasattr(svc, "__dict__") else out == ("exc", "AttributeError")
    return {"result": list(out)}, ok


# --------------------------------------------------------------------------- comparison route
def cmp_route(chk, consts, rnd):
    """HANDLE_CMP looks the operator up on the object's type through the same policy"""
    ran = []

    class Cmp(object):
        def __eq__(self, other):
            ran.append("__eq__")
            return True

        def __hash__(self):
            return 1

        def secret_cmp(self, other):
            ran.append("secret_cmp")
            return True

        def _hidden_cmp(self, other):
            ran.append("_hidden_cmp")
            return True
    n = 0
    for safe in (True, False):
        for public in (True, False):
            for enabled in (True, False):
                fx = Fixture({"allow_safe_attrs": safe, "allow_public_attrs": public, "allow_getattr": enabled,
                              "allow_all_attrs": False, "allow_exposed_attrs": True})
                try:
                    for opname, allowed in (("__eq__", enabled and safe), ("secret_cmp", enabled and public),
                                            ("_hidden_cmp", False)):
                        del ran[:]
                        proxy = fx.push(Cmp())
                        out = fx.request(consts.HANDLE_CMP, proxy, 5, opname)
                        del fx.stash[:]
                        n += 1
                        chk.evaluated()
                        good = (out == ("ok", True) and ran == [opname]) if allowed else (out == ("exc", "AttributeError") and not ran)
                        if not good:
                            chk.violation("cmp-route:%s" % opname,
                                          "C06 comparison request with operator %r under safe=%s public=%s getattr=%s gave %s, "
                                          "operators run: %s (allowed: %s)" % (opname, safe, public, enabled, out, ran, allowed),
                                          {"mode": "cmp", "op": opname, "safe": safe, "public": public, "enabled": enabled})
                finally:
                    fx.close()
    return n


# --------------------------------------------------------------------------- histories
def probe_decisions(side_client, consts, proxy_of):
    """what a connection currently allows, observed from outside: read of a private, a public and an exposed attribute,
    write of a public attribute"""
    res = []
    for handler, name, extra in ((consts.HANDLE_GETATTR, "_hid", ()), (consts.HANDLE_GETATTR, "pub", ()),
                                 (consts.HANDLE_GETATTR, "exp", ()), (consts.HANDLE_SETATTR, "pub2", ("NEW",))):
        tag = object()
        side_client.do(tag, lambda: side_client.conn.sync_request(handler, proxy_of, name, *extra))
        kind, val = side_client.results.pop(tag)
        res.append(kind == "ok")
    return tuple(res)


EXPECTED = {"default": (False, False, True, False), "public": (False, True, True, False), "classic": (True, True, False, True),
            "classic_shared": (True, True, False, True),
            # opened from the application's mapping while that also said allow_all_attrs
            "public_all": (True, True, True, False)}
# the application's one configuration mapping, handed to every "public" connection and to "classic_shared" ones
SHARED_PUBLIC = {"allow_public_attrs": True}


class HistConn(object):
    def __init__(self, kind):
        import rpyc
        hc = self
        self.kind = kind
        self.stash = []

        class Cli(rpyc.Service):
            def exposed_take(self, x):
                hc.stash.append(x)
        if kind == "classic":
            svc, cfg = rpyc.SlaveService(), {}
        elif kind == "classic_shared":
            svc, cfg = rpyc.SlaveService(), SHARED_PUBLIC
        else:
            svc, cfg = rpyc.VoidService(), (SHARED_PUBLIC if kind == "public" else {})
        self.pair = Pair(Cli(), svc, config_b=cfg, patch_time=False)
        t = Thing()
        t._hid, t.pub, t.exposed_exp, t.pub2 = "H", "P", "E", "P2"
        self.obj = t
        b = self.pair.b
        try:
            b.call(lambda: b.conn.root.take(t))
        except AttributeError as ex:
            raise IsolationBroken("a connection with the default configuration refused access to an exposed method (%s)" % ex)
        self.proxy = self.stash[-1]

    def probe(self, consts):
        self.obj.pub2 = "P2"
        return probe_decisions(self.pair.a, consts, self.proxy)

    def close(self):
        a = self.pair.a
        a.call(a.conn.close)
        self.pair.settle()
        self.pair.close()


def histories(chk, g, consts, rnd, max_paths):
    from rpyc.core import protocol
    pristine = copy.deepcopy({k: v for k, v in protocol.DEFAULT_CONFIG.items()})
    paths = tlc.edge_cover_paths(g)
    if len(paths) > max_paths:
        rnd.shuffle(paths)
        paths = paths[:max_paths]
    for pi, path in enumerate(paths):
        live = {}
        labels = []
        try:
            cur = path[0]
            for (label, dst) in path[1:]:
                if g.nodes[cur] == g.nodes[dst]:
                    cur = dst
                    continue
                labels.append(label)
                if label.startswith("Edit"):
                    # the application edits its own mapping, in place
                    if g.nodes[dst]["appall"]:
                        SHARED_PUBLIC["allow_all_attrs"] = True
                    else:
                        SHARED_PUBLIC.pop("allow_all_attrs", None)
                elif label.startswith("Open"):
                    kind = label.split('"')[1]
                    live[len(g.nodes[dst]["conns"])] = HistConn(kind)
                else:
                    i = int(label.split("(")[1].rstrip(")"))
                    live.pop(i).close()
                chk.evaluated()
                st = g.nodes[dst]
                for i, hc in live.items():
                    rec = st["conns"][i - 1]
                    want = EXPECTED["public_all" if (rec["kind"] == "public" and rec.get("a")) else rec["kind"]]
                    got = hc.probe(consts)
                    if got != want:
                        chk.violation("isolation:%s" % hc.kind, "C06 after %s the %s connection #%d allows (read private, read public, "
                                      "read exposed, write public) = %s, its own configuration says %s" % (labels, hc.kind, i, got, want),
                                      {"mode": "history", "labels": labels})
                app = {"allow_public_attrs": True}
                if st.get("appall"):
                    app["allow_all_attrs"] = True
                if SHARED_PUBLIC != app:
                    chk.violation("shared-config-mutated", "C06 after %s the application's configuration mapping, which it passes to "
                                  "several connections, was modified by a connection: %s" % (labels, dict(SHARED_PUBLIC)),
                                  {"mode": "history", "labels": labels})
                    SHARED_PUBLIC.clear()
                    SHARED_PUBLIC.update(app)
                now = {k: v for k, v in protocol.DEFAULT_CONFIG.items()}
                if now != pristine:
                    diff = {k: (pristine.get(k), now.get(k)) for k in set(now) | set(pristine) if now.get(k) != pristine.get(k)}
                    chk.violation("default-config", "C06 after %s the process-wide default configuration changed: %s" % (labels, diff),
                                  {"mode": "history", "labels": labels})
                chk.distinct(("hist", cur, label, dst))
                cur = dst
            chk.validated()
            if pi < 1:
                chk.sample({"kind": "history of connections replayed", "steps": labels})
        finally:
            SHARED_PUBLIC.clear()
            SHARED_PUBLIC["allow_public_attrs"] = True
            for hc in live.values():
                try:
                    hc.close()
                except Exception:
                    pass
        if pi % 20 == 19:
            gc.collect()
    return len(paths)


def main():
    chk = Check(PID)
    gc.disable()
    from rpyc.core import consts
    rnd = random.Random(chk.seed + 6)
    cases, hooks, g = run_tlc(chk)
    if len(cases) != 10752:
        raise tlc.MachineryError("expected 10752 cases, TLC exported %d" % len(cases))
    if chk.replay:
        rep = json.load(open(chk.replay))["replay"]
        if rep.get("mode") == "case":
            case = rep["case"]
            fx = Fixture(rpyc_config(case["cfg"], case["op"], rnd))
            try:
                obs, ok = exec_case(fx, consts, case, rnd)
            finally:
                fx.close()
            print(obs, "allowed:", case["allowed"], "->", "ok" if ok else "VIOLATION")
            if not ok:
                print("VIOLATION property=%s replay=%s" % (PID, chk.replay))
            return 0 if ok else 1
        print("rerun ./check C06")
        return 0
    try:
        chk.cov["histories"] = histories(chk, g, consts, rnd, 40 if not chk.thorough else 10000)
    except IsolationBroken as ex:
        chk.violation("isolation:default-refuses", "C06 %s" % ex, {"mode": "history"})
    # group the table by configuration and operation (one connection pair each)
    groups = {}
    for c in cases:
        key = (json.dumps(c["cfg"], sort_keys=True), c["op"])
        groups.setdefault(key, []).append(c)
    keys = sorted(groups)
    n = 0
    for key in keys:
        cfg = json.loads(key[0])
        fx = Fixture(rpyc_config(cfg, key[1], rnd))
        try:
            can_direct = hasattr(fx.pair.b.conn, "_HANDLERS")
            for case in groups[key]:
                try:
                    # the whole table goes through the handler table directly; a seeded third of it (all of it in the
                    # thorough tier, or when the handler table is not accessible) also travels as real requests
                    if can_direct:
                        obs, ok = exec_case(fx, consts, case, rnd, direct=True)
                        if ok and (chk.thorough or rnd.random() < 0.25):
                            obs, ok = exec_case(fx, consts, case, rnd)
                            chk.cov["cases_as_real_requests"] = chk.cov.get("cases_as_real_requests", 0) + 1
                    else:
                        obs, ok = exec_case(fx, consts, case, rnd)
                except IsolationBroken as ex:
                    chk.violation("isolation:default-refuses", "C06 %s" % ex, {"mode": "case", "case": case})
                    break
                n += 1
                chk.evaluated()
                chk.distinct(("case", key, case["nc"], case["shape"]["plain"], case["shape"]["twin"]))
                if ok:
                    chk.validated()
                else:
                    chk.violation("table:%s:%s:%s" % (case["op"], case["nc"], "+".join(sorted(case["allowed"]))),
                                  "C06 %s of a %s name (%s) on an object with plain=%s twin=%s under %s gave %s, changed %s; "
                                  "permitted: %s" % (case["op"], case["nc"], obs["name"], case["shape"]["plain"], case["shape"]["twin"],
                                                     cfg, obs["result"], obs["changed"], case["allowed"]),
                                  {"mode": "case", "case": case})
                if n % 2500 == 1:
                    chk.sample({"kind": "decision-table case executed through a real connection", "case": case, "observed": obs})
        finally:
            fx.close()
        if n % 500 < 30:
            gc.collect()
    chk.cov["table_cases"] = n
    for h in hooks:
        try:
            obs, ok = exec_hook_case(consts, h, rnd, None)
        except IsolationBroken as ex:
            chk.violation("isolation:default-refuses", "C06 %s" % ex, {"mode": "hook"})
            continue
        chk.evaluated()
        chk.distinct(("hook", h["kind"], h["op"], h["listed"], h["enabled"], h.get("w")))
        if not ok:
            chk.violation("hooks:%s:%s" % (h["kind"], h["op"]), "C06 %s object, %s of a %s name with the operation %s in the "
                          "configuration: observed %s, permitted %s" % (h["kind"], h["op"], "listed" if h["listed"] else "unlisted",
                                                                        "enabled" if h["enabled"] else "disabled", obs, h["allowed"]),
                          {"mode": "hook", "case": h})
    chk.cov["hook_cases"] = len(hooks)
    try:
        chk.cov["cmp_cases"] = cmp_route(chk, consts, rnd)
    except IsolationBroken as ex:
        chk.violation("isolation:default-refuses", "C06 %s" % ex, {"mode": "cmp"})
    chk.assumptions += ["attribute names are instance attributes of a plain object (values identify which attribute was reached)",
                        "where the statement does not say which of a permitted plain name and its exposed twin is accessed when the "
                        "plain attribute does not exist, both are accepted"]
    return chk.finish(rule="evaluations = cases / history steps executed on real connections; distinct = distinct table cases, "
                      "hook cases and history edges", exhaustive=True)


if __name__ == "__main__":
    main_wrapper(main)
