"""C11 - every way a connection can end leaves both sides clean, once, and nobody hanging (spec: RpycTeardown).

The real Connection + Channel + SocketStream stack runs over scripted fake sockets.  For every workload the transport
calls of a fault-free run are counted; then the run is repeated with a failure (error / end-of-stream) injected at every
single recv / send call, with and without fragmentation (so that faults also fall inside headers and bodies), and with
every order of the two sides' close() calls.  After every public call the property's obligations are checked; every run's
event log is validated by TLC against Trace_RpycTeardown.
"""
import errno
import gc
import random

from harness import sim, tlc
from harness.common import Check, main_wrapper
from harness.pair import Pair

PID = "C11"
INVS = ["HookAtMostOnce", "ClosedIsClean", "HookMeansClosed", "NoInventedValue", "BlockedIsPending", "PeerNotices"]


class Fixture(object):
    def __init__(self, fault=None, frag=None, timeout=None, log_events=True, b_serve_all=False, warm=False):
        import rpyc
        fx = self
        self.hooks = {"A": 0, "B": 0}
        self.fault = fault          # (call index, kind) kind in error|eof
        self.fault_fired = None
        self.white = True
        self.base = 0
        self.warming = False
        self.frag = frag
        self.events = []
        self.ops = []               # (callno, side, op) of every transport call
        self.lent = {"A": ["lent-by-A"], "B": ["lent-by-B"]}
        self.depth = {"A": 0, "B": 0}

        class Svc(rpyc.Service):
            def __init__(self, name):
                self.name = name
                self.stash = []

            def on_disconnect(self, conn):
                fx.hooks[self.name] += 1

            def exposed_echo(self, x):
                return x

            def exposed_getlist(self):
                return fx.lent[self.name]

            def exposed_keep(self, f):
                self.stash.append(f)
                return len(self.stash)

            def exposed_callme(self, f, x):
                return f(x) + 1

            def exposed_stuck(self, d):
                fx.simtime.sleep(d)        # a handler that keeps this side busy for d virtual seconds
                return d

        cfg = {"sync_request_timeout": timeout}
        self.pair = p = Pair(Svc("A"), Svc("B"), config_a=dict(cfg), config_b=dict(cfg), transport="socket",
                             script=self.script, serve_eof=True, serve_all_sides=("B",) if b_serve_all else (),
                             prepare=self._wrap_conn)
        self.simtime = sim.SimTime(p.sched)
        p.max_steps = 30000          # (a whole fault run takes a few thousand steps)
        if warm:
            # first contact (GETROOT, and the INSPECT round trip made from inside the unboxing of the root reference) is a nested
            # exchange the teardown specification does not model: workloads whose logs go to TLC start after it
            self.warming = True
            try:
                for side in (p.a, p.b):
                    if side.name not in p.serve_all_sides:
                        side.call(lambda c=side.conn: c.root)
            finally:
                self.warming = False
            self.base = self.last_callno
            del self.ops[:]
            del self.events[:]

    # -- scripted transport
    last_callno = 0

    def script(self, sock, op, callno, arg):
        self.last_callno = callno
        if self.warming:
            return ("data", self.frag) if (self.frag and op == "recv") else (("accept", self.frag) if (self.frag and op == "send") else None)
        callno = callno - self.base
        self.ops.append((callno, sock.name, op))
        f = self.fault
        if f is not None and callno == f[0] and op == "poll" and f[1] == "pollerr" and self.fault_fired is None and \
                self.depth.get(sock.name) == 1:      # serve_all's own wait, not one nested in a handler (whose failure is the
                                                      # handler's failure and travels to the requester as such)
            # the readiness call itself fails (EIO): not an end-of-stream; serve_all() must still close on its way out
            self.fault_fired = (sock.name, op, f[1])
            self.log("pollfault", sock.name)
            return ("error", errno.EIO)
        if f is not None and callno == f[0] and op in ("recv", "send") and f[1] != "pollerr" and self.fault_fired is None:
            self.fault_fired = (sock.name, op, f[1])
            if op == "recv":
                self.log("recvfault", sock.name)
                return ("eof",) if f[1] == "eof" else ("error", errno.ECONNRESET)
            self.log("sendfault", sock.name)
            return ("timeout",) if f[1] == "stimeout" else ("error", errno.EPIPE)
        if self.frag:
            return ("data", self.frag) if op == "recv" else (("accept", self.frag) if op == "send" else None)
        return None

    # -- event log at public-call boundaries
    def log(self, call, x):
        p = getattr(self, "pair", None)
        if p is None:
            return
        self.events.append({"call": call, "x": x, "cA": bool(p.a.conn.closed), "cB": bool(p.b.conn.closed),
                            "hA": self.hooks["A"], "hB": self.hooks["B"]})

    def _wrap_conn(self, name, conn):
        fx = self
        try:
            o_serve, o_close, o_areq = conn.serve, conn.close, conn.async_request
        except AttributeError:
            self.white = False
            return

        def serve(*a, **k):
            fx.depth[name] += 1
            try:
                r = o_serve(*a, **k)
            except BaseException as ex:  # noqa
                fx.depth[name] -= 1
                if not isinstance(ex, sim.SimAbort) and fx.depth[name] == 0:
                    # (a serve() that fails without the stream having ended - the readiness call failed - changes nothing by itself)
                    fx.log("servefail" if isinstance(ex, OSError) else "serve", name)
                raise
            fx.depth[name] -= 1
            if r and fx.depth[name] == 0:
                fx.log("serve", name)
            return r

        def close(*a, **k):
            fx.depth[name] += 1
            try:
                return o_close(*a, **k)
            finally:
                fx.depth[name] -= 1
                if fx.depth[name] == 0:
                    fx.log("close", name)

        def async_request(*a, **k):
            fx.depth[name] += 1
            try:
                return o_areq(*a, **k)
            finally:
                fx.depth[name] -= 1
                if fx.depth[name] == 0:
                    fx.log("issue", name)
        conn.serve, conn.close, conn.async_request = serve, close, async_request

    def table_empty(self, side):
        try:
            return len(side.conn._local_objects._dict) == 0
        except AttributeError:
            return None

    def close(self):
        self.pair.close()


# --------------------------------------------------------------------------- workloads
# a workload is a list of steps (side, tag, kind, payload); kinds: sync/async/wait/nested/getref/keep/useref/close
WORKLOADS = {
    "sync": [("A", "r1", "sync", 1), ("A", "r2", "sync", "x" * 40), ("B", "r3", "sync", 3), ("A", "c", "close", None)],
    "async": [("A", "a1", "async", 1), ("A", "a2", "async", 2), ("A", "a1", "wait", None), ("A", "a2", "wait", None),
              ("B", "c", "close", None)],
    "nested": [("A", "n1", "nested", 5), ("B", "n2", "nested", 6), ("A", "c", "close", None)],
    "refs": [("A", "g1", "getref", None), ("A", "k1", "keep", None), ("B", "g2", "getref", None), ("A", "u1", "useref", "g1"),
             ("B", "u2", "useref", "g2"), ("B", "c", "close", None)],
}
CLOSE_ORDERS = ["single", "other-first", "both"]


def run(chk, wname, fault=None, frag=None, timeout=None, close_order="single", judge=None, b_serve_all=False):
    """one execution; returns (events, outcomes, problems, n_transport_calls, ops)"""
    fx = Fixture(fault=fault, frag=frag, timeout=timeout, b_serve_all=b_serve_all, warm=wname in TRACEABLE)
    p = fx.pair
    problems = []
    outcomes = {}
    values = {}
    expected = {}
    steps = list(WORKLOADS[wname])
    if b_serve_all:
        steps = [st for st in steps if st[0] == "A"]
        if not steps or steps[-1][2] != "close":
            steps.append(("A", "c", "close", None))
        close_order = "single"
    closer = steps[-1][0]
    other = "B" if closer == "A" else "A"
    if close_order == "other-first":
        steps = steps[:-1] + [(other, "c0", "close", None), (closer, "c", "close", None)]
    roots = {}

    def boundary(where):
        for side in (p.a, p.b):
            n = side.name
            if fx.hooks[n] > 1:
                problems.append(("hook-twice", "disconnect hook of side %s ran %d times (%s)" % (n, fx.hooks[n], where)))
            if side.conn.closed:
                if fx.hooks[n] != 1:
                    problems.append(("closed-without-hook", "side %s reports closed but its disconnect hook ran %d times (%s)"
                                     % (n, fx.hooks[n], where)))
                te = fx.table_empty(side)
                if te is False:
                    problems.append(("closed-holding", "side %s reports closed but still holds objects for the peer (%s)"
                                     % (n, where)))
            elif fx.hooks[n] >= 1:
                problems.append(("hook-before-closed", "disconnect hook of side %s ran but the side does not report closed (%s)"
                                 % (n, where)))

    def do(side, tag, fn):
        try:
            side.do(tag, fn)
        except sim.Deadlock as ex:
            problems.append(("hang", "nobody can make progress: %s" % ex))
            return False
        except sim.StepLimit as ex:
            # a side keeps running without ever coming to rest: e.g. it meets the end of the stream on every serve() and never closes
            problems.append(("spin", "the two sides never come to rest (%s): closed flags A=%s B=%s" % (
                ex, p.a.conn.closed, p.b.conn.closed)))
            return False
        if tag in side.results:
            kind, val = side.results[tag]
            outcomes[tag] = classify(kind, val)
            if kind == "ok":
                values[tag] = val
        else:
            problems.append(("hang", "call %s on side %s never returned (blocked at %r)" % (tag, side.name, side.thread.pending)))
            return False
        return True

    try:
        for (sn, tag, kind, arg) in steps:
            side = p.side(sn)
            conn = side.conn
            if side.thread.done or not side.idle:
                break
            if kind == "sync":
                expected[tag] = arg
                ok = do(side, tag, lambda: conn.root.echo(arg))
            elif kind == "async":
                import rpyc
                expected[tag] = None
                ok = do(side, tag, lambda: rpyc.async_(conn.root.echo)(arg))
                expected["w:" + tag] = arg
            elif kind == "wait":
                ares = values.get(tag)
                if ares is None:
                    continue
                ok = do(side, "w:" + tag, lambda: ares.value)
            elif kind == "nested":
                expected[tag] = arg * 2 + 1
                ok = do(side, tag, lambda: conn.root.callme(lambda v: v * 2, arg))
            elif kind == "getref":
                ok = do(side, tag, lambda: conn.root.getlist())
            elif kind == "keep":
                ok = do(side, tag, lambda: conn.root.keep(lambda v: v))
            elif kind == "useref":
                ref = values.get(arg)
                if ref is None:
                    continue
                expected[tag] = 1
                ok = do(side, tag, lambda: len(ref))
            elif kind == "close":
                if close_order == "both" and tag == "c":
                    # both sides call close() before either has seen the other's close request
                    p.autoserve = False
                    ok = do(side, tag, conn.close)
                    o = p.side(other)
                    if o.idle:
                        ok = do(o, "c-both", o.conn.close) and ok
                    p.autoserve = True
                    try:
                        p.settle()
                    except sim.Deadlock as ex:
                        problems.append(("hang", "after simultaneous close: %s" % ex))
                else:
                    ok = do(side, tag, conn.close)
                if not conn.closed:
                    problems.append(("close-not-closed", "close() returned on side %s but it does not report closed" % sn))
            boundary("after %s on %s" % (tag, sn))
            if not ok:
                break
        # whoever is still blocked or serving gets the chance to notice
        try:
            p.settle()
        except sim.Deadlock as ex:
            problems.append(("hang", "at the end: %s" % ex))
        except sim.StepLimit as ex:
            problems.append(("spin", "at the end the two sides never come to rest (%s): closed flags A=%s B=%s" % (
                ex, p.a.conn.closed, p.b.conn.closed)))
        boundary("at quiescence")
        if b_serve_all:
            sar = p.b.serve_all_result
            if sar is not None and not p.b.conn.closed:
                problems.append(("serve_all-not-closed", "serve_all() on side B %s (%r) but the side does not report closed" % sar))
            if sar is None and (p.a.conn.closed or fx.fault_fired):
                problems.append(("serve_all-running", "the connection ended but serve_all() on side B is still running"))
        for side in (p.a, p.b):
            if side.stream.closed and not side.conn.closed and side.idle:
                problems.append(("stream-closed-conn-open", "side %s: the stream is closed and the side keeps serving, yet the "
                                 "connection does not report closed" % side.name))
        anyclosed = p.a.conn.closed or p.b.conn.closed
        # requests issued afterwards: EOFError on a closed side; never a hang
        for side in (p.a, p.b):
            if side.idle:
                c = side.conn
                wasclosed = c.closed
                if do(side, "late-" + side.name, lambda: c.root.echo("late")):
                    o = outcomes["late-" + side.name]
                    if wasclosed and o != "EOFError":
                        problems.append(("late-request", "a request issued on the closed side %s ended with %s instead of EOFError"
                                         % (side.name, o)))
                    expected["late-" + side.name] = "late"
                boundary("after late request on " + side.name)
        try:
            p.settle()
        except (sim.Deadlock, sim.StepLimit) as ex:
            problems.append(("hang", "after late requests: %s" % ex))
        if anyclosed or fx.fault_fired:
            for side in (p.a, p.b):
                if not side.conn.closed and side.idle:
                    problems.append(("peer-not-closed", "the connection ended at the peer but side %s, which keeps serving, never "
                                     "became closed" % side.name))
        # closing again is a no-op
        for side in (p.a, p.b):
            if side.idle and side.conn.closed:
                h = dict(fx.hooks)
                do(side, "again-" + side.name, side.conn.close)
                if outcomes.get("again-" + side.name) != "ok" or h != fx.hooks:
                    problems.append(("close-again", "a second close() on side %s was not a no-op (%s, hooks %s -> %s)" % (
                        side.name, outcomes.get("again-" + side.name), h, fx.hooks)))
        boundary("after second close")
        # outcomes: the expected value, EOFError, or the request's own timeout - nothing else
        for tag, o in outcomes.items():
            if tag.startswith("again-") or tag in ("c", "c0", "c-both"):
                if o != "ok":
                    problems.append(("close-raised", "close() raised %s" % o))
                continue
            if o == "ok":
                if tag in expected and expected[tag] is not None and values.get(tag) != expected[tag]:
                    problems.append(("wrong-value", "request %s returned %r, which the peer never sent (expected %r)" % (
                        tag, values.get(tag), expected[tag])))
            elif o not in ("EOFError", "TimeoutError"):
                problems.append(("wrong-failure", "request %s ended with %s (neither its value, EOFError nor its timeout)" % (tag, o)))
        return fx.events, outcomes, problems, p.net.calls, list(fx.ops), fx.white
    finally:
        fx.close()


def run_xclose(chk, peer_stuck, timeout=None):
    """side A: one thread is blocked waiting for a reply while a second thread of the same process closes the
    connection.  The waiter must fail with EOFError at once - not when the peer eventually reacts."""
    fx = Fixture(timeout=timeout)
    p = fx.pair
    s = p.sched
    problems = []
    res = {}
    try:
        root = p.a.call(lambda: p.a.conn.root)
        meth = p.a.call(lambda: root.stuck if peer_stuck else root.echo)
        if not peer_stuck:
            p.autoserve = False        # the peer is simply slow: it does not look at its socket for a while

        def waiter():
            try:
                res["w"] = ("ok", meth(1000 if peer_stuck else 7))
            except BaseException as ex:  # noqa
                if isinstance(ex, sim.SimAbort):
                    raise
                res["w"] = ("exc", type(ex).__name__)
            res["t"] = s.now
        w = s.spawn("A-waiter", waiter)
        try:
            s.settle()
            t_close = s.now

            def closer():
                try:
                    p.a.conn.close()
                    res["c"] = "ok"
                except BaseException as ex:  # noqa
                    if isinstance(ex, sim.SimAbort):
                        raise
                    res["c"] = type(ex).__name__
            c = s.spawn("A-closer", closer)
            s.settle()
            if "w" not in res:
                # let virtual time pass: whatever else can wake the waiter (the peer's reaction, a timeout) is too late
                try:
                    s.run(sim.FirstPolicy(), until=lambda: w.done, max_steps=100000)
                except sim.Deadlock as ex:
                    problems.append(("hang", "a request blocked in another thread hangs for ever after close(): %s" % ex))
                if "w" in res:
                    problems.append(("hang-until-peer", "a request blocked in another thread only ended (%s) %s virtual seconds after "
                                     "the local close() returned" % (res["w"], res.get("t", 0) - t_close)))
            elif res["w"] != ("exc", "EOFError"):
                problems.append(("wrong-failure", "the blocked request ended with %s instead of EOFError" % (res["w"],)))
            if res.get("c") != "ok":
                problems.append(("close-raised", "close() from the second thread: %s" % res.get("c")))
            if fx.hooks["A"] != 1 or not p.a.conn.closed:
                problems.append(("closed-without-hook", "after close() from a second thread: closed=%s hooks=%s" % (
                    p.a.conn.closed, fx.hooks["A"])))
        except sim.Deadlock as ex:
            problems.append(("hang", str(ex)))
        return problems
    finally:
        fx.close()


def classify(kind, val):
    if kind == "ok":
        return "ok"
    return type(val).__name__


def validate(chk, traces, label):
    traces = [t for t in traces if t]
    if not traces:
        return
    batch = list(traces)
    n = len(batch)
    base = max(traces, key=len)
    # self-test of the binding: a hook counted once too often, and a close() that changed the state left out of the log, must
    # both be rejected (a close() of an already closed side is a no-op and may be left out: not used for the test)
    j = next((i for i, e in enumerate(base) if e["call"] == "close"), None)
    if j is not None:
        b1 = [dict(e) for e in base]
        b1[j] = dict(b1[j], hA=b1[j]["hA"] + 1)
        batch += [b1]
    j2 = next((i for i, e in enumerate(base) if e["call"] == "close" and i > 0 and e.get("x") in ("A", "B") and
               e["c" + e["x"]] and not base[i - 1]["c" + e["x"]]), None)
    if j2 is not None:
        b2 = [dict(e) for e in base]
        del b2[j2]
        batch += [b2]
    out, res = tlc.validate_traces("Trace_RpycTeardown", batch, "", ["MaxReq = 100000"], invariants=INVS, name="c11")
    chk.add_tlc(res, "trace validation batch (RpycTeardown, %s)" % label)
    if res.violation:
        chk.violation("trace-invariant:" + res.violation, "C11 an implementation run reaches a state violating %s"
                      % res.violation, {"mode": "trace", "tlc": res.stdout[-1500:]})
    for jj in range(n, len(batch)):
        if out[jj] is not None and out[jj][0] == out[jj][1]:
            raise tlc.MachineryError("self-test: corrupted trace accepted by Trace_RpycTeardown")
    acc = 0
    for i in range(n):
        if out[i] is not None and out[i][0] == out[i][1]:
            acc += 1
        elif out[i] is not None:
            chk.drift.append("%s run %d rejected at event %d/%d: %r" % (label, i, out[i][0] + 1, out[i][1],
                                                                          traces[i][out[i][0]]))
    chk.validated(acc)
    chk.cov["impl_traces"] = chk.cov.get("impl_traces", 0) + n
    chk.cov["impl_traces_accepted"] = chk.cov.get("impl_traces_accepted", 0) + acc


TRACEABLE = ("sync", "async")     # workloads whose handlers issue no nested requests (the spec does not model those)


def campaign(chk, wname, frag, timeout, orders, kinds, stride=1, b_serve_all=False):
    events, outcomes, problems, ncalls, ops, white = run(chk, wname, frag=frag, timeout=timeout, b_serve_all=b_serve_all)
    chk.evaluated()
    for key, msg in problems:
        chk.violation(key, "C11 %s [workload %s, no fault]" % (msg, wname), {"workload": wname, "fault": None, "frag": frag,
                                                                             "timeout": timeout, "close_order": "single"})
    traces = [events] if wname in TRACEABLE and white else []
    positions = [c for (c, side, op) in ops if op in ("recv", "send")]
    if b_serve_all:
        # the side that sits in serve_all() also meets failures of the readiness call (serve_all closes on every way out)
        positions = sorted(positions + [c for (c, side, op) in ops if op == "poll" and side == "B"][::2])
        kinds = tuple(kinds) + ("pollerr",)
    spins = [0]
    for order in orders:
        for pos in positions[::stride]:
            if spins[0] >= 3:
                break                     # reported already; every further run would burn its whole step budget the same way
            for kind in kinds:
                opname = next(op for (c, s_, op) in ops if c == pos)
                if kind == "eof" and opname != "recv":
                    continue
                if kind == "stimeout" and opname != "send":
                    continue                    # (a receive that times out is retried: not a failure)
                if (kind == "pollerr") != (opname == "poll"):
                    continue
                ev, outc, probs, _, _, _ = run(chk, wname, fault=(pos, kind), frag=frag, timeout=timeout, close_order=order,
                                               b_serve_all=b_serve_all)
                chk.evaluated()
                chk.distinct((wname, frag, timeout, order, pos, kind, b_serve_all))
                if sum(1 for key, _ in probs if key == "spin"):
                    spins[0] += 1
                for key, msg in probs:
                    chk.violation(key, "C11 %s [workload %s, %s at transport call %d (%s), fragmentation %s, close order %s]" % (
                        msg, wname, kind, pos, opname, frag, order),
                        {"workload": wname, "fault": [pos, kind], "frag": frag, "timeout": timeout, "close_order": order,
                         "b_serve_all": b_serve_all})
                if wname in TRACEABLE and white:
                    traces.append(ev)
                if len(chk._distinct) % 200 == 0:
                    gc.collect()
        if order != "single":
            ev, outc, probs, _, _, _ = run(chk, wname, frag=frag, timeout=timeout, close_order=order)
            chk.evaluated()
            for key, msg in probs:
                chk.violation(key, "C11 %s [workload %s, no fault, close order %s]" % (msg, wname, order),
                              {"workload": wname, "fault": None, "frag": frag, "timeout": timeout, "close_order": order})
            if wname in TRACEABLE and white:
                traces.append(ev)
    if traces:
        chk.sample({"kind": "event log of a fault run (validated by TLC)", "workload": wname, "events": traces[-1][:30]})
    return traces, len(positions)


def real_pipe_runs(chk):
    """real OS pipes (PipeStream): the peer's ends are closed without a CLOSE message while the side is idle in serve_all();
    an empty pipe whose writer is gone reports hang-up only - the side must still notice, close and run its hook once"""
    import threading
    import time
    import rpyc
    from rpyc.core.stream import PipeStream
    for variant in ("idle", "after-traffic"):
        hooks = []

        class Svc(rpyc.Service):
            def on_disconnect(self, conn):
                hooks.append(1)

            def exposed_echo(self, x):
                return x
        s1, s2 = PipeStream.create_pair()
        c1 = rpyc.connect_stream(s1, Svc)
        t = threading.Thread(target=lambda: _quiet(c1.serve_all), daemon=True)
        t.start()
        c2 = rpyc.connect_stream(s2, rpyc.VoidService)
        ok = True
        if variant == "after-traffic":
            ok = c2.root.echo(5) == 5
        time.sleep(0.4)
        s2.close()                      # the peer vanishes: no CLOSE message
        t.join(4)
        chk.evaluated()
        chk.distinct(("real-pipe", variant))
        bad = None
        if not ok:
            bad = ("pipe-call", "a call over real pipes returned a wrong value")
        elif t.is_alive():
            bad = ("pipe-hang", "serve_all() is still running 4 s after the peer's pipe ends were closed (side closed: %s, hook ran %d "
                   "time(s))" % (c1.closed, len(hooks)))
        elif not c1.closed:
            bad = ("pipe-not-closed", "serve_all() returned but the connection is not closed")
        elif len(hooks) != 1:
            bad = ("pipe-hook", "the disconnect hook ran %d times" % len(hooks))
        if bad:
            chk.violation("realpipe:" + bad[0], "C11 [real OS pipes, peer vanishes %s] %s" % (variant, bad[1]), {"workload": "realpipe", "variant": variant})
        else:
            chk.validated()
        for c in (c1, c2):
            _quiet(c.close)


def concurrent_end_runs(chk):
    """two threads of one side end the connection at once: thread A is stopped before each statement of close() / _cleanup()
    (reached through an explicit close() or through serve() meeting end-of-stream) while the main thread runs close() to
    completion; afterwards: no exception from either, the hook ran exactly once, the side is closed"""
    import threading
    import time
    import rpyc
    from rpyc.core.protocol import Connection
    from rpyc.core.stream import PipeStream
    from harness import linepause as lp
    n = 0
    try:
        for func in (Connection.close, Connection._cleanup):
            for (ln, text) in lp.lines_of(func):
                for how in ("close", "eof-in-serve", "peer-close-request"):
                    hooks, errs = [], []

                    class Svc(rpyc.Service):
                        def on_disconnect(self, conn):
                            hooks.append(1)
                    s1, s2 = PipeStream.create_pair()
                    c1 = rpyc.connect_stream(s1, Svc)
                    c2 = rpyc.connect_stream(s2, rpyc.VoidService)

                    def a():
                        try:
                            if how == "close":
                                c1.close()
                            else:
                                c1.serve(2)
                        except EOFError:
                            pass
                        except Exception as ex:  # noqa
                            errs.append("thread A: %r" % (ex,))
                    bp = lp.arm(func, ln, thread_filter=lambda th: th.name == "verif-A")
                    t = threading.Thread(target=a, daemon=True, name="verif-A")
                    t.start()
                    if how == "eof-in-serve":
                        time.sleep(0.02)
                        s2.close()
                    elif how == "peer-close-request":
                        time.sleep(0.02)
                        threading.Thread(target=lambda: _quiet(c2.close), daemon=True).start()
                    hit = bp.wait_hit(1.0)
                    if not hit:
                        # thread A never came to this statement: nothing to interleave (and no second close() while it polls)
                        bp.release()
                        lp.disarm_all()
                        if how == "close":
                            t.join(3)
                        for c in (c2, c1):
                            _quiet(c.close)
                        t.join(3)
                        chk.evaluated()
                        n += 1
                        continue
                    done = threading.Event()

                    def b():
                        try:
                            c1.close()
                        except Exception as ex:  # noqa
                            errs.append("second close(): %r" % (ex,))
                        done.set()
                    tb = threading.Thread(target=b, daemon=True)
                    tb.start()
                    done.wait(0.3)                # it may have to wait for the thread that is stopped inside the clean-up
                    bp.release()
                    t.join(3)
                    tb.join(3)
                    lp.disarm_all()
                    chk.evaluated()
                    n += 1
                    chk.distinct(("concurrent-end", func.__name__, text, how))
                    bad = None
                    if t.is_alive() or tb.is_alive():
                        bad = ("hang", "a thread never returned")
                    elif errs:
                        bad = ("raised", "; ".join(errs))
                    elif len(hooks) != 1:
                        bad = ("hook", "the disconnect hook ran %d times" % len(hooks))
                    elif not c1.closed:
                        bad = ("not-closed", "the side does not report closed")
                    if bad:
                        chk.violation("concurrent-end:%s:%s" % (bad[0], how), "C11 [two threads of one side end the connection at once: one "
                                      "stopped before `%s` (%s, reached by %s), the other calls close()] %s" % (text, func.__name__, how, bad[1]),
                                      {"workload": "concurrent-end", "func": func.__name__, "text": text, "how": how})
                    else:
                        chk.validated()
                    for c in (c1, c2):
                        _quiet(c.close)
    finally:
        lp.shutdown()
    chk.cov["concurrent_end_scenarios"] = n


def request_vs_close_runs(chk):
    """a thread's request racing with close() by another thread of the same side: the requesting thread is stopped before each
    statement of the request path while close() runs to completion; the request must then end with its own reply or with
    EOFError (or its timeout) - nothing else, and never hang"""
    import threading
    import time
    import rpyc
    from rpyc.core.protocol import Connection
    from rpyc.core.async_ import AsyncResult
    from rpyc.core.stream import PipeStream
    from rpyc.core.async_ import AsyncResultTimeout
    from harness import linepause as lp
    funcs = [Connection.sync_request, Connection.async_request, Connection._async_request, Connection._send, Connection.serve,
             Connection._dispatch, Connection._seq_request_callback, AsyncResult.wait, AsyncResult.__call__]
    n = reached = 0
    try:
        for func in funcs:
            for (ln, text) in lp.lines_of(func):
                class Svc(rpyc.Service):
                    def exposed_echo(self, x):
                        return x
                s1, s2 = PipeStream.create_pair()
                c1 = rpyc.connect_stream(s1, rpyc.VoidService, config={"sync_request_timeout": 3})
                c2 = rpyc.connect_stream(s2, Svc)
                srv = threading.Thread(target=lambda: _quiet(c2.serve_all), daemon=True)
                srv.start()
                out = []
                try:
                    echo = c1.root.echo
                except Exception:
                    for c in (c1, c2):
                        _quiet(c.close)
                    continue

                def a():
                    try:
                        out.append(("ok", echo(41)))
                    except BaseException as ex:  # noqa
                        out.append(("exc", ex))
                bp = lp.arm(func, ln, thread_filter=lambda th: th.name == "verif-R")
                t = threading.Thread(target=a, daemon=True, name="verif-R")
                t.start()
                hit = bp.wait_hit(0.6)
                if hit:
                    closer = threading.Thread(target=lambda: _quiet(c1.close), daemon=True)
                    closer.start()
                    closer.join(0.4)
                    overlapped = closer.is_alive()      # close() needs the stopped thread (it holds the send lock): they then run together
                    bp.release()
                    closer.join(4)
                else:
                    overlapped = False
                    bp.release()
                t.join(6)
                lp.disarm_all()
                chk.evaluated()
                n += 1
                if hit:
                    reached += 1
                    chk.distinct(("request-vs-close", func.__qualname__, text))
                    bad = None
                    if t.is_alive():
                        bad = ("hang", "the request is still blocked 6 s after close() returned (its timeout is 3 s)")
                    elif not out:
                        bad = ("lost", "the requesting thread ended without an outcome")
                    elif out[0][0] == "ok" and out[0][1] != 41:
                        bad = ("value", "the request returned %r, the peer sent 41" % (out[0][1],))
                    elif out[0][0] == "exc" and not isinstance(out[0][1], (EOFError, AsyncResultTimeout)):
                        bad = ("exception", "the request failed with %s: %s instead of EOFError" % (type(out[0][1]).__name__, out[0][1]))
                    if bad:
                        chk.violation("request-vs-close:%s" % bad[0], "C11 [a request of one thread racing with close() by another thread "
                                      "of the same side; the requester stopped before `%s` (%s)] %s" % (text, func.__qualname__, bad[1]),
                                      {"workload": "request-vs-close", "func": func.__qualname__, "text": text})
                    else:
                        chk.validated()
                for c in (c1, c2):
                    _quiet(c.close)
    finally:
        lp.shutdown()
    chk.cov["request_vs_close"] = {"scenarios": n, "window_reached": reached}


def stream_close_windows(chk):
    """the thread that closes the connection is stopped before each statement of the stream's close() while another thread of
    the same side serves and sends a request: both must end in EOFError (or their timeout), whatever the closing thread has
    done so far"""
    import socket
    import threading
    import rpyc
    from rpyc.core.stream import SocketStream, PipeStream
    from rpyc.core.async_ import AsyncResultTimeout
    from harness import linepause as lp
    n = 0
    try:
        for cls in (SocketStream, PipeStream):
            for (ln, text) in lp.lines_of(cls.close):
                if cls is SocketStream:
                    a, b = socket.socketpair()
                    s1, s2 = SocketStream(a), SocketStream(b)
                else:
                    s1, s2 = PipeStream.create_pair()
                c1 = rpyc.connect_stream(s1, rpyc.VoidService)
                c2 = rpyc.connect_stream(s2, rpyc.VoidService)
                bp = lp.arm(cls.close, ln, thread_filter=lambda th: th.name == "verif-closer")
                t = threading.Thread(target=lambda: _quiet(c1.close), name="verif-closer", daemon=True)
                t.start()
                hit = bp.wait_hit(1.0)
                res = []
                if hit:
                    for op in ("serve", "ping"):
                        try:
                            if op == "serve":
                                c1.serve(0.05)
                            else:
                                c1.ping(timeout=0.5)
                            res.append((op, None))
                        except BaseException as ex:  # noqa
                            res.append((op, ex))
                bp.release()
                t.join(3)
                lp.disarm_all()
                chk.evaluated()
                n += 1
                if hit:
                    chk.distinct(("stream-close", cls.__name__, text))
                    bad = [(op, ex) for op, ex in res if ex is not None and not isinstance(ex, (EOFError, AsyncResultTimeout))]
                    for op, ex in bad[:1]:
                        chk.violation("stream-close:%s:%s" % (cls.__name__, op), "C11 [one thread inside %s.close(), stopped before `%s`; "
                                      "another thread of the same side calls %s] it failed with %s: %s instead of EOFError" % (
                                          cls.__name__, text, "serve()" if op == "serve" else "ping()", type(ex).__name__, ex),
                                      {"workload": "stream-close", "stream": cls.__name__, "text": text})
                    if not bad:
                        chk.validated()
                for c in (c1, c2):
                    _quiet(c.close)
    finally:
        lp.shutdown()
    chk.cov["stream_close_windows"] = n


def _quiet(f):
    try:
        f()
    except Exception:
        pass


def main():
    chk = Check(PID)
    gc.disable()
    if chk.replay:
        import json
        rep = json.load(open(chk.replay))["replay"]
        if rep.get("workload") == "xclose":
            probs = run_xclose(chk, rep["peer_stuck"], rep["timeout"])
            for key, msg in probs:
                print("VIOLATION property=%s replay=%s\n   %s" % (PID, chk.replay, msg))
            return 1 if probs else 0
        ev, outc, probs, _, _, _ = run(chk, rep["workload"], fault=tuple(rep["fault"]) if rep["fault"] else None,
                                       frag=rep["frag"], timeout=rep["timeout"], close_order=rep["close_order"],
                                       b_serve_all=rep.get("b_serve_all", False))
        for key, msg in probs:
            print("VIOLATION property=%s replay=%s\n   %s" % (PID, chk.replay, msg))
        return 1 if probs else 0
    res = tlc.require_ok(tlc.run_tlc("RpycTeardown", "MC_RpycTeardown.cfg", coverage=True, timeout=3000), "MC_RpycTeardown")
    if res.violation:
        raise tlc.MachineryError("specification RpycTeardown violates " + res.violation)
    chk.add_tlc(res, "exhaustive: 3 requests, read/write faults on either side at any point, all orders of close()")
    for a in ("Issue", "Close", "Serve", "WaitOrphan", "RecvFault", "SendFault"):
        if res.coverage.get(a, (0, 0))[1] == 0:
            raise tlc.MachineryError("vacuity: action %s never taken" % a)
    traces = []
    total_pos = 0
    if chk.thorough:
        plan = [(w, None, to, CLOSE_ORDERS, ("error", "eof", "stimeout"), 1, False) for w in WORKLOADS for to in (None, 30)]
        plan += [(w, frag, None, ["single", "both"], ("error", "eof", "stimeout"), 2, False) for w in WORKLOADS for frag in (7, 2)]
        plan += [(w, frag, None, ["single"], ("error", "eof"), 1 if frag is None else 3, True) for w in WORKLOADS for frag in (None, 3)]
    else:
        plan = [("sync", None, None, CLOSE_ORDERS, ("error", "eof"), 1, False),
                ("async", None, None, ["single", "both"], ("error",), 1, False),
                ("nested", None, None, ["single"], ("error",), 2, False), ("refs", None, None, ["single", "other-first"], ("error",), 3, False),
                ("sync", 3, None, ["single"], ("error", "stimeout"), 5, False), ("async", 3, None, ["single"], ("stimeout",), 3, False), ("sync", None, 30, ["single"], ("error",), 4, False),
                ("sync", None, None, ["single"], ("error",), 1, True), ("refs", None, None, ["single"], ("error",), 2, True),
                ("nested", None, None, ["single"], ("error",), 3, True)]
    for stuck in (True, False):
        for to in (None, 30):
            probs = run_xclose(chk, stuck, to)
            chk.evaluated()
            chk.distinct(("xclose", stuck, to))
            for key, msg in probs:
                chk.violation("xclose:" + key, "C11 %s [close() from a second thread while a request is blocked; peer %s]" % (
                    msg, "stuck in a handler" if stuck else "slow"), {"workload": "xclose", "peer_stuck": stuck, "timeout": to})
    nval = 0
    for (w, frag, to, orders, kinds, stride, sa) in plan:
        tr, npos = campaign(chk, w, frag, to, orders, kinds, stride, b_serve_all=sa)
        traces += tr
        total_pos += npos
        while len(traces) >= 1500:          # validated as they accumulate: the thorough tier records tens of thousands of runs
            validate(chk, traces[:1500], "fault runs %d.." % nval)
            nval += 1500
            del traces[:1500]
        gc.collect()
    chk.cov["fault_positions"] = total_pos
    real_pipe_runs(chk)
    concurrent_end_runs(chk)
    request_vs_close_runs(chk)
    stream_close_windows(chk)
    # a connection shared by threads (RpycServe's setting): the peer vanishes at an arbitrary moment
    from harness.drivers import serve_common as svc
    for cfgf, what in (("MC_RpycServeEof_2.cfg", "2 client threads"), ("MC_RpycServeEof_1bg.cfg", "1 client + background serving thread")):
        r2 = tlc.require_ok(tlc.run_tlc("MC_RpycServeEof", cfgf, workers=4, coverage=True), "RpycServeEof")
        if r2.violation:
            raise tlc.MachineryError("RpycServeEof violates " + r2.violation)
        chk.add_tlc(r2, "RpycServeEof (%s): the peer vanishes at any moment: EveryoneEnds (liveness), FailOnlyWhenGone, StillRight" % what)
        for a in ("SPollEof", "SRaise", "CWriteEof", "PeerGone"):
            if r2.coverage.get(a, (0, 0))[1] == 0:
                raise tlc.MachineryError("vacuity: action %s never taken in %s" % (a, cfgf))
    r3 = tlc.run_tlc("MC_RpycServeEof", "MC_RpycServeEof_2_nonotify.cfg", workers=4)
    if r3.violation != "EveryoneEnds":
        raise tlc.MachineryError("without the notification on the way out of serve() RpycServeEof is expected to violate EveryoneEnds, "
                                 "TLC says %r" % r3.violation)
    chk.add_tlc(r3, "RpycServeEof without the notification in serve()'s finally block: a waiter sleeps for ever (counterexample)")

    def on_bad(bad, rep):
        for key, msg in bad:
            chk.violation("shared:" + key, "C11 [several threads on one connection] " + msg, rep)
    for cfgname in (("2", "2bg") if not chk.thorough else ("2", "2bg", "3", "3bg", "1bg")):
        svc.explore_eof(chk, cfgname, on_bad, 60 if not chk.thorough else 600)
    if svc.handoff_repaired():
        # ... next to threads that only serve (serve_threaded's loop), and with replies that carry references, so that the stream
        # can end while a thread is inside the INSPECT round trip it makes from within a dispatch
        from harness.drivers import serve_nested as sn
        svc.explore_eof(chk, "2p", on_bad, 40 if not chk.thorough else 400)
        # the real Connection.serve_threaded(2) in a thread of the program: its workers end, it joins them and closes
        svc.explore_eof(chk, "2st", on_bad, 30 if not chk.thorough else 300)
        for name in (("n2a",) if not chk.thorough else ("n2a", "n2ab", "n3a")):
            ncfg = sn.NCONFIGS[name]
            svc.explore_eof(chk, name, on_bad, 40 if not chk.thorough else 400, configs=sn.NCONFIGS,
                            fixture=sn.fixture_for(ncfg["nested"], ncfg.get("pool", ())),
                            want=lambda r, n=ncfg["nested"]: ("ref:vmod.C<%s>" % n[r]) if r in n else svc.tag(r))
    for i in range(0, len(traces), 1500):
        validate(chk, traces[i:i + 1500], "fault runs %d.." % (nval + i))
    chk.assumptions += [
        "faults are socket-level: recv raising ECONNRESET or returning end-of-stream, send raising EPIPE, at one transport "
        "call per run (fragmented runs put them inside headers and bodies); the readiness call (poll) is made to fail (EIO) only for a side that sits in serve_all(), whose every way out closes the connection",
        "each side is single-threaded and keeps serving while idle (as a server does); obligations are checked when a public "
        "call returns or raises; in addition 2-3 threads (and a background serving thread) share one connection whose stream "
        "ends at an arbitrary scheduling point (virtual time, requests without timeout)",
        "a failure while *sending a reply* from a bare serve() may leave `closed` false until the next serve (DESIGN.md, C11)"]
    return chk.finish(rule="evaluations = complete runs of a workload with one injected fault, judged at every public-call "
                      "boundary; distinct = distinct (workload, fragmentation, timeout, close order, fault position, fault kind)")


if __name__ == "__main__":
    main_wrapper(main)
