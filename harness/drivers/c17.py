"""C17 - closing a server ends all its clients; departed clients leave nothing behind (spec: RpycServer)."""
import gc
import random

from harness import tlc
from harness.common import Check, main_wrapper
from harness.drivers import servers_common as sc

PID = "C17"


def run(chk, which, pid):
    rnd = random.Random(chk.seed + 17)
    g = sc.spec_graph(chk, False, "multi")
    g1 = sc.spec_graph(chk, True, "oneshot")
    paths = tlc.edge_cover_paths(g)
    paths1 = tlc.edge_cover_paths(g1)
    rnd.shuffle(paths)
    rnd.shuffle(paths1)
    # paths that contain a ServerClose with clients up are the interesting ones for C17, Misbehave ones for C16
    def has(path, word):
        return any(l.startswith(word) for l, _ in path[1:])
    key = "ServerClose" if which == "c17" else "Misbehave"
    paths.sort(key=lambda p: (0 if has(p, key) else 1))
    nq = 10 if not chk.thorough else 120
    plan = [("threaded", "tcp", False, paths[:nq]), ("threaded", "unix", True, paths[nq:nq + nq // 2]),
            ("pool", "tcp", False, paths[nq // 2:nq // 2 + nq]), ("pool", "tcp", True, paths[2 * nq:2 * nq + nq // 3]),
            ("oneshot", "tcp", False, paths1[:max(6, nq // 2)])]
    n = 0
    for flavour, transport, auth, ps in plan:
        for path in ps:
            gg = g1 if flavour == "oneshot" else g
            bad, labels = sc.replay_path(chk, gg, path, flavour, transport, auth, rnd, which)
            n += 1
            chk.distinct((flavour, transport, auth, tuple(labels)))
            mine = [b for b in bad if b[2] == which or which == "both"]
            if not mine:
                chk.validated()
            for key_, msg, w in mine:
                chk.violation("%s:%s" % (flavour, key_), "%s [%s server, %s%s] %s" % (pid, flavour, transport, ", authenticator" if auth else "", msg),
                              {"flavour": flavour, "transport": transport, "auth": auth, "labels": labels})
            if n == 1:
                chk.sample({"kind": "TLC path replayed on a real server", "flavour": flavour, "steps": labels})
    chk.cov["paths_replayed"] = n
    if which == "c17":
        departures(chk, pid)
    # ---- the accept loop, the serving thread and close() as separate steps (RpycServerSteps), and their schedules on the real servers
    from harness.drivers import server_windows as sw
    from harness import linepause
    res = tlc.require_ok(tlc.run_tlc("RpycServerSteps", "MC_RpycServerSteps.cfg", workers=4, coverage=True), "RpycServerSteps")
    if res.violation:
        raise tlc.MachineryError("RpycServerSteps (repaired accept) violates " + res.violation)
    chk.add_tlc(res, "RpycServerSteps, accept() re-checking _closed: 3 clients, every interleaving of accept loop / serving threads / "
                "close(): NoServiceAfterClose, NothingLeftBehind, DepartedLeaveNothing, GoodUntouched, Settles")
    res = tlc.run_tlc("RpycServerSteps", "MC_RpycServerSteps_pinned.cfg", workers=4)
    if res.violation != "NoServiceAfterClose":
        raise tlc.MachineryError("the pinned accept()/close() design is expected to violate NoServiceAfterClose, TLC says %r" % res.violation)
    chk.add_tlc(res, "RpycServerSteps without the re-check (pinned tree): TLC's counterexample - close() between `if not self.active` "
                "and `self.clients.add(sock)` - is one of the windows executed below")
    # the thread-pool server: accept thread, polling thread, worker and close() over fd_to_conn / poll registrations / queue,
    # descriptor numbers handed out lowest-free
    res = tlc.require_ok(tlc.run_tlc("RpycPoolSteps", "MC_RpycPoolSteps.cfg" if chk.thorough else "MC_RpycPoolSteps_q.cfg", workers=8,
                                     coverage=True), "RpycPoolSteps")
    if res.violation:
        raise tlc.MachineryError("RpycPoolSteps (repaired tree) violates " + res.violation)
    chk.add_tlc(res, "RpycPoolSteps, repaired tree: 2 clients, 2 descriptor numbers: GoodNeverCut, NothingLeftBehind, TableTruthful"
                + (", DepartedAreForgotten, CloseFinishes" if chk.thorough else ""))
    want = "GoodNeverCut" if which == "c16" else "NothingLeftBehind"
    res = tlc.run_tlc("RpycPoolSteps", "MC_RpycPoolSteps_pinned_%s.cfg" % which, workers=4)
    if res.violation != want:
        raise tlc.MachineryError("the pinned pool design is expected to violate %s, TLC says %r" % (want, res.violation))
    chk.add_tlc(res, "RpycPoolSteps, pinned tree (%s): TLC's counterexample is one of the windows executed below" % (
        "_drop_connection(fd) after EOFError with the descriptor number reused" if which == "c16"
        else "fd_to_conn entry made after close() walked the table"))
    try:
        quick = not chk.thorough
        plan2 = [("threaded", False, 25 if quick else None), ("pool", False, 12 if quick else None)]
        if which == "c16" or not quick:
            plan2.append(("threaded", True, 10 if quick else None))
        for flavour, auth, budget in plan2:
            sw.sweep(chk, which, pid, flavour, auth, rnd, budget)
    finally:
        linepause.shutdown()
    return n


def departures(chk, pid):
    """directed: idle clients of the thread-pool server leave in every way a departure can reach the server - end-of-stream seen
    by a worker (TCP, graceful), error / hang-up seen by the polling thread (TCP reset; any unix-socket close) - while another
    client stays: afterwards the server's tables and its poll set hold exactly the client that stayed"""
    for transport in ("tcp", "unix"):
        for how in ("graceful", "abrupt"):
            fx = sc.ServerFixture("pool", transport, False)
            try:
                for name in ("stay", "go1", "go2"):
                    fx.connect(name)
                    fx.call(name)
                import time
                time.sleep(0.25)                 # everybody idle: all descriptors sit in the poll set
                fx.leave("go1", how)
                fx.leave("go2", how)
                chk.evaluated()
                chk.distinct(("departures", transport, how))
                bad = None
                if not sc.wait_for(lambda: fx.tracked() <= 1, 4):
                    bad = ("left-behind:departures", "the server's table still holds %d connections, 1 client is connected" % fx.tracked())
                elif not sc.wait_for(lambda: not fx.poll_leftovers(), 4):
                    bad = ("poll-left-behind:departures", "the server's poll set still holds descriptor(s) %s of departed clients" % fx.poll_leftovers())
                else:
                    r = fx.call("stay")
                    if r[0] != "ok" or r[1] != 2:
                        bad = ("stay-not-served", "the client that stayed got %r" % (r,))
                if bad:
                    chk.violation("pool:" + bad[0], "%s [pool server, %s, two idle clients leave (%s) while a third stays] %s" % (
                        pid, transport, how, bad[1]), {"flavour": "pool", "transport": transport, "how": how, "mode": "departures"})
                else:
                    chk.validated()
            finally:
                fx.teardown()


def main():
    import threading
    threading.excepthook = lambda args: None      # per-client server threads die noisily on garbage input; that is expected
    chk = Check(PID)
    run(chk, "c17", PID)
    from harness.drivers.forking import run_forking
    run_forking(chk, PID, "c17")
    chk.assumptions += ["real sockets, threads and processes: conditions are awaited with deadlines (4 s), outcomes classified by kind",
                        "client request timeout 8 s: a client of a closed server must see end-of-stream, not that timeout"]
    chk.assumptions += ["schedules at statement granularity are forced with sys.monitoring breakpoints on the real server threads; one thread "
                        "is held inside a window while one other operation runs to completion"]
    return chk.finish(rule="evaluations = steps of TLC paths executed against real servers + window scenarios; distinct = (flavour, "
                      "transport, path) and (statement, phase, intruder)")


if __name__ == "__main__":
    main_wrapper(main)
