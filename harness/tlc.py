"""Running TLC and reading what it prints.

One place for: invoking TLC (exhaustive / -simulate / -dump dot / batch trace validation),
parsing its summary lines and coverage, a parser for TLA+ values as TLC prints them,
a loader for `-dump dot,actionlabels` state graphs and an edge-cover path generator.
"""
import os
import re
import shutil
import subprocess
import sys
import time
import uuid

VERIF = os.path.dirname(os.path.dirname(os.path.abspath(__file__)))
SPEC = os.path.join(VERIF, "spec")
OUT = os.path.join(VERIF, "out")
JAR = "/opt/veriftools/tla/tla2tools.jar"
DEPS = "/opt/veriftools/tla/CommunityModules-deps.jar"


class MachineryError(Exception):
    """The verification machinery itself failed (exit code 2): says nothing about rpyc."""


class FrozenDict(dict):
    """hashable dict for TLA+ records / functions"""

    def __hash__(self):
        return hash(frozenset(self.items()))

    def _ro(self, *a, **k):
        raise TypeError("frozen")
    __setitem__ = __delitem__ = clear = pop = popitem = setdefault = update = _ro


# --------------------------------------------------------------------------- value parser
_tok = re.compile(r"""
    \s*(?:
      (?P<str>"(?:[^"\\]|\\.)*")
    | (?P<int>-?\d+)
    | (?P<op><<|>>|\|->|:>|@@|\.\.|[\[\]{}(),])
    | (?P<id>[A-Za-z_][A-Za-z0-9_!]*)
    )""", re.X)


def _tokens(s):
    pos = 0
    out = []
    n = len(s)
    while pos < n:
        m = _tok.match(s, pos)
        if not m:
            if s[pos:].strip() == "":
                break
            raise ValueError("cannot tokenize TLA+ value at %r" % s[pos:pos + 40])
        pos = m.end()
        k = m.lastgroup
        out.append((k, m.group(k)))
    return out


def parse_value(s):
    toks = _tokens(s)
    v, i = _pv(toks, 0)
    if i != len(toks):
        raise ValueError("trailing tokens in %r" % s)
    return v


def _pv(t, i):
    k, v = t[i]
    if k == "int":
        val = int(v)
        if i + 1 < len(t) and t[i + 1] == ("op", ".."):
            hi = int(t[i + 2][1])
            return frozenset(range(val, hi + 1)), i + 3
        return val, i + 1
    if k == "str":
        return bytes(v[1:-1], "utf8").decode("unicode_escape"), i + 1
    if k == "id":
        if v == "TRUE":
            return True, i + 1
        if v == "FALSE":
            return False, i + 1
        return v, i + 1  # model value
    if v == "<<":
        items = []
        i += 1
        while t[i] != ("op", ">>"):
            x, i = _pv(t, i)
            items.append(x)
            if t[i] == ("op", ","):
                i += 1
        return tuple(items), i + 1
    if v == "{":
        items = []
        i += 1
        while t[i] != ("op", "}"):
            x, i = _pv(t, i)
            items.append(x)
            if t[i] == ("op", ","):
                i += 1
        return frozenset(items), i + 1
    if v == "[":
        d = {}
        i += 1
        while t[i] != ("op", "]"):
            name = t[i][1]
            assert t[i + 1] == ("op", "|->"), t[i:i + 3]
            x, i = _pv(t, i + 2)
            d[name] = x
            if t[i] == ("op", ","):
                i += 1
        return FrozenDict(d), i + 1
    if v == "(":
        d = {}
        i += 1
        while t[i] != ("op", ")"):
            key, i = _pv(t, i)
            assert t[i] == ("op", ":>"), t[i]
            x, i = _pv(t, i + 1)
            d[key] = x
            if t[i] == ("op", "@@"):
                i += 1
        return FrozenDict(d), i + 1
    raise ValueError("unexpected token %r" % (t[i],))


def parse_state(text):
    """'/\\ x = 1\n/\\ y = <<>>'  ->  {'x': 1, 'y': ()}"""
    st = {}
    # conjuncts start with "/\ name = " at line start
    parts = re.split(r"(?:^|\n)\s*/\\ ", "\n" + text.strip())
    for p in parts:
        p = p.strip()
        if not p:
            continue
        m = re.match(r"([A-Za-z_][A-Za-z0-9_]*) = (.*)\Z", p, re.S)
        if not m:
            raise ValueError("bad conjunct %r" % p[:80])
        st[m.group(1)] = parse_value(m.group(2))
    return st


# --------------------------------------------------------------------------- running TLC
class TLCResult(object):
    def __init__(self):
        self.stdout = ""
        self.rc = None
        self.generated = 0
        self.distinct = 0
        self.depth = 0
        self.violation = None      # name of violated invariant/property, 'deadlock', or None
        self.error_trace = []      # list of (action_label, state dict)
        self.coverage = {}         # action name -> (distinct, taken)
        self.wall = 0.0
        self.metadir = None
        self.cmd = None

    @property
    def ok(self):
        return self.rc == 0 and self.violation is None


def java_cmd(jvm_props=(), heap="8g"):
    return ["java", "-XX:+UseParallelGC", "-Xss256m", "-Xmx" + heap] + ["-D" + p for p in jvm_props] + \
           ["-cp", JAR + ":" + DEPS, "tlc2.TLC"]


def run_tlc(module, cfg=None, workers=None, simulate=None, depth=None, seed=None, dump=None,
            coverage=False, deadlock=True, env=None, timeout=1800, jvm_props=(), extra=(),
            keep_meta=False, cwd=SPEC, heap="8g"):
    """module: module name (file <cwd>/<module>.tla); cfg: config file name (default <module>.cfg)."""
    os.makedirs(os.path.join(OUT, "tlc"), exist_ok=True)
    meta = os.path.join(OUT, "tlc", "%s.%d.%s" % (module, os.getpid(), uuid.uuid4().hex[:8]))
    cmd = java_cmd(jvm_props, heap) + ["-metadir", meta, "-noGenerateSpecTE"]
    if cfg:
        cmd += ["-config", cfg]
    if workers is None:
        workers = int(os.environ.get("VERIF_TLC_WORKERS", "8"))
    cmd += ["-workers", str(workers)]
    if simulate:
        cmd += ["-simulate", simulate]
    if depth:
        cmd += ["-depth", str(depth)]
    if seed is not None:
        cmd += ["-seed", str(seed)]
    if dump:
        cmd += ["-dump", "dot,actionlabels", dump]
    if coverage:
        cmd += ["-coverage", "1"]
    if not deadlock:
        cmd += ["-deadlock"]
    cmd += list(extra) + [module + ".tla"]
    e = dict(os.environ)
    e.pop("JAVA_TOOL_OPTIONS", None)
    if env:
        e.update(env)
    res = TLCResult()
    res.cmd = " ".join(cmd)
    res.metadir = meta
    t0 = time.time()
    try:
        p = subprocess.run(cmd, cwd=cwd, env=e, stdout=subprocess.PIPE, stderr=subprocess.STDOUT,
                           timeout=timeout)
        res.rc = p.returncode
        res.stdout = p.stdout.decode("utf8", "replace")
    except subprocess.TimeoutExpired as ex:
        res.rc = -9
        res.stdout = (ex.stdout or b"").decode("utf8", "replace") + "\n[harness] TLC timed out\n"
    finally:
        res.wall = time.time() - t0
        if not keep_meta:
            shutil.rmtree(meta, ignore_errors=True)
    _parse_output(res)
    return res


_sum_re = re.compile(r"(\d+) states generated, (\d+) distinct states found")
_depth_re = re.compile(r"depth of the complete state graph search is (\d+)")
_cov_re = re.compile(r"^<(\w+) line (\d+), col (\d+) to line (\d+), col (\d+) of module (\w+)>(?:: (\d+):(\d+))?", re.M)


def _parse_output(res):
    out = res.stdout
    for m in _sum_re.finditer(out):
        res.generated, res.distinct = int(m.group(1)), int(m.group(2))
    m = _depth_re.search(out)
    if m:
        res.depth = int(m.group(1))
    m = re.search(r"Error: Invariant (\S+) is violated", out)
    if m:
        res.violation = m.group(1)
    elif "Error: Deadlock reached" in out:
        res.violation = "deadlock"
    elif re.search(r"Error: Action property (\S+)", out):
        res.violation = re.search(r"Error: Action property (\S+)", out).group(1)
    elif re.search(r"Error: Temporal property (\S+) was violated", out):
        res.violation = re.search(r"Error: Temporal property (\S+) was violated", out).group(1)
    elif "Error: Temporal properties were violated" in out:
        res.violation = "temporal"
    elif re.search(r"Error: .*POSTCONDITION|Error: Evaluating postcondition|Postcondition .* violated", out, re.I):
        res.violation = "postcondition"
    elif re.search(r"Error: Assumption .* is false", out):
        res.violation = "assumption"
    if res.violation:
        res.error_trace = parse_error_trace(out)
    for m in _cov_re.finditer(out):
        if m.group(7) is not None:
            name = m.group(1)
            d, t = int(m.group(7)), int(m.group(8))
            od, ot = res.coverage.get(name, (0, 0))
            res.coverage[name] = (od + d, ot + t)


_state_hdr = re.compile(r"^State (\d+): <?([^>\n]*)>?\s*$", re.M)


def parse_error_trace(out):
    trace = []
    hdrs = list(_state_hdr.finditer(out))
    for i, h in enumerate(hdrs):
        end = hdrs[i + 1].start() if i + 1 < len(hdrs) else len(out)
        body = out[h.end():end]
        # body ends at first blank line
        body = body.split("\n\n")[0]
        label = h.group(2).strip()
        label = label.split(" line ")[0]
        try:
            st = parse_state(body)
        except Exception:
            st = {"_raw": body}
        trace.append((label, st))
    return trace


def require_ok(res, what):
    """A TLC run the check depends on must terminate normally; otherwise this is a machinery failure."""
    if res.rc not in (0,) and res.violation is None:
        tail = "\n".join(res.stdout.splitlines()[-40:])
        raise MachineryError("%s: TLC failed rc=%s\n%s" % (what, res.rc, tail))
    return res


# --------------------------------------------------------------------------- state graph
class Graph(object):
    def __init__(self):
        self.nodes = {}    # id -> state dict
        self.init = []     # ids
        self.edges = {}    # id -> list of (label, dst)
        self.nedges = 0


_node_re = re.compile(r'^(-?\d+) \[label="((?:[^"\\]|\\.)*)"(,style = filled)?')
_edge_re = re.compile(r'^(-?\d+) -> (-?\d+) \[label="((?:[^"\\]|\\.)*)"')


def _unesc(s):
    return re.sub(r"\\(.)", lambda m: "\n" if m.group(1) == "n" else m.group(1), s)


def load_dot(path, parse=True):
    g = Graph()
    with open(path) as f:
        for line in f:
            line = line.rstrip("\n")
            m = _edge_re.match(line)
            if m:
                s, d, lab = m.group(1), m.group(2), _unesc(m.group(3))
                g.edges.setdefault(s, []).append((lab, d))
                g.nedges += 1
                continue
            m = _node_re.match(line)
            if m:
                nid, lab, filled = m.group(1), m.group(2), m.group(3)
                txt = _unesc(lab)
                g.nodes[nid] = parse_state(txt) if parse else txt
                if filled:
                    g.init.append(nid)
    return g


def edge_cover_paths(g, max_len=200, skip_self_loops=True):
    """Greedy set of paths from initial states covering every edge (label, src, dst) once.
    Returns list of paths; a path is [init_id, (label, dst_id), (label, dst_id), ...]."""
    # BFS tree for shortest prefix to each node
    from collections import deque
    parent = {}
    dq = deque()
    for i in g.init:
        parent[i] = None
        dq.append(i)
    while dq:
        u = dq.popleft()
        for lab, v in g.edges.get(u, ()):
            if v not in parent:
                parent[v] = (u, lab)
                dq.append(v)

    def prefix(u):
        p = []
        while parent[u] is not None:
            pu, lab = parent[u]
            p.append((lab, u))
            u = pu
        p.reverse()
        return [u] + p

    covered = set()
    paths = []
    todo = []
    for u in g.nodes:
        if u not in parent:
            continue
        for idx, (lab, v) in enumerate(g.edges.get(u, ())):
            if skip_self_loops and v == u:
                continue
            todo.append((u, idx))
    for (u, idx) in todo:
        if (u, idx) in covered:
            continue
        path = prefix(u)
        # mark prefix edges as covered too
        cur = path[0]
        for lab, v in path[1:]:
            for j, (l2, v2) in enumerate(g.edges.get(cur, ())):
                if l2 == lab and v2 == v:
                    covered.add((cur, j))
                    break
            cur = v
        # extend greedily through uncovered edges
        cur = u
        j = idx
        while True:
            lab, v = g.edges[cur][j]
            covered.add((cur, j))
            path.append((lab, v))
            cur = v
            if len(path) > max_len:
                break
            nxt = None
            for jj, (l2, v2) in enumerate(g.edges.get(cur, ())):
                if (cur, jj) not in covered and not (skip_self_loops and v2 == cur):
                    nxt = jj
                    break
            if nxt is None:
                break
            j = nxt
        paths.append(path)
    return paths


def event_then_quiet_paths(g, is_event, quiet_prefs, max_quiet=60):
    """One path per *event* edge: shortest prefix to its source, the edge itself, then a quiet completion that only follows
    edges whose action name is in quiet_prefs (in that order of preference) - i.e. what the system does on its own when the
    environment stays silent.  Unlike a greedy edge cover this observes the consequences of every event in isolation."""
    from collections import deque
    parent = {}
    dq = deque()
    for i in g.init:
        parent[i] = None
        dq.append(i)
    while dq:
        u = dq.popleft()
        for lab, v in g.edges.get(u, ()):
            if v not in parent:
                parent[v] = (u, lab)
                dq.append(v)

    def prefix(u):
        p = []
        while parent[u] is not None:
            pu, lab = parent[u]
            p.append((lab, u))
            u = pu
        p.reverse()
        return [u] + p
    paths = []
    for u in g.nodes:
        if u not in parent:
            continue
        for lab, v in g.edges.get(u, ()):
            if v == u or not is_event(lab):
                continue
            path = prefix(u) + [(lab, v)]
            cur = v
            for _ in range(max_quiet):
                nxt = None
                outs = g.edges.get(cur, ())
                for pref in quiet_prefs:
                    for l2, d2 in outs:
                        if l2.split("(")[0] == pref and d2 != cur:
                            nxt = (l2, d2)
                            break
                    if nxt:
                        break
                if not nxt:
                    break
                path.append(nxt)
                cur = nxt[1]
            paths.append(path)
    return paths


# --------------------------------------------------------------------------- simulate traces
def load_sim_traces(dirpath, prefix="tr"):
    """Files written by `-simulate file=<dir>/tr,num=N`: one behaviour per file -> list of [(label, state), ...]"""
    out = []
    for fn in sorted(os.listdir(dirpath)):
        if not fn.startswith(prefix) or os.path.isdir(os.path.join(dirpath, fn)):
            continue
        txt = open(os.path.join(dirpath, fn)).read()
        beh = []
        for m in re.finditer(r"\\\* <([^\n]*?) line \d+[^\n]*>\s*\nSTATE_(\d+) ==\s*\n(.*?)(?=\n\s*\n|\Z)", txt, re.S):
            beh.append((m.group(1).strip(), parse_state(m.group(3))))
        out.append(beh)
    return out


def simulate_behaviours(module, cfg, num, depth, seed, name="sim", timeout=300, cwd=SPEC, jvm_props=()):
    """run `tlc -simulate` and return the behaviours it generated (and the TLCResult)"""
    d = os.path.join(OUT, "sim", "%s.%d.%s" % (name, os.getpid(), uuid.uuid4().hex[:8]))
    os.makedirs(d)
    try:
        res = run_tlc(module, cfg, workers=1, simulate="file=%s/tr,num=%d" % (d, num), depth=depth, seed=seed,
                      timeout=timeout, cwd=cwd, jvm_props=jvm_props)
        return load_sim_traces(d), res
    finally:
        shutil.rmtree(d, ignore_errors=True)


def sany(module, cwd=SPEC):
    p = subprocess.run(["java", "-cp", JAR + ":" + DEPS, "tla2sany.SANY", module + ".tla"], cwd=cwd,
                       stdout=subprocess.PIPE, stderr=subprocess.STDOUT)
    out = p.stdout.decode("utf8", "replace")
    ok = p.returncode == 0 and "Semantic errors" not in out and "Parse Error" not in out and "Fatal" not in out \
        and "*** Errors" not in out
    return ok, out


def pcal(module, cwd=SPEC):
    p = subprocess.run(["java", "-cp", JAR, "pcal.trans", "-nocfg", module + ".tla"], cwd=cwd,
                       stdout=subprocess.PIPE, stderr=subprocess.STDOUT)
    return p.returncode == 0, p.stdout.decode("utf8", "replace")


# --------------------------------------------------------------------------- batch trace validation
def validate_traces(trace_module, traces, const_defs, const_cfg, invariants=(), name="tv", timeout=1800,
                    extra_cfg=(), keep=False, dfs=False):
    """Validate a batch of implementation traces against <trace_module>.tla (in spec/).

    traces     : list of traces (each a list of JSON-able event records)
    const_defs : TLA+ definitions added to the generated root module (text)
    const_cfg  : list of cfg lines for the CONSTANTS section (e.g. 'Threads <- TVThreads')
    Returns (list of (matched, total) per trace, TLCResult).
    The trace module must define TraceSpec, Progress (a CONSTRAINT), Report (a POSTCONDITION) and the constant
    NTraces, and read the traces with JsonDeserialize(IOEnv.TRACE_FILE).
    """
    import json
    d = os.path.join(OUT, "tv", "%s.%d.%s" % (name, os.getpid(), uuid.uuid4().hex[:8]))
    os.makedirs(d)
    try:
        tf = os.path.join(d, "traces.json")
        with open(tf, "w") as f:
            json.dump(traces, f)
        root = "TV_" + re.sub(r"\W", "_", name)
        with open(os.path.join(d, root + ".tla"), "w") as f:
            f.write("---- MODULE %s ----\nEXTENDS %s\n%s\n====\n" % (root, trace_module, const_defs))
        with open(os.path.join(d, root + ".cfg"), "w") as f:
            f.write("SPECIFICATION TraceSpec\nCONSTANTS\n")
            for c in const_cfg:
                f.write("  %s\n" % c)
            f.write("  NTraces = %d\n" % len(traces))
            f.write("CONSTRAINT Progress\nPOSTCONDITION Report\nCHECK_DEADLOCK FALSE\n")
            for inv in invariants:
                f.write("INVARIANT %s\n" % inv)
            for x in extra_cfg:
                f.write(x + "\n")
        props = ["TLA-Library=" + SPEC]
        if dfs:
            props.append("tlc2.tool.queue.IStateQueue=StateDeque")
        res = run_tlc(root, root + ".cfg", workers=1, env={"TRACE_FILE": tf}, timeout=timeout,
                      jvm_props=props, cwd=d)
        out = [None] * len(traces)
        for m in re.finditer(r'<<"TRACE", (\d+), (-?\d+), (\d+)>>', res.stdout):
            out[int(m.group(1)) - 1] = (int(m.group(2)), int(m.group(3)))
        if res.rc != 0 and res.violation is None:
            raise MachineryError("trace validation run failed (rc=%s):\n%s" % (res.rc, res.stdout[-3000:]))
        if any(x is None for x in out) and res.violation is None:
            raise MachineryError("trace validation produced no verdict for some traces:\n" + res.stdout[-3000:])
        return out, res
    finally:
        if not keep:
            shutil.rmtree(d, ignore_errors=True)
