"""An encoder of the published brine format that shares no code with rpyc/core/brine.py (subset: None, bool, int, float,
text, bytes, tuple).  Drivers that must build requests although the code under test may have a broken encoder use it."""
import struct


def dump(obj):
    out = []
    _d(obj, out)
    return b"".join(out)


def _bytes(b, out):
    n = len(b)
    if n == 0:
        out.append(b"\x01")
    elif n <= 4:
        out.append(bytes([0x0a + n - 1]) + b)
    elif n < 256:
        out.append(b"\x0e" + struct.pack("!B", n) + b)
    else:
        out.append(b"\x0f" + struct.pack("!L", n) + b)


def _d(obj, out):
    if obj is None:
        out.append(b"\x00")
    elif obj is True:
        out.append(b"\x03")
    elif obj is False:
        out.append(b"\x04")
    elif type(obj) is int:
        if -0x30 <= obj < 0xa0:
            out.append(bytes([obj + 0x50]))
        else:
            t = str(obj).encode("ascii")
            if len(t) < 256:
                out.append(b"\x16" + struct.pack("!B", len(t)) + t)
            else:
                out.append(b"\x17" + struct.pack("!L", len(t)) + t)
    elif type(obj) is float:
        out.append(b"\x18" + struct.pack("!d", obj))
    elif type(obj) is str:
        out.append(b"\x08")
        _bytes(obj.encode("utf8", "surrogatepass"), out)
    elif type(obj) is bytes:
        _bytes(obj, out)
    elif type(obj) is tuple:
        n = len(obj)
        if n == 0:
            out.append(b"\x02")
        elif n <= 4:
            out.append(bytes([0x10 + n - 1]))
        elif n < 256:
            out.append(b"\x14" + struct.pack("!B", n))
        else:
            out.append(b"\x15" + struct.pack("!L", n))
        for it in obj:
            _d(it, out)
    else:
        raise TypeError("refbrine: %r" % (type(obj),))
