"""pytest plugin (loaded with -p harness.plugins.record_frames): records, for every rpyc Channel that exists while the
repository's own tests run, the messages it sends and receives - kind, sequence number, handler - in wire order, and writes
them to $VERIF_FRAME_LOG when the session ends.  Nothing in the repository is edited: Channel.send / Channel.recv are
wrapped from outside for the duration of the session."""
import json
import os
import threading

_events = {}
_order = []
_lock = threading.Lock()


def _refs(boxed, out, consts):
    label, val = boxed
    if label == consts.LABEL_TUPLE:
        for it in val:
            _refs(it, out, consts)
    elif label == consts.LABEL_REMOTE_REF:
        out.append(["remote", int(val[2]) if val[2] else int(val[1])])
    elif label == consts.LABEL_LOCAL_REF:
        out.append(["local", int(val[2]) if val[2] else int(val[1])])


def _log(chan, direction, data):
    from rpyc.core import brine, consts
    try:
        msg, seq, args = brine.load(data)
    except Exception:
        rec = {"d": direction, "k": "garbage", "seq": -1, "h": -1}
    else:
        kind = {consts.MSG_REQUEST: "req", consts.MSG_REPLY: "reply", consts.MSG_EXCEPTION: "exc"}.get(msg, "unknown")
        h = -1
        if kind == "req":
            try:
                h = int(args[0])
            except Exception:
                h = -1
        rec = {"d": direction, "k": kind, "seq": seq if isinstance(seq, int) and 0 <= seq < 2 ** 30 else -1, "h": h}
        refs = []
        try:
            if kind == "req":
                _refs(args[1], refs, consts)
                if h == consts.HANDLE_DEL:
                    # boxed arguments of a release notice: (the object as a local reference, count)
                    b = args[1][1]
                    cnt = b[1][1] if len(b) > 1 else 1
                    refs = [["del", refs[0][1], int(cnt)]] if refs and refs[0][0] == "local" else refs
            elif kind == "reply":
                _refs(args, refs, consts)
        except Exception:
            refs = [["unparsed", 0]]
        if refs:
            rec["refs"] = refs
    key = id(chan)
    with _lock:
        lst = _events.get(key)
        if lst is None or lst[0] is not chan:
            key = (id(chan), len(_order))
            _events[id(chan)] = lst = [chan, key, []]
            _order.append(lst)
        lst[2].append(rec)


def pytest_configure(config):
    from rpyc.core import channel
    C = channel.Channel
    if getattr(C, "_verif_wrapped", False):
        return
    osend, orecv = C.send, C.recv

    def send(self, data):
        _log(self, "S", data)
        return osend(self, data)

    def recv(self):
        data = orecv(self)
        _log(self, "R", data)
        return data
    C.send, C.recv = send, recv
    C._verif_wrapped = True


def pytest_sessionfinish(session, exitstatus):
    path = os.environ.get("VERIF_FRAME_LOG")
    if not path:
        return
    with _lock:
        out = [lst[2] for lst in _order]
    with open(path, "w") as f:
        json.dump(out, f)
