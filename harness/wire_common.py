"""Shared by C04 and C19: Python values <-> the value algebra of spec/RpycWire.tla, and batch evaluation of the
specification's Enc / Dec / Dumpable by TLC."""
import json
import os
import shutil
import struct
import uuid

from harness import tlc
from harness.common import OUT


class Other(object):
    """stands for 'any value outside the algebra' in descriptions"""


def to_desc(v, float_bytes=None):
    """description of a Python value in the algebra of RpycWire (independent of brine)"""
    t = type(v)
    if v is None:
        return {"t": "none"}
    if t is bool:
        return {"t": "true" if v else "false"}
    if v is NotImplemented:
        return {"t": "notimpl"}
    if v is Ellipsis:
        return {"t": "ellipsis"}
    if t is int:
        return {"t": "int", "neg": v < 0, "d": [int(c) for c in str(abs(v))]}
    if t is bytes:
        return {"t": "bytes", "b": list(v)}
    if t is str:
        return {"t": "str", "b": list(v.encode("utf-8", "surrogatepass"))}
    if t is float:
        return {"t": "float", "b": list(float_bytes if float_bytes is not None else struct.pack("!d", v))}
    if t is complex:
        return {"t": "complex", "b": list(float_bytes if float_bytes is not None else struct.pack("!dd", v.real, v.imag))}
    if t is tuple:
        return {"t": "tuple", "items": [to_desc(x) for x in v]}
    if t is frozenset:
        return {"t": "fset", "items": [to_desc(x) for x in tuple(v)]}
    if t is slice:
        return {"t": "slice", "items": [to_desc(v.start), to_desc(v.stop), to_desc(v.step)]}
    return {"t": "other"}


def from_desc(d):
    t = d["t"]
    if t == "none":
        return None
    if t == "true":
        return True
    if t == "false":
        return False
    if t == "notimpl":
        return NotImplemented
    if t == "ellipsis":
        return Ellipsis
    if t == "int":
        n = int("".join(str(x) for x in d["d"]))
        return -n if d["neg"] else n
    if t == "bytes":
        return bytes(d["b"])
    if t == "str":
        return bytes(d["b"]).decode("utf-8", "surrogatepass")
    if t == "float":
        return struct.unpack("!d", bytes(d["b"]))[0]
    if t == "complex":
        r, i = struct.unpack("!dd", bytes(d["b"]))
        return complex(r, i)
    if t == "tuple":
        return tuple(from_desc(x) for x in d["items"])
    if t == "fset":
        return frozenset(from_desc(x) for x in d["items"])
    if t == "slice":
        a, b, c = (from_desc(x) for x in d["items"])
        return slice(a, b, c)
    raise ValueError("cannot build " + t)


def same(a, b):
    """identical type and structure; floats bit-exact"""
    if type(a) is not type(b):
        return False
    if type(a) is float:
        return struct.pack("!d", a) == struct.pack("!d", b)
    if type(a) is complex:
        return struct.pack("!dd", a.real, a.imag) == struct.pack("!dd", b.real, b.imag)
    if type(a) is tuple:
        return len(a) == len(b) and all(same(x, y) for x, y in zip(a, b))
    if type(a) is frozenset:
        if len(a) != len(b):
            return False
        rest = list(b)
        for x in a:
            for i, y in enumerate(rest):
                if same(x, y):
                    del rest[i]
                    break
            else:
                return False
        return True
    if type(a) is slice:
        return same(a.start, b.start) and same(a.stop, b.stop) and same(a.step, b.step)
    return a == b or (a is b)


def is_plain(v):
    t = type(v)
    if v is None or v is NotImplemented or v is Ellipsis or t in (bool, int, float, complex, bytes, str):
        return True
    if t in (tuple, frozenset):
        return all(is_plain(x) for x in v)
    if t is slice:
        return is_plain(v.start) and is_plain(v.stop) and is_plain(v.step)
    return False


def tlc_batch(records, name="wire", laws=False, universe=False, timeout=3000):
    """evaluate Enc/Dumpable (kind 'enc': v) and Dec (kind 'dec': b) of the specification on the given records.
    returns (results by id, universe rows or None, constants, TLCResult)"""
    d = os.path.join(OUT, "wire", "%s.%d.%s" % (name, os.getpid(), uuid.uuid4().hex[:8]))
    os.makedirs(d)
    try:
        inf, outf = os.path.join(d, "in.json"), os.path.join(d, "out.ndjson")
        with open(inf, "w") as f:
            json.dump(records, f)
        env = {"IN_FILE": inf, "OUT_FILE": outf, "CONST_FILE": os.path.join(d, "const.ndjson")}
        if universe:
            env["UNIVERSE_FILE"] = os.path.join(d, "universe.ndjson")
        mod = "RpycWireLaws" if (laws or universe) else "RpycWire"
        res = tlc.run_tlc(mod, "MC_%s.cfg" % mod, workers=2, env=env, timeout=timeout, heap="12g")
        if res.rc != 0:
            i = res.stdout.find("Error:")
            raise tlc.MachineryError("RpycWire batch failed:\n" + res.stdout[i:i + 3000])
        out = {}
        if records:
            for line in open(outf):
                r = json.loads(line)
                out[r["id"]] = r
        uni = [json.loads(l) for l in open(env["UNIVERSE_FILE"])] if universe else None
        const = json.loads(open(env["CONST_FILE"]).readline())
        return out, uni, const, res
    finally:
        shutil.rmtree(d, ignore_errors=True)
