"""An importable module holding canaries: a custom exception class whose constructor must never be run by a receiver
that is not configured to instantiate custom exceptions, and a counter for module-level side effects."""


class CanaryExc(Exception):
    inits = 0
    news = 0

    def __init__(self, *a):
        CanaryExc.inits += 1
        Exception.__init__(self, *a)


class NotAnException(object):
    inits = 0

    def __init__(self, *a):
        NotAnException.inits += 1
