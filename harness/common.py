"""Shared driver plumbing: tiers, seeds, verdicts, known findings, evidence files."""
import json
import os
import sys
import time
import traceback

VERIF = os.path.dirname(os.path.dirname(os.path.abspath(__file__)))
OUT = os.path.join(VERIF, "out")
EVID = os.environ.get("VERIF_EVIDENCE_DIR") or os.path.join(VERIF, "evidence")
KNOWN = os.path.join(VERIF, "known_findings.json")


def load_known():
    try:
        with open(KNOWN) as f:
            return json.load(f)
    except FileNotFoundError:
        return {"findings": [], "fixed": []}


class Check(object):
    """One run of one property's check."""

    def __init__(self, pid, argv=None):
        argv = sys.argv[1:] if argv is None else argv
        self.pid = pid
        self.tier = os.environ.get("VERIF_TIER", "quick")
        self.replay = None
        i = 0
        while i < len(argv):
            if argv[i] == "--tier":
                self.tier = argv[i + 1]
                i += 2
            elif argv[i] == "--replay":
                self.replay = argv[i + 1]
                i += 2
            else:
                i += 1
        if self.tier not in ("quick", "thorough"):
            self.tier = "quick"
        self.seed = int(os.environ.get("VERIF_SEED", "0") or 0)
        self.t0 = time.time()
        self.violations = []        # (key, what, path)
        self.known_hits = {}        # key -> what
        self.cov = {"samples": [], "states": 0, "transitions": 0, "traces_validated_against_impl": 0,
                    "evaluations": 0, "distinct_nontrivial": 0}
        self._distinct = set()
        self.assumptions = []
        self.notes = []
        self.drift = []
        del CURRENT[:]
        CURRENT.append(self)
        self.known = [k for k in load_known().get("findings", []) if k.get("property") == pid]
        os.makedirs(os.path.join(OUT, "replay"), exist_ok=True)
        os.makedirs(EVID, exist_ok=True)

    @property
    def thorough(self):
        return self.tier == "thorough"

    # -- coverage accounting
    def add_tlc(self, res, label=None):
        self.cov["states"] += res.distinct
        self.cov["transitions"] += res.generated
        self.cov.setdefault("tlc_runs", []).append({
            "what": label or "", "distinct_states": res.distinct, "states_generated": res.generated,
            "depth": res.depth, "wall_s": round(res.wall, 2),
            "actions_covered": {k: v[1] for k, v in sorted(res.coverage.items())} if res.coverage else None})

    def evaluated(self, n=1):
        self.cov["evaluations"] += n

    def distinct(self, key):
        self._distinct.add(key)

    def validated(self, n=1):
        self.cov["traces_validated_against_impl"] += n

    def sample(self, obj, limit=6):
        if len(self.cov["samples"]) < limit:
            self.cov["samples"].append(obj)

    def note(self, s):
        self.notes.append(s)

    # -- verdicts
    def violation(self, key, what, replay_obj):
        """key: signature of the failure (matched against known_findings.json); what: one line"""
        for k in self.known:
            if _match(k, key):
                if k["key"] not in self.known_hits:
                    self.known_hits[k["key"]] = k.get("what", what)
                return False
        if any(v[0] == key for v in self.violations):
            return True
        path = os.path.join(OUT, "replay", "%s-%d-%d.json" % (self.pid, os.getpid(), len(self.violations)))
        with open(path, "w") as f:
            json.dump({"property": self.pid, "key": key, "what": what, "seed": self.seed, "tier": self.tier,
                       "replay": replay_obj}, f, indent=1, default=repr)
        self.violations.append((key, what, path))
        sys.stdout.write("[%s] violation: %s\n" % (self.pid, what))
        return True

    def finish(self, level="model_checking", rule=None, exhaustive=None, extra=None):
        cov = self.cov
        cov["distinct_nontrivial"] = len(self._distinct)
        if rule:
            cov["rule"] = rule
        if exhaustive is not None:
            cov["exhaustive"] = exhaustive
        if self.notes:
            cov["notes"] = self.notes
        if self.drift:
            cov["drift"] = self.drift[:20]
        cov["known_findings_seen"] = sorted(self.known_hits)
        if extra:
            cov.update(extra)
        if not cov["samples"]:
            cov["samples"] = ["(no sample recorded)"]
        ev = {"property_id": self.pid, "tier": self.tier, "seed": self.seed, "level": level,
              "coverage": cov, "assumptions": self.assumptions, "wall_s": round(time.time() - self.t0, 2),
              "violations": len(self.violations)}
        tmp = os.path.join(EVID, self.pid + ".json.tmp")
        with open(tmp, "w") as f:
            json.dump(ev, f, indent=1, default=repr)
        os.replace(tmp, os.path.join(EVID, self.pid + ".json"))
        for key, what in sorted(self.known_hits.items()):
            print("KNOWN-FINDING: property=%s %s" % (self.pid, what))
        for key, what, path in self.violations:
            print("VIOLATION property=%s replay=%s" % (self.pid, path))
        print("[%s] tier=%s seed=%d states=%d evaluations=%d traces_validated=%d wall=%.1fs -> %s" % (
            self.pid, self.tier, self.seed, cov["states"], cov["evaluations"],
            cov["traces_validated_against_impl"], time.time() - self.t0,
            "VIOLATION" if self.violations else "ok"))
        sys.stdout.flush()
        return 1 if self.violations else 0


def _match(k, key):
    kk = k.get("key", "")
    for one in [kk] + list(k.get("also", [])):
        if one.endswith("*"):
            if key.startswith(one[:-1]):
                return True
        elif one == key:
            return True
    return False


CURRENT = []      # the Check of this run (a driver makes one)


def _hang_of_code_under_test(ex):
    """an exception of the deterministic substrate that says: the code under test hung or never came to rest (as opposed to:
    the driver itself did something the substrate cannot schedule)"""
    from harness import sim
    if not isinstance(ex, (sim.Deadlock, sim.StepLimit)):
        return False
    return "unmanaged thread" not in str(ex)


def main_wrapper(fn):
    """run a driver's main(); map exceptions to exit code 2 (machinery failure)"""
    try:
        rc = fn()
    except SystemExit:
        raise
    except BaseException as ex:
        if CURRENT and _hang_of_code_under_test(ex):
            # no property here tolerates a call that never returns: reported as a violation of the property being checked, with
            # the place it was met (the run ends here, so the evidence covers what was explored until then)
            chk = CURRENT[0]
            tb = traceback.format_exc()
            chk.violation("hang", "%s the code under test hung or never came to rest where the check expects a call to return: %s"
                          % (chk.pid, ex), {"mode": "hang", "traceback": tb[-1500:]})
            try:
                rc = chk.finish()
            except BaseException:
                traceback.print_exc()
                rc = 1
            sys.stdout.flush()
            os._exit(rc or 1)
        traceback.print_exc()
        print("MACHINERY-FAILURE (exit 2): this is not a claim about rpyc")
        sys.stdout.flush()
        os._exit(2)
    sys.stdout.flush()
    sys.stderr.flush()
    os._exit(rc or 0)
