#!/bin/sh
# Offline setup: nothing is fetched. Translates PlusCal, parses all specs with SANY, creates scratch dirs.
set -e
cd "$(dirname "$0")"
mkdir -p out evidence
exec /venv/bin/python -m harness.setup
