#!/usr/bin/env python3
"""prints the markdown table of seeded changes and which checks report them (from seeded/*/meta.json)"""
import glob, json, os
rows = []
for d in sorted(glob.glob(os.path.join(os.path.dirname(os.path.abspath(__file__)), "seeded", "*"))):
    try:
        m = json.load(open(os.path.join(d, "meta.json")))
    except Exception:
        continue
    checks = m.get("checks", {})
    det = m.get("detected_by", [])
    ran = ", ".join("%s:%s" % (k, "VIOLATION" if v.get("exit") == 1 else ("ok" if v.get("exit") == 0 else "exit %s" % v.get("exit"))) for k, v in sorted(checks.items()))
    rows.append("| `%s` | %s | %s | %s | %s |" % (m.get("seed"), m.get("property"), (m.get("needs") or "").replace("|", "/"),
                                               ", ".join(det) if det else "**none**", ran))
print("| seeded change | aimed at | needs | reported by | checks run |\n|---|---|---|---|---|")
print("\n".join(rows))

if __name__ == "__main__":
    import sys
    if len(sys.argv) > 1 and sys.argv[1] == "--write":
        import io, contextlib
        p = os.path.join(os.path.dirname(os.path.abspath(__file__)), "DESIGN.md")
        s = open(p).read()
        a, b = "<!-- SEEDED-TABLE-BEGIN -->", "<!-- SEEDED-TABLE-END -->"
        tab = "| seeded change | aimed at | needs | reported by | checks run |\n|---|---|---|---|---|\n" + "\n".join(rows)
        s = s[:s.index(a) + len(a)] + "\n" + tab + "\n" + s[s.index(b):]
        open(p, "w").write(s)
