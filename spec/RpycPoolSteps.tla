---------------------------------- MODULE RpycPoolSteps ----------------------------------
(* C16 / C17 for rpyc.utils.server.ThreadPoolServer at the grain of its own statements: the accept thread, the polling     *)
(* thread, one worker and close() as independently scheduled steps over the shared tables                                  *)
(*     fd_to_conn (descriptor number -> connection), the poll registrations, the queue of active descriptors.              *)
(* Descriptor NUMBERS are modelled as the kernel hands them out (lowest free number): the tables are keyed by number, a     *)
(* closed connection's number is free again, and the next accepted client gets it.                                          *)
(*                                                                                                                        *)
(* Code (rpyc/utils/server.py, ThreadPoolServer):                                                                          *)
(*   accept thread  Server.accept -> _accept_method: build the connection | fd_to_conn[fd] = conn |                         *)
(*                  [repaired: if self._closed: _drop_connection(fd, conn); return] | _add_inactive_connection(fd)          *)
(*   polling thread _poll_inactive_clients / _handle_poll_result: unregister fd | error/hang-up: _drop_connection(fd)       *)
(*                  | readable: queue.put(fd)                                                                              *)
(*   worker         _serve_clients / _serve_requests: fd = queue.get() | conn = fd_to_conn[fd] | conn.poll():               *)
(*                  served -> again | nothing -> _add_inactive_connection(fd) | EOFError (the connection is closed by then,  *)
(*                  its number free) -> _drop_connection(fd, conn)                                                          *)
(*   _drop_connection(fd, conn): [repaired: under the table lock, only while fd_to_conn[fd] is conn] remove the entry |      *)
(*                  close the connection                                                                                   *)
(*   close()        flags | listener | join polling thread | join workers | drop everything in fd_to_conn                   *)
(*                                                                                                                        *)
(* Identity = TRUE, Recheck = TRUE is the repaired tree; FALSE / FALSE the pinned one (kept for its counterexamples).        *)
EXTENDS Naturals, FiniteSets, Sequences, TLC

CONSTANTS Clients, NFd, Identity, Recheck
None == "none"
Fd == 1..NFd

VARIABLES link,        \* client's side: "none" | "up" | "left" (closed, the server will read end-of-stream) | "reset" | "refused"
          want,        \* requests the client has sent and the server has not served yet
          conn,        \* server-side connection of the client: "none" | "open" | "closed"
          fdof,        \* descriptor number of that connection's socket (0: none yet)
          cut,         \* the server closed this client's connection although the client had not left and close() had not begun
          backlog, listener, active, closedFlag,
          table,       \* fd_to_conn: Fd -> client or None
          reg,         \* descriptors registered with the poll object
          queue,       \* the active queue (descriptor numbers)
          apc, aclient,              \* accept thread
          ppc, pfd, pev,             \* polling thread
          wpc, wfd, wconn,           \* worker
          dpc,                       \* _drop_connection in progress, per thread: [t |-> [pc, fd, given, target]]
          kpc, ktodo                 \* close()
vars == <<link, want, conn, fdof, cut, backlog, listener, active, closedFlag, table, reg, queue, apc, aclient, ppc, pfd, pev,
          wpc, wfd, wconn, dpc, kpc, ktodo>>
Threads == {"accept", "poller", "worker", "closer"}
NoDrop == [pc |-> "idle", fd |-> 0, given |-> None, target |-> None]

Init == /\ link = [c \in Clients |-> "none"] /\ want = [c \in Clients |-> 0]
        /\ conn = [c \in Clients |-> "none"] /\ fdof = [c \in Clients |-> 0] /\ cut = {}
        /\ backlog = <<>> /\ listener = "open" /\ active = TRUE /\ closedFlag = FALSE
        /\ table = [f \in Fd |-> None] /\ reg = {} /\ queue = <<>>
        /\ apc = "loop" /\ aclient = None
        /\ ppc = "idle" /\ pfd = 0 /\ pev = None
        /\ wpc = "idle" /\ wfd = 0 /\ wconn = None
        /\ dpc = [t \in Threads |-> NoDrop]
        /\ kpc = "idle" /\ ktodo = {}

Held == {fdof[c] : c \in {x \in Clients : conn[x] = "open"}}
FreeFds == Fd \ Held
LowestFree == CHOOSE f \in FreeFds : \A g \in FreeFds : f <= g
OwnerOf(f) == IF \E c \in Clients : conn[c] = "open" /\ fdof[c] = f
              THEN CHOOSE c \in Clients : conn[c] = "open" /\ fdof[c] = f ELSE None
\* the server closes a connection: was the client still there and the server not closing?
CloseConn(c) == /\ conn' = [conn EXCEPT ![c] = "closed"]
                /\ cut' = IF conn[c] = "open" /\ link[c] = "up" /\ kpc = "idle" THEN cut \cup {c} ELSE cut

\* ------------------------------------------------------------------ clients
ClientConnect(c) == /\ link[c] = "none" /\ listener = "open"
                    /\ link' = [link EXCEPT ![c] = "up"] /\ backlog' = Append(backlog, c)
                    /\ UNCHANGED <<want, conn, fdof, cut, listener, active, closedFlag, table, reg, queue, apc, aclient, ppc, pfd, pev,
                                   wpc, wfd, wconn, dpc, kpc, ktodo>>
ClientCall(c) == /\ link[c] = "up" /\ want[c] = 0
                 /\ want' = [want EXCEPT ![c] = 1]
                 /\ UNCHANGED <<link, conn, fdof, cut, backlog, listener, active, closedFlag, table, reg, queue, apc, aclient, ppc, pfd,
                                pev, wpc, wfd, wconn, dpc, kpc, ktodo>>
ClientLeave(c, how) == /\ link[c] = "up" /\ conn[c] = "open" /\ how \in {"left", "reset"}
                       /\ link' = [link EXCEPT ![c] = how]
                       /\ UNCHANGED <<want, conn, fdof, cut, backlog, listener, active, closedFlag, table, reg, queue, apc, aclient, ppc,
                                      pfd, pev, wpc, wfd, wconn, dpc, kpc, ktodo>>

\* ------------------------------------------------------------------ _drop_connection, shared by all threads
\* step 1: the table.  pinned: whatever is stored under the number is removed and will be closed.
\*         repaired: only the given connection's own entry; the given connection is closed either way.
DropTable(t) == /\ dpc[t].pc = "table"
                /\ LET f == dpc[t].fd  cur == table[f]  giv == dpc[t].given IN
                     IF Identity
                     THEN IF cur # None /\ (giv = None \/ cur = giv)
                          THEN table' = [table EXCEPT ![f] = None] /\ dpc' = [dpc EXCEPT ![t].pc = "close", ![t].target = cur]
                          ELSE UNCHANGED table /\ dpc' = [dpc EXCEPT ![t].pc = "close", ![t].target = giv]
                     ELSE /\ table' = [table EXCEPT ![f] = None]
                          /\ dpc' = [dpc EXCEPT ![t].pc = "close", ![t].target = cur]
                /\ UNCHANGED <<link, want, conn, fdof, cut, backlog, listener, active, closedFlag, reg, queue, apc, aclient, ppc, pfd, pev,
                               wpc, wfd, wconn, kpc, ktodo>>
\* step 2: conn.close()
DropClose(t) == /\ dpc[t].pc = "close"
                /\ IF dpc[t].target # None THEN CloseConn(dpc[t].target) ELSE UNCHANGED <<conn, cut>>
                /\ dpc' = [dpc EXCEPT ![t] = [NoDrop EXCEPT !.pc = "done"]]
                /\ UNCHANGED <<link, want, fdof, backlog, listener, active, closedFlag, table, reg, queue, apc, aclient, ppc, pfd, pev,
                               wpc, wfd, wconn, kpc, ktodo>>
StartDrop(t, f, given) == dpc' = [dpc EXCEPT ![t] = [pc |-> "table", fd |-> f, given |-> given, target |-> None]]
DropDone(t) == dpc[t].pc = "done"
ResetDrop(t) == dpc' = [dpc EXCEPT ![t] = NoDrop]

\* ------------------------------------------------------------------ the accept thread
AcceptTake == /\ apc = "loop"
              /\ IF ~active \/ listener = "closed"
                 THEN apc' = "exit" /\ UNCHANGED <<aclient, backlog, conn, fdof>>
                 ELSE /\ backlog # <<>> /\ FreeFds # {}
                      /\ aclient' = Head(backlog) /\ backlog' = Tail(backlog)
                      /\ conn' = [conn EXCEPT ![Head(backlog)] = "open"]
                      /\ fdof' = [fdof EXCEPT ![Head(backlog)] = LowestFree]
                      /\ apc' = "got"
              /\ UNCHANGED <<link, want, cut, listener, active, closedFlag, table, reg, queue, ppc, pfd, pev, wpc, wfd, wconn, dpc, kpc, ktodo>>
\* `if not self.active: return` (the socket is dropped)
AcceptCheck == /\ apc = "got"
               /\ IF ~active
                  THEN conn' = [conn EXCEPT ![aclient] = "closed"] /\ aclient' = None /\ apc' = "loop"
                  ELSE apc' = "checked" /\ UNCHANGED <<conn, aclient>>
               /\ UNCHANGED <<link, want, fdof, cut, backlog, listener, active, closedFlag, table, reg, queue, ppc, pfd, pev, wpc, wfd, wconn,
                              dpc, kpc, ktodo>>
\* _accept_method: authenticate, build the connection, `self.fd_to_conn[fd] = conn`
AcceptInsert == /\ apc = "checked"
                /\ table' = [table EXCEPT ![fdof[aclient]] = aclient]
                /\ apc' = (IF Recheck THEN "recheck" ELSE "inserted")
                /\ UNCHANGED <<link, want, conn, fdof, cut, backlog, listener, active, closedFlag, reg, queue, aclient, ppc, pfd, pev, wpc, wfd,
                               wconn, dpc, kpc, ktodo>>
AcceptRecheck == /\ apc = "recheck"
                 /\ IF closedFlag
                    THEN StartDrop("accept", fdof[aclient], aclient) /\ apc' = "dropping"
                    ELSE apc' = "inserted" /\ UNCHANGED dpc
                 /\ UNCHANGED <<link, want, conn, fdof, cut, backlog, listener, active, closedFlag, table, reg, queue, aclient, ppc, pfd, pev,
                                wpc, wfd, wconn, kpc, ktodo>>
AcceptDropped == /\ apc = "dropping" /\ DropDone("accept")
                 /\ ResetDrop("accept") /\ aclient' = None /\ apc' = "loop"
                 /\ UNCHANGED <<link, want, conn, fdof, cut, backlog, listener, active, closedFlag, table, reg, queue, ppc, pfd, pev, wpc, wfd,
                                wconn, kpc, ktodo>>
\* _add_inactive_connection(fd)
AcceptRegister == /\ apc = "inserted"
                  /\ reg' = reg \cup {fdof[aclient]}
                  /\ aclient' = None /\ apc' = "loop"
                  /\ UNCHANGED <<link, want, conn, fdof, cut, backlog, listener, active, closedFlag, table, queue, ppc, pfd, pev, wpc, wfd,
                                 wconn, dpc, kpc, ktodo>>

\* ------------------------------------------------------------------ the polling thread
\* what poll() reports for a registered number: about whichever socket carries that number now
EventOn(f) == LET o == OwnerOf(f) IN
                IF o = None THEN "invalid"
                ELSE IF link[o] = "reset" THEN "hangup"
                ELSE IF link[o] = "left" \/ want[o] > 0 THEN "readable" ELSE None
\* poll() reports every ready descriptor; the thread takes them one by one (f: the one taken now)
PollTakeFd(f) == /\ ppc = "idle" /\ active /\ f \in reg /\ EventOn(f) # None
                 /\ pfd' = f /\ pev' = EventOn(f)
                 /\ reg' = reg \ {f}                   \* _remove_from_inactive_connection
                 /\ ppc' = "handle"
                 /\ UNCHANGED <<link, want, conn, fdof, cut, backlog, listener, active, closedFlag, table, queue, apc, aclient, wpc, wfd,
                                wconn, dpc, kpc, ktodo>>
PollExit == /\ ppc = "idle" /\ ~active /\ ppc' = "exit"
            /\ UNCHANGED <<link, want, conn, fdof, cut, backlog, listener, active, closedFlag, table, reg, queue, apc, aclient, pfd, pev,
                           wpc, wfd, wconn, dpc, kpc, ktodo>>
PollTake == PollExit \/ \E f \in Fd : PollTakeFd(f)
PollHandle == /\ ppc = "handle"
              /\ IF pev = "readable"
                 THEN queue' = Append(queue, pfd) /\ ppc' = "idle" /\ UNCHANGED dpc
                 ELSE StartDrop("poller", pfd, None) /\ ppc' = "dropping" /\ UNCHANGED queue
              /\ UNCHANGED <<link, want, conn, fdof, cut, backlog, listener, active, closedFlag, table, reg, apc, aclient, pfd, pev, wpc, wfd,
                             wconn, kpc, ktodo>>
PollDropped == /\ ppc = "dropping" /\ DropDone("poller")
               /\ ResetDrop("poller") /\ ppc' = "idle"
               /\ UNCHANGED <<link, want, conn, fdof, cut, backlog, listener, active, closedFlag, table, reg, queue, apc, aclient, pfd, pev,
                              wpc, wfd, wconn, kpc, ktodo>>

\* ------------------------------------------------------------------ the worker
WorkerGet == /\ wpc = "idle"
             /\ IF queue # <<>>
                THEN /\ wfd' = Head(queue) /\ queue' = Tail(queue)
                     /\ wpc' = (IF Head(queue) = 0 THEN "exit" ELSE "lookup")        \* 0 stands for the None close() puts
                ELSE /\ ~active /\ kpc \in {"joinw", "dropall", "done"} /\ wpc' = "exit" /\ UNCHANGED <<wfd, queue>>
             /\ UNCHANGED <<link, want, conn, fdof, cut, backlog, listener, active, closedFlag, table, reg, apc, aclient, ppc, pfd, pev, wconn,
                            dpc, kpc, ktodo>>
\* conn = self.fd_to_conn[fd]   (KeyError: logged, next round)
WorkerLookup == /\ wpc = "lookup"
                /\ IF table[wfd] = None THEN wpc' = "idle" /\ wconn' = None
                   ELSE wconn' = table[wfd] /\ wpc' = "poll"
                /\ UNCHANGED <<link, want, conn, fdof, cut, backlog, listener, active, closedFlag, table, reg, queue, apc, aclient, ppc, pfd,
                               pev, wfd, dpc, kpc, ktodo>>
\* conn.poll(): serve a request | nothing there: back to the inactive set | end of stream: the connection closes itself
WorkerPoll == /\ wpc = "poll"
              /\ IF conn[wconn] # "open"
                 THEN wpc' = "eof" /\ UNCHANGED <<want, conn, cut, reg, queue>>
                 ELSE IF want[wconn] > 0
                      THEN \* served; the batch (one request here, request_batch_size in the code) is used up: back into the active queue
                           /\ want' = [want EXCEPT ![wconn] = 0] /\ queue' = Append(queue, wfd) /\ wpc' = "idle"
                           /\ UNCHANGED <<conn, cut, reg>>
                      ELSE IF link[wconn] \in {"left", "reset"}
                           THEN CloseConn(wconn) /\ wpc' = "eof" /\ UNCHANGED <<want, reg, queue>>
                           ELSE reg' = reg \cup {wfd} /\ wpc' = "idle" /\ UNCHANGED <<want, conn, cut, queue>>
              /\ UNCHANGED <<link, fdof, backlog, listener, active, closedFlag, table, apc, aclient, ppc, pfd, pev, wfd, wconn, dpc,
                             kpc, ktodo>>
\* except EOFError: self._drop_connection(fd, conn)    (pinned: _drop_connection(fd))
WorkerEof == /\ wpc = "eof"
             /\ StartDrop("worker", wfd, IF Identity THEN wconn ELSE None) /\ wpc' = "dropping"
             /\ UNCHANGED <<link, want, conn, fdof, cut, backlog, listener, active, closedFlag, table, reg, queue, apc, aclient, ppc, pfd, pev,
                            wfd, wconn, kpc, ktodo>>
WorkerDropped == /\ wpc = "dropping" /\ DropDone("worker")
                 /\ ResetDrop("worker") /\ wpc' = "idle" /\ wconn' = None
                 /\ UNCHANGED <<link, want, conn, fdof, cut, backlog, listener, active, closedFlag, table, reg, queue, apc, aclient, ppc, pfd,
                                pev, wfd, kpc, ktodo>>

\* ------------------------------------------------------------------ close()
CloseFlag == /\ kpc = "idle"
             /\ closedFlag' = TRUE /\ active' = FALSE /\ kpc' = "flagged"
             /\ UNCHANGED <<link, want, conn, fdof, cut, backlog, listener, table, reg, queue, apc, aclient, ppc, pfd, pev, wpc, wfd, wconn,
                            dpc, ktodo>>
CloseListener == /\ kpc = "flagged"
                 /\ listener' = "closed"
                 /\ link' = [c \in Clients |-> IF \E i \in DOMAIN backlog : backlog[i] = c THEN "refused" ELSE link[c]]
                 /\ backlog' = <<>> /\ kpc' = "joinp"
                 /\ UNCHANGED <<want, conn, fdof, cut, active, closedFlag, table, reg, queue, apc, aclient, ppc, pfd, pev, wpc, wfd, wconn, dpc,
                                ktodo>>
CloseJoinPoller == /\ kpc = "joinp" /\ ppc = "exit"
                   /\ queue' = Append(queue, 0) /\ kpc' = "joinw"
                   /\ UNCHANGED <<link, want, conn, fdof, cut, backlog, listener, active, closedFlag, table, reg, apc, aclient, ppc, pfd, pev,
                                  wpc, wfd, wconn, dpc, ktodo>>
CloseJoinWorker == /\ kpc = "joinw" /\ wpc = "exit"
                   /\ ktodo' = {f \in Fd : table[f] # None} /\ kpc' = "dropall"
                   /\ UNCHANGED <<link, want, conn, fdof, cut, backlog, listener, active, closedFlag, table, reg, queue, apc, aclient, ppc, pfd,
                                  pev, wpc, wfd, wconn, dpc>>
CloseDropOne == /\ kpc = "dropall" /\ dpc["closer"].pc = "idle" /\ ktodo # {}
                /\ \E f \in ktodo : /\ reg' = reg \ {f} /\ ktodo' = ktodo \ {f} /\ StartDrop("closer", f, None)
                /\ UNCHANGED <<link, want, conn, fdof, cut, backlog, listener, active, closedFlag, table, queue, apc, aclient, ppc, pfd, pev,
                               wpc, wfd, wconn, kpc>>
CloseDropped == /\ kpc = "dropall" /\ DropDone("closer")
                /\ ResetDrop("closer")
                /\ UNCHANGED <<link, want, conn, fdof, cut, backlog, listener, active, closedFlag, table, reg, queue, apc, aclient, ppc, pfd, pev,
                               wpc, wfd, wconn, kpc, ktodo>>
CloseEnd == /\ kpc = "dropall" /\ ktodo = {} /\ dpc["closer"].pc = "idle"
            /\ kpc' = "done"
            /\ UNCHANGED <<link, want, conn, fdof, cut, backlog, listener, active, closedFlag, table, reg, queue, apc, aclient, ppc, pfd, pev,
                           wpc, wfd, wconn, dpc, ktodo>>

Next == \/ \E c \in Clients : ClientConnect(c) \/ ClientCall(c) \/ ClientLeave(c, "left") \/ ClientLeave(c, "reset")
        \/ \E t \in Threads : DropTable(t) \/ DropClose(t)
        \/ AcceptTake \/ AcceptCheck \/ AcceptInsert \/ AcceptRecheck \/ AcceptDropped \/ AcceptRegister
        \/ PollTake \/ PollHandle \/ PollDropped
        \/ WorkerGet \/ WorkerLookup \/ WorkerPoll \/ WorkerEof \/ WorkerDropped
        \/ CloseFlag \/ CloseListener \/ CloseJoinPoller \/ CloseJoinWorker \/ CloseDropOne \/ CloseDropped \/ CloseEnd
Fair == /\ \A t \in Threads : WF_vars(DropTable(t)) /\ WF_vars(DropClose(t))
        /\ WF_vars(AcceptTake) /\ WF_vars(AcceptCheck) /\ WF_vars(AcceptInsert) /\ WF_vars(AcceptRecheck) /\ WF_vars(AcceptDropped) /\ WF_vars(AcceptRegister)
        /\ WF_vars(PollExit) /\ (\A f \in Fd : SF_vars(PollTakeFd(f))) /\ WF_vars(PollHandle) /\ WF_vars(PollDropped)
        /\ WF_vars(WorkerGet) /\ WF_vars(WorkerLookup) /\ WF_vars(WorkerPoll) /\ WF_vars(WorkerEof) /\ WF_vars(WorkerDropped)
        /\ WF_vars(CloseListener) /\ WF_vars(CloseJoinPoller) /\ WF_vars(CloseJoinWorker) /\ WF_vars(CloseDropOne) /\ WF_vars(CloseDropped)
        /\ WF_vars(CloseEnd)
Spec == Init /\ [][Next]_vars /\ Fair

-------------------------------------------------------------------------------------------
\* C16: while the server is up it never closes the connection of a client that is still there - whatever other clients do
GoodNeverCut == cut = {}
\* C17: after close() has returned and the accept thread has finished its round, the table is empty and no connection is open
AcceptQuiet == apc \in {"exit", "loop"} /\ (apc = "loop" => backlog = <<>>)
NothingLeftBehind == kpc = "done" /\ apc = "exit" => (\A f \in Fd : table[f] = None) /\ (\A c \in Clients : conn[c] # "open")
\* every entry of the table is the connection that carries that number (never a stale connection under a reused number)
TableTruthful == \A f \in Fd : table[f] # None /\ conn[table[f]] = "open" => fdof[table[f]] = f
\* C17, departed clients: a client that left is eventually forgotten (connection closed, not in the table), and so are its
\* registrations - provided the server is not being closed meanwhile
Forgotten(c) == conn[c] = "closed" /\ \A f \in Fd : table[f] # c
DepartedAreForgotten == \A c \in Clients : (link[c] \in {"left", "reset"} /\ conn[c] = "open" /\ c \in {table[f] : f \in Fd})
                                              ~> (Forgotten(c) \/ kpc # "idle")
CloseFinishes == (kpc = "flagged") ~> (kpc = "done")
===========================================================================================
