SPECIFICATION Spec
CONSTANTS
  CHUNK = 8
  THRESHOLD = 2
  MaxTransient = 2
  InitLens <- MCLens
  InitZLens <- MCZLens
  InitComp = TRUE
  AllowFaults = TRUE
INVARIANT Aligned
INVARIANT InFrame
INVARIANT NoOverread
INVARIANT Prefix
INVARIANT WriterPos
PROPERTY Complete
