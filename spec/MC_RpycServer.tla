------------------------------- MODULE MC_RpycServer -------------------------------
EXTENDS RpycServer
MCGood == {"g1", "g2"}
MCBad == {"b1", "b2"}
MCBadKinds == {"random_bytes", "truncated_packet", "huge_length", "corrupt_zlib", "garbage_payload", "connect_only", "auth_fail", "half_header", "poison_reply"}
====================================================================================
