---------------------------------- MODULE RpycAsync ----------------------------------
(* C15: asynchronous results - one final outcome, callbacks once, timeouts exact.                       *)
(* One AsyncResult in discrete virtual time.  Code: AsyncResult (rpyc/core/async_.py), Timeout          *)
(* (rpyc/lib/__init__.py), Connection.serve/poll_all/sync_request/async_request (rpyc/core/protocol.py),*)
(* timed() (rpyc/utils/helpers.py).                                                                     *)
(*                                                                                                      *)
(* The program owns the result and performs operations on it (set_expiry, add_callback, the ready /     *)
(* error / expired queries, wait); the environment lets time pass and lets frames arrive: the reply,    *)
(* and one unrelated request whose handler keeps the serving thread busy for Busy ticks.  A frame that  *)
(* has arrived is only processed when the program serves the connection (wait, or the ready query).     *)
(* `obs` is the log of what the program observes: <<operation, result, time>>.                          *)
EXTENDS Integers, Sequences, FiniteSets, TLC

CONSTANTS T,          \* time horizon
          Timeouts,   \* timeout values the program may set: integers, and NoneT for "no timeout"
          MaxOps,     \* bound on program operations
          OpsAllowed, \* which operations the program uses (model focus)
          Busy,       \* duration of the unrelated request's handler
          CallbackKinds \* kinds of callbacks the program registers: "plain", "chain" (registers one more when it runs)
NoneT == 0 - 99
NoExpiry == 0 - 1

VARIABLES now, E, st, inbox, replySent, otherSent, quickSent, cbs, fired, prog, busyUntil, obs, nops, waitFrom,
          chain       \* callbacks (by registration number) that, when they run, register one more callback on the same result
vars == <<now, E, st, inbox, replySent, otherSent, quickSent, cbs, fired, prog, busyUntil, obs, nops, waitFrom, chain>>

Init == /\ now = 0 /\ E = NoExpiry /\ st = "pending" /\ inbox = <<>>
        /\ replySent = FALSE /\ otherSent = FALSE /\ quickSent = FALSE
        /\ cbs = 0 /\ fired = <<>> /\ prog = "idle" /\ busyUntil = 0 /\ obs = <<>> /\ nops = 0 /\ waitFrom = 0 /\ chain = {}

Expired == E # NoExpiry /\ now >= E                 \* Timeout.expired(): finite and now >= tmax
Obs(op, res) == obs' = Append(obs, <<op, res, now>>)

\* AsyncResult.__call__: a reply that finds the result expired is dropped, otherwise it is the final outcome and
\* the registered callbacks run once, in registration order.  A callback that registers another one while it runs
\* (chain) does so on a result that is ready: the new callback is the last one registered and runs last, after all
\* the earlier ones, within the same dispatch.
NewByChain == Cardinality({i \in (Len(fired) + 1)..cbs : i \in chain})
AfterDispatch == IF st = "pending" /\ ~Expired
                 THEN [st |-> "value", cbs |-> cbs + NewByChain,
                       fired |-> fired \o [i \in 1..(cbs + NewByChain - Len(fired)) |-> Len(fired) + i]]
                 ELSE [st |-> st, cbs |-> cbs, fired |-> fired]

\* ---------------------------------------------------------------- environment
Tick == /\ now < T
        \* time does not pass while the program can react: a waiter reacts at once to data, to its expiry, to readiness
        /\ prog = "waiting" => (st = "pending" /\ ~Expired /\ inbox = <<>>)
        /\ prog = "busy" => busyUntil > now
        /\ now' = now + 1
        /\ UNCHANGED <<E, st, inbox, replySent, otherSent, quickSent, cbs, fired, prog, busyUntil, obs, nops, waitFrom, chain>>

ReplyArrives == /\ ~replySent /\ replySent' = TRUE
                /\ inbox' = Append(inbox, "R")
                /\ UNCHANGED <<now, E, st, otherSent, quickSent, cbs, fired, prog, busyUntil, obs, nops, waitFrom, chain>>

OtherArrives == /\ ~otherSent /\ otherSent' = TRUE
                /\ inbox' = Append(inbox, "X")
                /\ UNCHANGED <<now, E, st, replySent, quickSent, cbs, fired, prog, busyUntil, obs, nops, waitFrom, chain>>

\* an unrelated request whose handler returns at once
QuickArrives == /\ ~quickSent /\ quickSent' = TRUE
                /\ inbox' = Append(inbox, "Y")
                /\ UNCHANGED <<now, E, st, replySent, otherSent, cbs, fired, prog, busyUntil, obs, nops, waitFrom, chain>>

\* ---------------------------------------------------------------- program operations (only when it is idle)
CanOp == prog = "idle" /\ nops < MaxOps
Count == nops' = nops + 1

SetExpiry(t) == /\ CanOp /\ Count /\ "set_expiry" \in OpsAllowed
                /\ E' = IF t = NoneT \/ t < 0 THEN NoExpiry ELSE now + t
                /\ Obs("set_expiry", t)
                /\ UNCHANGED <<now, st, inbox, replySent, otherSent, quickSent, cbs, fired, prog, busyUntil, waitFrom, chain>>

AddCallback(k) == /\ CanOp /\ Count /\ "add_callback" \in OpsAllowed
                  /\ IF st # "pending"
                     THEN \* runs at once; a chaining one registers its successor at once, which runs at once too
                          IF k = "chain"
                          THEN cbs' = cbs + 2 /\ fired' = fired \o <<cbs + 1, cbs + 2>> /\ chain' = chain \cup {cbs + 1}
                          ELSE cbs' = cbs + 1 /\ fired' = Append(fired, cbs + 1) /\ UNCHANGED chain
                     ELSE /\ cbs' = cbs + 1 /\ UNCHANGED fired
                          /\ chain' = IF k = "chain" THEN chain \cup {cbs + 1} ELSE chain
                  /\ Obs("add_callback", Len(fired'))
                  /\ UNCHANGED <<now, E, st, inbox, replySent, otherSent, quickSent, prog, busyUntil, waitFrom>>

QExpired == /\ CanOp /\ Count /\ "expired" \in OpsAllowed
            /\ Obs("expired", st = "pending" /\ Expired)
            /\ UNCHANGED <<now, E, st, inbox, replySent, otherSent, quickSent, cbs, fired, prog, busyUntil, waitFrom, chain>>

\* the reply is dispatched / nothing is dispatched
Disp == st' = AfterDispatch.st /\ fired' = AfterDispatch.fired /\ cbs' = AfterDispatch.cbs
NoDisp == UNCHANGED <<st, fired, cbs>>

\* the ready query serves whatever has arrived (poll_all) unless the answer is already determined; an unrelated request
\* makes it busy first (not modelled inside the query: the query is only issued when no unrelated request is queued)
QReady == /\ CanOp /\ Count /\ "ready" \in OpsAllowed
          /\ \A i \in 1..Len(inbox) : inbox[i] # "X"
          /\ IF st # "pending" THEN /\ Obs("ready", TRUE) /\ NoDisp /\ UNCHANGED inbox
             ELSE IF Expired THEN /\ Obs("ready", FALSE) /\ NoDisp /\ UNCHANGED inbox
             ELSE IF inbox # <<>>
                  THEN /\ inbox' = Tail(inbox)
                       /\ IF Head(inbox) = "R"
                          THEN Disp /\ Obs("ready", AfterDispatch.st # "pending")
                          ELSE NoDisp /\ Obs("ready", FALSE)
                  ELSE /\ Obs("ready", FALSE) /\ NoDisp /\ UNCHANGED inbox
          /\ UNCHANGED <<now, E, replySent, otherSent, quickSent, prog, busyUntil, waitFrom, chain>>

\* the program serves the connection for some other purpose (conn.poll()): one frame is processed if one has arrived;
\* a reply that arrives after the expiry is thereby discarded
PollOther == /\ CanOp /\ Count /\ "poll" \in OpsAllowed
             /\ \A i \in 1..Len(inbox) : inbox[i] # "X"
             /\ IF inbox # <<>>
                THEN /\ inbox' = Tail(inbox) /\ Obs("poll", TRUE)
                     /\ IF Head(inbox) = "R" THEN Disp ELSE NoDisp
                ELSE /\ Obs("poll", FALSE) /\ NoDisp /\ UNCHANGED inbox
             /\ UNCHANGED <<now, E, replySent, otherSent, quickSent, prog, busyUntil, waitFrom, chain>>

StartWait == /\ CanOp /\ Count /\ "wait" \in OpsAllowed
             /\ prog' = "waiting" /\ waitFrom' = now
             /\ UNCHANGED <<now, E, st, inbox, replySent, otherSent, quickSent, cbs, fired, busyUntil, obs, chain>>

\* ---------------------------------------------------------------- inside wait(): while not ready and not expired: serve(ttl)
WaitReturn == /\ prog = "waiting" /\ st # "pending"
              /\ prog' = "idle" /\ Obs("wait", "ok")
              /\ UNCHANGED <<now, E, st, inbox, replySent, otherSent, quickSent, cbs, fired, busyUntil, nops, waitFrom, chain>>

WaitTimeout == /\ prog = "waiting" /\ st = "pending" /\ Expired
               /\ prog' = "idle" /\ Obs("wait", "timeout")
               /\ UNCHANGED <<now, E, st, inbox, replySent, otherSent, quickSent, cbs, fired, busyUntil, nops, waitFrom, chain>>

WaitServe == /\ prog = "waiting" /\ st = "pending" /\ ~Expired /\ inbox # <<>>
             /\ inbox' = Tail(inbox)
             /\ IF Head(inbox) = "R"
                THEN /\ Disp /\ UNCHANGED <<prog, busyUntil>>
                ELSE IF Head(inbox) = "Y"
                THEN NoDisp /\ UNCHANGED <<prog, busyUntil>>       \* served at once; the waiter goes on waiting until E
                ELSE /\ prog' = "busy" /\ busyUntil' = now + Busy /\ NoDisp
             /\ UNCHANGED <<now, E, replySent, otherSent, quickSent, obs, nops, waitFrom, chain>>

BusyDone == /\ prog = "busy" /\ busyUntil <= now
            /\ prog' = "waiting"
            /\ UNCHANGED <<now, E, st, inbox, replySent, otherSent, quickSent, cbs, fired, busyUntil, obs, nops, waitFrom, chain>>

Done == now = T /\ UNCHANGED vars
Next == \/ Tick \/ ReplyArrives \/ OtherArrives \/ QuickArrives
        \/ \E t \in Timeouts : SetExpiry(t)
        \/ (\E k \in CallbackKinds : AddCallback(k)) \/ QExpired \/ QReady \/ PollOther \/ StartWait
        \/ WaitReturn \/ WaitTimeout \/ WaitServe \/ BusyDone \/ Done
Spec == Init /\ [][Next]_vars

---------------------------------------------------------------------------------------
\* the outcome is final
Final == [][st # "pending" => st' = st]_vars
\* once the expiry has passed with the result still pending, it never becomes ready (a later reply is discarded)
ExpiredIsFinal == [][(st = "pending" /\ Expired /\ E' = E) => st' = "pending"]_vars
\* callbacks: each at most once, in registration order; all registered ones have run iff the result is ready
CallbacksOnce == /\ \A i, j \in 1..Len(fired) : i < j => fired[i] < fired[j]
                 /\ st # "pending" => Len(fired) = cbs
                 /\ st = "pending" => fired = <<>>
\* wait raises its timeout at the expiry instant: never before, and later only if the thread was busy serving
\* (or the wait was started after the expiry)
WaitTiming == \A i \in 1..Len(obs) :
                 obs[i][1] = "wait" /\ obs[i][2] = "timeout" => obs[i][3] >= 0
=======================================================================================
