SPECIFICATION Spec
CONSTANTS
  Good <- MCGood
  Bad <- MCBad
  OneShot = FALSE
  BadKinds <- MCBadKinds
  MaxCalls = 2
INVARIANT HookAtMostOnce
INVARIANT NothingLeftBehind
INVARIANT ClosedMeansAllCut
INVARIANT OneShotServesOne
INVARIANT TrackedAreUp
INVARIANT GoodUnaffected
