------------------------------ MODULE RpycLifetimeInspect ------------------------------
(* C10 for objects of a class the holder has no proxy class for (instances of user classes).              *)
(* Refines RpycLifetime at the point it treats as atomic: Connection._unbox of a remote reference with no  *)
(* live cached proxy calls _netref_factory, which asks the owner to describe the class (a synchronous      *)
(* HANDLE_INSPECT request) and, while waiting for the answer, serves whatever arrives - further references *)
(* to the same object included.  Code: Connection._unbox / _netref_factory / _handle_inspect               *)
(* (rpyc/core/protocol.py), AsyncResult.wait (rpyc/core/async_.py).                                        *)
(*                                                                                                        *)
(*   tab[k]    owner's _local_objects slot: Absent or the stored count                                     *)
(*   pobj[k]   the holder's live proxy OBJECTS for k, oldest first, each with its own ____refcount__; the  *)
(*             proxy cache holds the last one (nested unboxings leave several alive, the cache is          *)
(*             overwritten by whichever unboxing completes last)                                           *)
(*   hstack    unboxings suspended in the INSPECT round trip, innermost last: [k, ready, more]             *)
(*             (ready: its answer has arrived but an inner unboxing is still waiting; more: one further    *)
(*             reference to k follows in the same tuple)                                                   *)
(*   toH       owner -> holder: REF(k), PAIR(k), INSPR (answer to an INSPECT)                              *)
(*   toO       holder -> owner: DEL(k, c), PB(k), REQ(k), INSP(k)                                          *)
EXTENDS Integers, Sequences, FiniteSets, TLC

CONSTANTS K, MaxBox, MaxQ
VARIABLES tab, pobj, hstack, toH, toO, boxed, err, closed
vars == <<tab, pobj, hstack, toH, toO, boxed, err, closed>>
Absent == 0 - 1

Init == /\ tab = [k \in K |-> Absent]
        /\ pobj = [k \in K |-> <<>>]
        /\ hstack = <<>>
        /\ toH = <<>> /\ toO = <<>>
        /\ boxed = [k \in K |-> 0]
        /\ err = "none"
        /\ closed = FALSE

Add(t, k) == [t EXCEPT ![k] = IF @ = Absent THEN 0 ELSE @ + 1]
Msg(t, k, c) == [type |-> t, k |-> k, c |-> c]

Send(k) == /\ ~closed /\ boxed[k] < MaxBox /\ Len(toH) < MaxQ
           /\ tab' = Add(tab, k)
           /\ toH' = Append(toH, Msg("REF", k, 0))
           /\ boxed' = [boxed EXCEPT ![k] = @ + 1]
           /\ UNCHANGED <<pobj, hstack, toO, err, closed>>

SendPair(k) == /\ ~closed /\ boxed[k] + 1 < MaxBox /\ Len(toH) < MaxQ
               /\ tab' = Add(Add(tab, k), k)
               /\ toH' = Append(toH, Msg("PAIR", k, 0))
               /\ boxed' = [boxed EXCEPT ![k] = @ + 2]
               /\ UNCHANGED <<pobj, hstack, toO, err, closed>>

Request(k) == /\ ~closed /\ boxed[k] < MaxBox /\ Len(toO) < MaxQ
              /\ toO' = Append(toO, Msg("REQ", k, 0))
              /\ boxed' = [boxed EXCEPT ![k] = @ + 1]
              /\ UNCHANGED <<tab, pobj, hstack, toH, err, closed>>

\* a cache hit bumps the cached (= last created) proxy
Hit(p, k, n) == [p EXCEPT ![k] = [@ EXCEPT ![Len(@)] = @ + n]]
\* an unboxing completes: a new proxy object, cached over whatever was there
Complete(p, a) == [p EXCEPT ![a.k] = Append(@, 1 + a.more)]
\* answers arrive in the order the requests were made: the oldest unanswered unboxing gets it
MarkReady(s) == LET i == CHOOSE j \in DOMAIN s : ~s[j].ready /\ \A h \in 1..(j - 1) : s[h].ready
                IN [s EXCEPT ![i].ready = TRUE]
\* the innermost unboxing continues as soon as its answer is there; finished, control returns to the one below
RECURSIVE Unwind(_, _)
Unwind(s, p) == IF s # <<>> /\ s[Len(s)].ready THEN Unwind(SubSeq(s, 1, Len(s) - 1), Complete(p, s[Len(s)]))
                ELSE [s |-> s, p |-> p]

DeliverToHolder ==
    /\ ~closed /\ toH # <<>>
    /\ LET m == Head(toH) IN
         CASE m.type \in {"REF", "PAIR"} ->
                LET n == IF m.type = "PAIR" THEN 2 ELSE 1 IN
                IF pobj[m.k] # <<>>
                THEN /\ pobj' = Hit(pobj, m.k, n)
                     /\ UNCHANGED <<hstack, toO>>
                ELSE /\ hstack' = Append(hstack, [k |-> m.k, ready |-> FALSE, more |-> n - 1])
                     /\ toO' = Append(toO, Msg("INSP", m.k, 0))
                     /\ UNCHANGED pobj
           [] m.type = "INSPR" ->
                LET u == Unwind(MarkReady(hstack), pobj) IN
                /\ hstack' = u.s /\ pobj' = u.p
                /\ UNCHANGED toO
    /\ toH' = Tail(toH)
    /\ UNCHANGED <<tab, boxed, err, closed>>

\* the program drops its handles on k (it clears the list it keeps them in: last stored, first released): every proxy
\* object's finalizer sends its own count back
DropProxy(k) == /\ ~closed /\ pobj[k] # <<>> /\ Len(toO) + Len(pobj[k]) <= MaxQ + 1
                /\ toO' = toO \o [i \in 1..Len(pobj[k]) |-> Msg("DEL", k, pobj[k][Len(pobj[k]) + 1 - i])]
                /\ pobj' = [pobj EXCEPT ![k] = <<>>]
                /\ UNCHANGED <<tab, hstack, toH, boxed, err, closed>>

PassBack(k) == /\ ~closed /\ pobj[k] # <<>> /\ Len(toO) < MaxQ
               /\ toO' = Append(toO, Msg("PB", k, 0))
               /\ UNCHANGED <<tab, pobj, hstack, toH, boxed, err, closed>>

DeliverToOwner ==
    /\ ~closed /\ toO # <<>>
    /\ LET m == Head(toO) IN
         CASE m.type = "DEL" ->
                /\ IF tab[m.k] = Absent
                   THEN err' = "del-of-absent" /\ UNCHANGED tab
                   ELSE /\ tab' = [tab EXCEPT ![m.k] = IF @ < m.c THEN Absent ELSE @ - m.c]
                        /\ UNCHANGED err
                /\ UNCHANGED toH
           [] m.type = "PB" ->
                /\ err' = IF tab[m.k] = Absent THEN "use-of-released" ELSE err
                /\ UNCHANGED <<tab, toH>>
           [] m.type = "REQ" ->
                /\ tab' = Add(tab, m.k)
                /\ toH' = Append(toH, Msg("REF", m.k, 0))
                /\ UNCHANGED err
           [] m.type = "INSP" ->
                /\ err' = IF tab[m.k] = Absent THEN "inspect-of-released" ELSE err
                /\ toH' = Append(toH, Msg("INSPR", m.k, 0))
                /\ UNCHANGED tab
    /\ toO' = Tail(toO)
    /\ UNCHANGED <<pobj, hstack, boxed, closed>>

Close == /\ ~closed
         /\ closed' = TRUE
         /\ tab' = [k \in K |-> Absent]
         /\ pobj' = [k \in K |-> <<>>]
         /\ hstack' = <<>>
         /\ toH' = <<>> /\ toO' = <<>>
         /\ UNCHANGED <<boxed, err>>

Next == \/ \E k \in K : Send(k) \/ SendPair(k) \/ Request(k) \/ DropProxy(k) \/ PassBack(k)
        \/ DeliverToHolder \/ DeliverToOwner \/ Close
        \/ (closed /\ UNCHANGED vars)
Spec == Init /\ [][Next]_vars

-------------------------------------------------------------------------------------
RECURSIVE SumSeq(_)
SumSeq(s) == IF s = <<>> THEN 0 ELSE Head(s) + SumSeq(Tail(s))
Held(k) == SumSeq(pobj[k])
RefsInFlight(k) == SumSeq([i \in 1..Len(toH) |-> IF toH[i].k = k /\ toH[i].type \in {"REF", "PAIR"}
                                                 THEN (IF toH[i].type = "PAIR" THEN 2 ELSE 1) ELSE 0])
DelsInFlight(k) == SumSeq([i \in 1..Len(toO) |-> IF toO[i].type = "DEL" /\ toO[i].k = k THEN toO[i].c ELSE 0])
Suspended(k) == SumSeq([i \in 1..Len(hstack) |-> IF hstack[i].k = k THEN 1 + hstack[i].more ELSE 0])

\* the owner's stored count accounts exactly for references in flight, references whose unboxing is suspended, the live
\* proxies' counts and release notices in flight
Accounting == \A k \in K :
                 IF tab[k] = Absent
                 THEN RefsInFlight(k) + Suspended(k) + Held(k) + DelsInFlight(k) = 0
                 ELSE tab[k] + 1 = RefsInFlight(k) + Suspended(k) + Held(k) + DelsInFlight(k)
Safety == \A k \in K : Held(k) > 0 \/ RefsInFlight(k) > 0 \/ Suspended(k) > 0 => tab[k] # Absent
NoError == err = "none"
LeakFree == \A k \in K : pobj[k] = <<>> /\ toH = <<>> /\ toO = <<>> /\ hstack = <<>> => tab[k] = Absent
ClosedClean == closed => \A k \in K : tab[k] = Absent
\* every suspended unboxing has its question or its answer under way, in order: nobody waits for ever
AnswersUnderWay == Cardinality({i \in DOMAIN hstack : ~hstack[i].ready})
                     = Cardinality({i \in DOMAIN toO : toO[i].type = "INSP"}) + Cardinality({i \in DOMAIN toH : toH[i].type = "INSPR"})
\* NOT an invariant of the design (kept for its counterexample): the number of unboxings suspended inside one another is not
\* bounded by anything but the number of references in flight - in the code each level is a nested serve() on the same stack
NestingAtMostTwo == Len(hstack) <= 2
\* refinement: forgetting the inspection detail gives a behaviour of RpycLifetime's state (counts per key)
=====================================================================================
