---------------------------------- MODULE RpycRegistry ----------------------------------
(* C18: the registry reflects exactly the live registrations and cannot be knocked over.                 *)
(* Code: RegistryServer.cmd_register / cmd_unregister / cmd_query / _add_service / _remove_service /     *)
(* _work, UDPRegistryServer, TCPRegistryServer (rpyc/utils/registry.py).                                  *)
(*                                                                                                       *)
(*   tab[name][addr]  time of the last refresh of server addr under service name (Absent if not a member)*)
(*   now              virtual clock                 notes notifications fired by the last request, in order *)
(*   reply            what the last request was answered with                                            *)
(* One action = one datagram / TCP request processed by the main loop.                                   *)
EXTENDS Integers, Sequences, FiniteSets, TLC

CONSTANTS Addrs,        \* set of <<host, port>>
          Names,        \* canonical (upper-case) service names
          Interval,     \* pruning interval
          T,            \* time horizon
          MalformedKinds
Absent == 0 - 1

VARIABLES tab, now, notes, reply, alive
vars == <<tab, now, notes, reply, alive>>

\* replies are records of one shape (k = none | OK | noreply | answer); only answers carry registrations
R(k) == [k |-> k, set |-> {}, times |-> [a \in {} |-> 0]]

Init == /\ tab = [n \in Names |-> [a \in Addrs |-> Absent]]
        /\ now = 0 /\ notes = <<>> /\ reply = R("none") /\ alive = TRUE

Members(n) == {a \in Addrs : tab[n][a] # Absent}

\* register (host, port) under a non-empty set of names: the refresh time is updated; `added` fires for new members only
RECURSIVE AddedLog(_, _)
AddedLog(ns, a) == IF ns = {} THEN <<>>
                   ELSE LET n == CHOOSE x \in ns : TRUE IN
                        (IF tab[n][a] = Absent THEN <<<<"added", n, a>>>> ELSE <<>>) \o AddedLog(ns \ {n}, a)
Register(a, ns) == /\ alive /\ ns # {}
                   /\ tab' = [n \in Names |-> IF n \in ns THEN [tab[n] EXCEPT ![a] = now] ELSE tab[n]]
                   /\ notes' = AddedLog(ns, a)
                   /\ reply' = R("OK")
                   /\ UNCHANGED <<now, alive>>

\* unregister (host, port): it leaves every service it is a member of; `removed` fires exactly for those
RECURSIVE RemovedLog(_, _)
RemovedLog(ns, a) == IF ns = {} THEN <<>>
                     ELSE LET n == CHOOSE x \in ns : TRUE IN
                          (IF tab[n][a] # Absent THEN <<<<"removed", n, a>>>> ELSE <<>>) \o RemovedLog(ns \ {n}, a)
Unregister(a) == /\ alive
                 /\ tab' = [n \in Names |-> [tab[n] EXCEPT ![a] = Absent]]
                 /\ notes' = RemovedLog(Names, a)
                 /\ reply' = R("OK")
                 /\ UNCHANGED <<now, alive>>

\* query: members whose refresh is older than the pruning interval leave the table (and are notified); the others are
\* the answer, oldest refresh first
Stale(n) == {a \in Members(n) : tab[n][a] < now - Interval}
Fresh(n) == Members(n) \ Stale(n)
Query(n) == /\ alive
            /\ tab' = [tab EXCEPT ![n] = [a \in Addrs |-> IF a \in Stale(n) THEN Absent ELSE tab[n][a]]]
            /\ notes' = [i \in 1..Cardinality(Stale(n)) |-> <<"removed", n>>]   \* one per pruned address (their set: Stale(n))
            /\ reply' = [k |-> "answer", set |-> Fresh(n), times |-> [a \in Fresh(n) |-> tab[n][a]]]
            /\ UNCHANGED <<now, alive>>

Tick == /\ now < T /\ now' = now + 1 /\ notes' = <<>> /\ reply' = R("none") /\ UNCHANGED <<tab, alive>>

\* anything malformed or silent: no registration changes, nothing is notified, the loop lives on
Malformed(k) == /\ alive /\ reply' = R("noreply") /\ notes' = <<>> /\ UNCHANGED <<tab, now, alive>>

Next == \/ \E a \in Addrs, ns \in (SUBSET Names) \ {{}} : Register(a, ns)
        \/ \E a \in Addrs : Unregister(a)
        \/ \E n \in Names : Query(n)
        \/ \E k \in MalformedKinds : Malformed(k)
        \/ Tick
Spec == Init /\ [][Next]_vars

\* ---- properties ----
StaysAlive == alive
FreshIsMember == \A n \in Names : Fresh(n) \subseteq Members(n)
NoFutureTimes == \A n \in Names, a \in Addrs : tab[n][a] <= now
=========================================================================================
