SPECIFICATION Spec
CONSTANTS
  Clients = {"c1", "c2", "c3"}
  Recheck = FALSE
INVARIANT NoServiceAfterClose
INVARIANT NothingLeftBehind
INVARIANT DepartedLeaveNothing
INVARIANT GoodUntouched
PROPERTY Settles
CHECK_DEADLOCK FALSE
