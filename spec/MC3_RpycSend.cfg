SPECIFICATION Spec
CONSTANTS
  Threads <- MC3Threads
  Msgs <- MC3Msgs
  Parts <- MC3Parts
  RePool <- MCEmpty
  MaxDepth = 1
INVARIANT Mutex
INVARIANT Contiguous
INVARIANT InIssueOrder
INVARIANT Accounted
INVARIANT NoStranded
INVARIANT PopSafe
