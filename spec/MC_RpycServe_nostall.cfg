SPECIFICATION Spec
CONSTANTS
  Clients <- MC1Clients
  Reqs <- MC1Reqs
  Bg = "bg"
  Pool <- NoPool
  Handoff = FALSE
INVARIANT RecvMutex
INVARIANT CondMutex
INVARIANT DispatchedOnce
INVARIANT ReplyMatches
INVARIANT Completed
INVARIANT NoLostWakeup
INVARIANT NoHang
INVARIANT WillBeWoken
INVARIANT NoStall
