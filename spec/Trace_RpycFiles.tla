------------------------------- MODULE Trace_RpycFiles -------------------------------
(* sequences of local read / write sizes recorded during real upload_file / download_file runs, validated against the  *)
(* copy loop of RpycFiles.  A trace is [size, chunk, events]; an event is [op, n].                                     *)
EXTENDS RpycFiles, TLCExt
CONSTANT NTraces
VARIABLES tid, l
Traces == JsonDeserialize(IOEnv.TRACE_FILE)
TraceInit == /\ tid \in 1..NTraces /\ l = 1
             /\ size = Traces[tid].size /\ chunk = Traces[tid].chunk
             /\ pos = 0 /\ written = 0 /\ nreads = 0 /\ lastread = 0 /\ phase = "read"
TraceNext == /\ l <= Len(Traces[tid].events)
             /\ LET e == Traces[tid].events[l] IN
                  CASE e.op = "read" -> Read /\ lastread' = e.n
                    [] e.op = "write" -> Write /\ lastread = e.n
                    [] OTHER -> FALSE
             /\ l' = l + 1 /\ UNCHANGED tid
TraceSpec == TraceInit /\ [][TraceNext]_<<cvars, tid, l>>
Progress == TLCSet(tid, IF TLCGet(tid) < l THEN l ELSE TLCGet(tid))
InitRegs == \A i \in 1..NTraces : TLCSet(i, 0)
ASSUME InitRegs
Report == \A i \in 1..NTraces : PrintT(<<"TRACE", i, TLCGet(i) - 1, Len(Traces[i].events)>>)
======================================================================================
