------------------------------- MODULE Trace_RpycFiles -------------------------------
(* sequences of local read / write sizes recorded during real upload_file / download_file runs, validated against the  *)
(* copy loop of RpycFiles.  A trace is [size, chunk, pre, events]; an event is [op, n]; pre is the length of the         *)
(* destination before the call; the first event is "open", the last one "done" with the destination's length afterwards.*)
EXTENDS RpycFiles, TLCExt
CONSTANT NTraces
VARIABLES tid, l
Traces == JsonDeserialize(IOEnv.TRACE_FILE)
TraceInit == /\ tid \in 1..NTraces /\ l = 1
             /\ size = Traces[tid].size /\ chunk = Traces[tid].chunk
             /\ pos = 0 /\ written = 0 /\ nreads = 0 /\ lastread = 0 /\ phase = "open"
             /\ dstlen = Traces[tid].pre
TraceNext == /\ l <= Len(Traces[tid].events)
             /\ LET e == Traces[tid].events[l] IN
                  CASE e.op = "open" -> Open
                    [] e.op = "done" -> phase = "done" /\ dstlen = e.n /\ UNCHANGED cvars
                    [] e.op = "read" -> Read /\ lastread' = e.n
                    [] e.op = "write" -> Write /\ lastread = e.n
                    [] OTHER -> FALSE
             /\ l' = l + 1 /\ UNCHANGED tid
TraceSpec == TraceInit /\ [][TraceNext]_<<cvars, tid, l>>
Progress == TLCSet(tid, IF TLCGet(tid) < l THEN l ELSE TLCGet(tid))
InitRegs == \A i \in 1..NTraces : TLCSet(i, 0)
ASSUME InitRegs
Report == \A i \in 1..NTraces : PrintT(<<"TRACE", i, TLCGet(i) - 1, Len(Traces[i].events)>>)
======================================================================================
