------------------------------- MODULE Trace_RpycLedger -------------------------------
(* Request/response histories executed on two real Connections (frame-by-frame delivery), validated     *)
(* against RpycLedger.  Event: [act, s, cls, mode, nA, nB, idleA, idleB, open] observed after the step. *)
EXTENDS RpycLedger, Json, IOUtils, TLCExt
CONSTANT NTraces
VARIABLES tid, l
Traces == JsonDeserialize(IOEnv.TRACE_FILE)
TraceInit == /\ Init /\ tid \in 1..NTraces /\ l = 1
TraceNext == /\ l <= Len(Traces[tid])
             /\ LET e == Traces[tid][l] IN
                  /\ CASE e.act = "Issue" -> Issue(e.s, e.cls, e.mode)
                       [] e.act = "Process" -> ProcessReq(e.s) \/ ProcessResp(e.s)
                       [] OTHER -> FALSE
                  /\ Len(chan'["A"]) = e.nA /\ Len(chan'["B"]) = e.nB
                  /\ (stack'["A"] = <<>>) = e.idleA /\ (stack'["B"] = <<>>) = e.idleB
                  /\ (\A s \in S : open'[s]) = e.open
             /\ l' = l + 1 /\ UNCHANGED tid
TraceSpec == TraceInit /\ [][TraceNext]_<<vars, tid, l>>
Progress == TLCSet(tid, IF TLCGet(tid) < l THEN l ELSE TLCGet(tid))
InitRegs == \A i \in 1..NTraces : TLCSet(i, 0)
ASSUME InitRegs
Report == \A i \in 1..NTraces : PrintT(<<"TRACE", i, TLCGet(i) - 1, Len(Traces[i])>>)
=======================================================================================
