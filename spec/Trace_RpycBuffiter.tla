------------------------------- MODULE Trace_RpycBuffiter -------------------------------
(* request sizes and reply lengths of real buffiter runs (recorded at the owner's HANDLE_BUFFITER handler), validated  *)
(* against RpycBuffiter; handing elements to the consumer is a silent step.  A trace is [chunk, factor, maxc, n, events] *)
(* with events [count, got].                                                                                           *)
EXTENDS RpycBuffiter, Json, IOUtils, TLCExt
CONSTANT NTraces
VARIABLES tid, l
Traces == JsonDeserialize(IOEnv.TRACE_FILE)
TraceInit == /\ tid \in 1..NTraces /\ l = 1
             /\ chunk = Traces[tid].chunk /\ factor = Traces[tid].factor /\ maxc = Traces[tid].maxc /\ n = Traces[tid].n
             /\ pos = 0 /\ count = Traces[tid].chunk /\ buf = <<>> /\ out = <<>> /\ phase = "fetch" /\ lastreq = 0 /\ lastgot = 0
TraceNext == \/ /\ l <= Len(Traces[tid].events)
                /\ Fetch
                /\ lastreq' = Traces[tid].events[l].count /\ lastgot' = Traces[tid].events[l].got
                /\ l' = l + 1 /\ UNCHANGED tid
             \/ /\ Yield /\ UNCHANGED <<tid, l>>
TraceSpec == TraceInit /\ [][TraceNext]_<<bvars, tid, l>>
Progress == TLCSet(tid, IF TLCGet(tid) < l THEN l ELSE TLCGet(tid))
InitRegs == \A i \in 1..NTraces : TLCSet(i, 0)
ASSUME InitRegs
Report == \A i \in 1..NTraces : PrintT(<<"TRACE", i, TLCGet(i) - 1, Len(Traces[i].events)>>)
=========================================================================================
