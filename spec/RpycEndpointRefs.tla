--------------------------------- MODULE RpycEndpointRefs ---------------------------------
(* C10 as seen at the OWNER's end of a connection, at its Channel: the projection of RpycLifetime's Accounting onto the     *)
(* side that lends objects, stated so that recordings of executions nobody scheduled (the repository's own tests) can be     *)
(* checked without knowing when the peer's proxies live and die:                                                           *)
(*   Box(k)     this end sends a message in which its object k travels by reference (once per occurrence): count + 1;       *)
(*   Del(k, n)  a release notice for k arrives: it can only give back references that were handed out (n <= count), and     *)
(*              the object is forgotten exactly when the count reaches 0;                                                  *)
(*   Use(k)     the peer passes k back (a request naming k as a local reference): the object must still be held for it.     *)
(* Code: Connection._box (LABEL_REMOTE_REF / _local_objects.add), _handle_del (decref), _unbox (LABEL_LOCAL_REF).           *)
EXTENDS Naturals, TLC
CONSTANT NObj
VARIABLES cnt
RInit == cnt = [k \in 1..NObj |-> 0]
Box(k) == cnt' = [cnt EXCEPT ![k] = @ + 1]
Del(k, n) == n >= 1 /\ n <= cnt[k] /\ cnt' = [cnt EXCEPT ![k] = @ - n]
Use(k) == cnt[k] > 0 /\ UNCHANGED cnt
RNext == \E k \in 1..NObj : Box(k) \/ Use(k) \/ \E n \in 1..cnt[k] : Del(k, n)
RSpec == RInit /\ [][RNext]_cnt
NonNegative == \A k \in 1..NObj : cnt[k] >= 0
===========================================================================================
