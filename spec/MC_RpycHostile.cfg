SPECIFICATION Spec
CONSTANTS
  MaxMsgs = 4
INVARIANT Safe
INVARIANT ExportsOnlyGrowLegitimately
