------------------------------- MODULE Trace_RpycTeardown -------------------------------
(* Fault-injection runs of the real Connection + SocketStream stack over scripted sockets, validated      *)
(* against RpycTeardown.  Event (logged when a public call returns or raises, or when a fault fires):     *)
(* [call, x, cA, cB, hA, hB]  with closed flags and disconnect-hook counters after the event.             *)
EXTENDS RpycTeardown, Json, IOUtils, TLCExt
CONSTANT NTraces
VARIABLES tid, l
Traces == JsonDeserialize(IOEnv.TRACE_FILE)
TraceInit == /\ Init /\ tid \in 1..NTraces /\ l = 1
TraceNext == /\ l <= Len(Traces[tid])
             /\ LET e == Traces[tid][l] IN
                  /\ CASE e.call = "issue" -> \E m \in {"sync", "async"} : Issue(e.x, m)
                       [] e.call = "serve" -> Serve(e.x) \/ WaitOrphan(e.x)
                       [] e.call = "close" -> Close(e.x)
                       [] e.call = "recvfault" -> RecvFault(e.x)
                       [] e.call = "sendfault" -> SendFault(e.x)
                       \* the readiness call of a side sitting in serve_all() fails once (EIO): the serve() in progress fails with it
                       \* and changes nothing; serve_all()'s way out is an ordinary close(), logged as such
                       [] e.call = "pollfault" -> UNCHANGED vars
                       [] e.call = "servefail" -> UNCHANGED vars
                       [] OTHER -> FALSE
                  \* a fault fires in the middle of whatever call is running: the flags logged with it are a half-way state
                  /\ (e.call \notin {"recvfault", "sendfault", "pollfault"}) =>
                        /\ closed'["A"] = e.cA /\ closed'["B"] = e.cB
                        /\ hooks'["A"] = e.hA /\ hooks'["B"] = e.hB
             /\ l' = l + 1 /\ UNCHANGED tid
TraceSpec == TraceInit /\ [][TraceNext]_<<vars, tid, l>>
Progress == TLCSet(tid, IF TLCGet(tid) < l THEN l ELSE TLCGet(tid))
InitRegs == \A i \in 1..NTraces : TLCSet(i, 0)
ASSUME InitRegs
Report == \A i \in 1..NTraces : PrintT(<<"TRACE", i, TLCGet(i) - 1, Len(Traces[i])>>)
=========================================================================================
