---------------------------------- MODULE RpycHostile ----------------------------------
(* C07: a hostile peer cannot step outside what the service exposes (default configuration).             *)
(* The attacker sends arbitrary well-framed messages to one connection of a process that also serves a   *)
(* second connection.  The object world of the serving side:                                            *)
(*   root   the service (exposed: echo, getobj, mklist;  not exposed: secret(), _hidden(), _private)      *)
(*   obj    a plain object the service hands out on request (by reference) with a public and a private    *)
(*          attribute and a method                                                                       *)
(*   other  an object exported on the OTHER connection only      never  an object never exported at all   *)
(*   forged an identifier that names nothing                     stale  obj after the peer released it    *)
(*   never_class   the genuine identifier of a class of the serving process that was never exported        *)
(*   forged_class  a class-shaped identifier (instance part 0) carrying a real importable class name and  *)
(*                 a made-up number: identifiers are looked up, never resolved by name                    *)
(* Code: Connection._dispatch/_dispatch_request/_unbox/_access_attr/_handle_* (rpyc/core/protocol.py),   *)
(* vinegar.load (rpyc/core/vinegar.py), RefCountingColl (rpyc/lib/colls.py).                              *)
(*                                                                                                       *)
(* Part 1 is a table: Expect(t, s) = the set of response classes the property permits for message         *)
(* template t in abstract state s (REPLY / EXC = answered with an exception / NONE = ignored /            *)
(* END = at worst that one connection ends).  Part 2 is the state machine over these templates whose      *)
(* invariants are the property.                                                                          *)
EXTENDS Naturals, Sequences, FiniteSets, TLC, Json, IOUtils, SequencesExt

Kinds == {"REQ", "REPLY", "EXCMSG", "BADKIND"}
Handlers == {"PING", "CLOSE", "GETROOT", "GETATTR", "DELATTR", "SETATTR", "CALL", "CALLATTR", "REPR", "STR", "CMP", "HASH",
             "DIR", "PICKLE", "DEL", "INSPECT", "BUFFITER", "OLDSLICING", "CTXEXIT", "INSTANCECHECK", "UNKNOWN"}
\* what the request is aimed at (first argument): a local reference to ..., or something that is not a local reference
Targets == {"root", "obj", "other", "never", "forged", "stale", "value", "badlabel", "remote", "never_class", "forged_class"}
\* attribute / method / operator names used in the request
\* "shadowed": the object has both X (denied) and exposed_X: asking for X must reach the exposed twin, never X itself
Names == {"exposed", "denied", "dunder_safe", "nontext", "shadowed"}
Arities == {"ok", "wrong"}
ExcPayloads == {"genuine", "builtin_nonexc", "os_system", "unimported_mod", "unknown_mod", "not_a_tuple", "wrong_arity",
                "dunder_attrs", "text", "int_other"}

Templates == [kind : {"REQ"}, handler : Handlers, target : Targets, name : Names, arity : Arities]
             \cup [kind : {"REPLY"}, payload : {"value", "badlabel", "remote"}, seq : {"unknown", "pending"}]
             \cup [kind : {"EXCMSG"}, payload : ExcPayloads, seq : {"unknown", "pending"}]
             \cup [kind : {"BADKIND"}, payload : {"zero", "ninety_nine", "text", "garbage_bytes"}]

\* abstract state of the attacked connection
States == [alive : BOOLEAN, rootExported : BOOLEAN, objExported : BOOLEAN, objReleased : BOOLEAN]

\* is the target a reference the service really handed to this peer on this connection (and not released)?
Legit(t, s) == \/ t.target = "root" /\ s.rootExported
               \/ t.target \in {"obj", "stale"} /\ s.objExported /\ ~s.objReleased    \* "stale" is obj's identifier
NeedsTarget(h) == h \notin {"PING", "CLOSE", "GETROOT", "UNKNOWN", "INSPECT"}
\* OLDSLICING names two attributes: one to try first and a fallback; the template's name is the FALLBACK, the first one fails
UsesName(h) == h \in {"GETATTR", "DELATTR", "SETATTR", "CALLATTR", "CMP", "OLDSLICING"}

Expect(t, s) ==
    IF ~s.alive THEN {"DEAD"}
    \* (random bytes may be empty - an empty packet is skipped by serve() - or happen to decode as a response nobody waits for)
    ELSE IF t.kind = "BADKIND" THEN (IF t.payload = "garbage_bytes" THEN {"END", "NONE"} ELSE {"END"})
    ELSE IF t.kind = "REPLY" THEN (IF t.payload = "badlabel" THEN {"END", "NONE"} ELSE {"NONE"})
    ELSE IF t.kind = "EXCMSG" THEN {"NONE", "END"}
    ELSE \* a request
         IF t.handler = "UNKNOWN" THEN {"EXC"}
         ELSE IF t.arity = "wrong" THEN (IF t.handler = "CLOSE" THEN {"EXC", "END"} ELSE {"EXC"})
         ELSE IF t.handler = "PING" THEN {"REPLY"}
         ELSE IF t.handler = "CLOSE" THEN {"END"}
         ELSE IF t.handler = "GETROOT" THEN {"REPLY"}
         ELSE IF t.handler = "INSPECT" THEN (IF Legit(t, s) THEN {"REPLY"} ELSE {"EXC"})
         ELSE IF ~Legit(t, s) THEN
              \* not a reference of this connection: a plain value or a reference to the attacker's own object is an
              \* ordinary (if useless) operand for the handlers that do not look anything up by name
              IF t.target \in {"value", "remote"} /\ t.handler \in {"REPR", "STR", "HASH", "DIR", "CALL", "BUFFITER", "PICKLE",
                                                                    "CTXEXIT", "INSTANCECHECK", "OLDSLICING", "DEL", "CMP",
                                                                    "GETATTR", "SETATTR", "DELATTR", "CALLATTR"}
              THEN {"REPLY", "EXC"}
              ELSE {"EXC"}
         ELSE IF UsesName(t.handler) /\ t.name = "nontext" THEN {"EXC"}
         ELSE CASE t.handler = "GETATTR" -> IF t.name \in {"exposed", "dunder_safe", "shadowed"} THEN {"REPLY", "EXC"} ELSE {"EXC"}
                [] t.handler = "CALLATTR" -> IF t.name \in {"exposed", "dunder_safe", "shadowed"} THEN {"REPLY", "EXC"} ELSE {"EXC"}
                [] t.handler = "OLDSLICING" -> IF t.name \in {"exposed", "dunder_safe", "shadowed"} THEN {"REPLY", "EXC"} ELSE {"EXC"}
                [] t.handler \in {"SETATTR", "DELATTR"} -> {"EXC"}
                \* the operator is looked up on the object's type through the policy: an exposed method or a safe-listed
                \* operator may run (and may fail), anything else is refused
                [] t.handler = "CMP" -> IF t.name \in {"exposed", "dunder_safe", "shadowed"} THEN {"REPLY", "EXC"} ELSE {"EXC"}
                [] t.handler = "PICKLE" -> {"EXC"}
                [] t.handler \in {"REPR", "STR", "HASH", "DIR", "DEL"} -> {"REPLY"}
                [] OTHER -> {"REPLY", "EXC"}

\* effect on the abstract state
Step(t, s) ==
    IF ~s.alive THEN s
    ELSE IF "END" \in Expect(t, s) /\ Cardinality(Expect(t, s)) = 1 THEN [s EXCEPT !.alive = FALSE]
    ELSE IF t.kind = "REQ" /\ t.arity = "ok" /\ t.handler = "GETROOT" THEN [s EXCEPT !.rootExported = TRUE]
    ELSE IF t.kind = "REQ" /\ t.arity = "ok" /\ t.handler = "CALLATTR" /\ t.target = "root" /\ s.rootExported /\ t.name = "exposed"
         THEN [s EXCEPT !.objExported = TRUE, !.objReleased = FALSE]     \* root.getobj() hands obj out
    ELSE IF t.kind = "REQ" /\ t.arity = "ok" /\ t.handler = "DEL" /\ t.target \in {"obj", "stale"} /\ Legit(t, s)
         THEN [s EXCEPT !.objReleased = TRUE]
    ELSE IF t.kind = "REQ" /\ t.arity = "ok" /\ t.handler = "DEL" /\ t.target = "root" /\ Legit(t, s)
         THEN [s EXCEPT !.rootExported = FALSE]        \* the peer gave the root reference back
    ELSE s

ASSUME \A t \in Templates, s \in States : Expect(t, s) # {}
\* nothing aimed at an object that was not handed to this peer is ever answered with a plain REPLY only
ASSUME \A t \in Templates, s \in States :
          t.kind = "REQ" /\ s.alive /\ NeedsTarget(t.handler) /\ t.arity = "ok"
          /\ (t.target \in {"other", "never", "forged", "never_class", "forged_class"} \/ (t.target \in {"obj", "stale"} /\ (s.objReleased \/ ~s.objExported)))
          => Expect(t, s) = {"EXC"}
ASSUME \A t \in Templates, s \in States :
          t.kind = "REQ" /\ s.alive /\ Legit(t, s) /\ t.arity = "ok" /\ t.handler \in {"SETATTR", "DELATTR", "PICKLE"} => Expect(t, s) = {"EXC"}

Export == IF "OUT_FILE" \in DOMAIN IOEnv
          THEN ndJsonSerialize(IOEnv.OUT_FILE, SetToSeq({[t |-> t, s |-> s, expect |-> Expect(t, s), next |-> Step(t, s)]
                                                          : <<t, s>> \in {x \in Templates \X States : x[2].alive}}))
          ELSE TRUE
ASSUME Export

----------------------------------------------------------------------------------------
VARIABLES st, canary, foreign, imported, pickled, n
vars == <<st, canary, foreign, imported, pickled, n>>
CONSTANT MaxMsgs
Init == /\ st = [alive |-> TRUE, rootExported |-> FALSE, objExported |-> FALSE, objReleased |-> FALSE]
        /\ canary = FALSE /\ foreign = FALSE /\ imported = FALSE /\ pickled = FALSE /\ n = 0
\* the attacker sends any template; per the table nothing but the abstract state changes
Attack(t) == /\ n < MaxMsgs /\ st.alive
             /\ st' = Step(t, st) /\ n' = n + 1
             /\ UNCHANGED <<canary, foreign, imported, pickled>>
Next == (\E t \in Templates : Attack(t)) \/ UNCHANGED vars
Spec == Init /\ [][Next]_vars
Safe == ~canary /\ ~foreign /\ ~imported /\ ~pickled
ExportsOnlyGrowLegitimately == st.objReleased => st.objExported
========================================================================================
