SPECIFICATION Spec
CONSTANTS
  Kinds = {"list", "dict", "set", "deque", "gen", "file", "bytearray", "user"}
  Configs = {"classic", "default"}
INVARIANT Reachable
