------------------------------- MODULE MC_RpycAsync -------------------------------
EXTENDS RpycAsync
MCTimeouts == {NoneT, 0 - 1, 0, 1, 2}
AllOps == {"set_expiry", "add_callback", "expired", "ready", "poll", "wait"}
MCKinds == {"plain", "chain"}
WaitOps == {"set_expiry", "wait"}
WaitTimeouts == {NoneT, 0, 1, 2}
===================================================================================
