---------------------------------- MODULE RpycLedger ----------------------------------
(* C08: every request gets exactly one response, delivered to its own requester.                       *)
(* Two peers, each single-threaded, exchange REQUEST / REPLY / EXCEPTION frames over two FIFO streams. *)
(* Code: Connection._async_request / sync_request / serve / _dispatch / _dispatch_request /            *)
(* _seq_request_callback (rpyc/core/protocol.py), AsyncResult (rpyc/core/async_.py).                   *)
(*                                                                                                     *)
(* A request has a class that determines what its handler does:                                        *)
(*   value, ref      handler returns a plain value / an object passed by reference    -> REPLY         *)
(*   raises          handler raises                                                   -> EXCEPTION     *)
(*   undecodable     the arguments cannot be unboxed (forged local reference)         -> EXCEPTION     *)
(*   nohandler       unknown handler number                                           -> EXCEPTION     *)
(*   unencodable     handler returns a value the serializer accepts but cannot encode -> EXCEPTION     *)
(*   nested          handler first calls back into the requester (synchronously), then returns -> REPLY*)
(* A synchronous requester serves incoming frames while it waits (re-entrant serve).                   *)
EXTENDS Naturals, Sequences, FiniteSets, TLC

CONSTANTS Classes,         \* subset of the classes above that may be issued
          MaxReq,          \* bound on top-level requests (model bound)
          TearDownOnUnencodable   \* TRUE models the defect of the pinned tree (reply sent outside the try block)

S == {"A", "B"}
Peer(s) == IF s = "A" THEN "B" ELSE "A"
ReplyKind(c) == IF c \in {"value", "ref", "nested", "callback"} THEN "REPLY" ELSE "EXC"

VARIABLES reqs,     \* Seq of [from, cls, mode, seq]; index = request id
          chan,     \* chan[s]: frames travelling to s: [kind, seq, rid]
          seqctr,   \* next sequence number of side s
          cbs,      \* cbs[s]: set of <<seq, rid>> : callbacks registered at s
          stack,    \* stack[s]: what s is blocked in: Seq of [seq, hrid, hseq] (hrid = 0: a top-level sync request)
          exec,     \* exec[r]: how often the handler of r ran
          resp,     \* resp[r]: response frames sent for r (kinds)
          got,      \* got[r]: what r's callback received: Seq of [kind, rid]
          open,
          ntop
vars == <<reqs, chan, seqctr, cbs, stack, exec, resp, got, open, ntop>>

Init == /\ reqs = <<>>
        /\ chan = [s \in S |-> <<>>]
        /\ seqctr = [s \in S |-> 0]
        /\ cbs = [s \in S |-> {}]
        /\ stack = [s \in S |-> <<>>]
        /\ exec = <<>> /\ resp = <<>> /\ got = <<>>
        /\ open = [s \in S |-> TRUE]
        /\ ntop = 0

AllOpen == \A s \in S : open[s]

\* register request (s, cls, mode) and put its frame on the wire; returns nothing, constrains primed vars
NewReq(s, cls, mode, chanBase, execBase) ==
    LET rid == Len(reqs) + 1
        seq == seqctr[s] IN
    /\ reqs' = Append(reqs, [from |-> s, cls |-> cls, mode |-> mode, seq |-> seq])
    /\ seqctr' = [seqctr EXCEPT ![s] = @ + 1]
    /\ cbs' = [cbs EXCEPT ![s] = @ \cup {<<seq, rid>>}]
    /\ chan' = [chanBase EXCEPT ![Peer(s)] = Append(@, [kind |-> "REQ", seq |-> seq, rid |-> rid])]
    /\ exec' = Append(execBase, 0) /\ resp' = Append(resp, <<>>) /\ got' = Append(got, <<>>)

\* the program at side s (not inside any call) issues a request
Issue(s, cls, mode) ==
    /\ AllOpen /\ ntop < MaxReq /\ stack[s] = <<>>
    /\ NewReq(s, cls, mode, chan, exec)
    /\ stack' = IF mode = "sync" THEN [stack EXCEPT ![s] = <<[seq |-> seqctr[s], hrid |-> 0, hseq |-> 0]>>] ELSE stack
    /\ ntop' = ntop + 1
    /\ UNCHANGED open

Respond(ch, s, seq, r, kind) == [ch EXCEPT ![Peer(s)] = Append(@, [kind |-> kind, seq |-> seq, rid |-> r])]

\* side s takes the next frame addressed to it (it is idle, or blocked in a synchronous request and serving)
ProcessReq(s) ==
    /\ AllOpen /\ chan[s] # <<>> /\ Head(chan[s]).kind = "REQ"
    /\ LET f == Head(chan[s])
           r == f.rid
           cls == reqs[r].cls
           rest == [chan EXCEPT ![s] = Tail(@)] IN
       IF cls = "nested"
       THEN \* the handler runs and calls back into the requester; it is suspended in that synchronous call
            /\ NewReq(s, "callback", "sync", rest, [exec EXCEPT ![r] = @ + 1])
            /\ stack' = [stack EXCEPT ![s] = Append(@, [seq |-> seqctr[s], hrid |-> r, hseq |-> f.seq])]
            /\ UNCHANGED <<open, ntop>>
       ELSE IF cls = "unencodable" /\ TearDownOnUnencodable
       THEN \* the pinned tree: the failure escapes the dispatcher and the serving side closes the connection
            /\ exec' = [exec EXCEPT ![r] = @ + 1]
            /\ open' = [s2 \in S |-> FALSE]
            /\ chan' = rest
            /\ UNCHANGED <<reqs, seqctr, cbs, stack, resp, got, ntop>>
       ELSE /\ exec' = [exec EXCEPT ![r] = IF cls \in {"undecodable", "nohandler"} THEN @ ELSE @ + 1]
            /\ chan' = Respond(rest, s, f.seq, r, ReplyKind(cls))
            /\ resp' = [resp EXCEPT ![r] = Append(@, ReplyKind(cls))]
            /\ UNCHANGED <<reqs, seqctr, cbs, stack, got, open, ntop>>

\* control returns through every suspended synchronous call whose result has arrived (innermost first); a handler that
\* was suspended in its callback finishes and answers its own request
RECURSIVE Unwind(_, _, _)
Unwind(stk, pendingSeqs, out) ==
    IF stk = <<>> \/ stk[Len(stk)].seq \in pendingSeqs
    THEN [stk |-> stk, out |-> out]
    ELSE LET top == stk[Len(stk)] IN
         Unwind(SubSeq(stk, 1, Len(stk) - 1), pendingSeqs,
                IF top.hrid # 0 THEN Append(out, [seq |-> top.hseq, rid |-> top.hrid]) ELSE out)

RECURSIVE SendAll(_, _, _)
SendAll(ch, s, out) == IF out = <<>> THEN ch
                       ELSE SendAll(Respond(ch, s, out[1].seq, out[1].rid, "REPLY"), s, Tail(out))
RECURSIVE MarkAll(_, _)
MarkAll(rs, out) == IF out = <<>> THEN rs
                    ELSE MarkAll([rs EXCEPT ![out[1].rid] = Append(@, "REPLY")], Tail(out))

ProcessResp(s) ==
    /\ AllOpen /\ chan[s] # <<>> /\ Head(chan[s]).kind # "REQ"
    /\ LET f == Head(chan[s])
           rest == [chan EXCEPT ![s] = Tail(@)]
           hit == {p \in cbs[s] : p[1] = f.seq}
           newcbs == cbs[s] \ hit
           u == Unwind(stack[s], {p[1] : p \in newcbs}, <<>>) IN
       /\ cbs' = [cbs EXCEPT ![s] = newcbs]
       /\ got' = [i \in 1..Len(got) |-> IF \E p \in hit : p[2] = i THEN Append(got[i], [kind |-> f.kind, rid |-> f.rid])
                                                                       ELSE got[i]]
       /\ stack' = [stack EXCEPT ![s] = u.stk]
       /\ chan' = SendAll(rest, s, u.out)
       /\ resp' = MarkAll(resp, u.out)
       /\ UNCHANGED <<reqs, seqctr, exec, open, ntop>>

Quiescent == \A s \in S : chan[s] = <<>> /\ stack[s] = <<>>
Done == Quiescent /\ ntop = MaxReq /\ UNCHANGED vars
Dead == ~AllOpen /\ UNCHANGED vars

Next == \/ \E s \in S, c \in Classes, m \in {"sync", "async"} : Issue(s, c, m)
        \/ \E s \in S : ProcessReq(s) \/ ProcessResp(s)
        \/ Done \/ Dead
Spec == Init /\ [][Next]_vars

---------------------------------------------------------------------------------------
R == 1..Len(reqs)
ExecAtMostOnce == \A r \in R : exec[r] <= 1
OneResponse == \A r \in R : Len(resp[r]) <= 1
\* a response is delivered to the request with its number and to no other; at most once
Routing == \A r \in R : Len(got[r]) <= 1 /\ \A i \in 1..Len(got[r]) : got[r][i].rid = r
KindMatches == \A r \in R : \A i \in 1..Len(resp[r]) : resp[r][i] = ReplyKind(reqs[r].cls)
\* when nothing is in flight and nobody is blocked, every request was answered and every requester served
Complete == Quiescent /\ AllOpen => \A r \in R : Len(resp[r]) = 1 /\ Len(got[r]) = 1 /\ got[r][1].kind = ReplyKind(reqs[r].cls)
NoOrphanCallbacks == Quiescent /\ AllOpen => \A s \in S : cbs[s] = {}
\* no request outcome closes the connection
StayOpen == AllOpen
\* a blocked side is always waiting for something that is still to come
WaitsAreLive == \A s \in S : stack[s] # <<>> =>
                   \E p \in cbs[s] : p[1] = stack[s][Len(stack[s])].seq
SeqUnique == \A r1, r2 \in R : r1 # r2 /\ reqs[r1].from = reqs[r2].from => reqs[r1].seq # reqs[r2].seq
=======================================================================================
