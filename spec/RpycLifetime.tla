--------------------------------- MODULE RpycLifetime ---------------------------------
(* C10: objects lent to the peer live exactly as long as the peer holds them.                       *)
(* Owner O lends objects K to holder H over two one-way FIFO message streams.                        *)
(* Code: Connection._box / _unbox / _handle_del / _cleanup (rpyc/core/protocol.py),                 *)
(* RefCountingColl.add / decref / clear (rpyc/lib/colls.py), BaseNetref.__del__ (rpyc/core/netref.py)*)
(*                                                                                                  *)
(*   tab[k]    owner's _local_objects slot: "absent" or the stored count (= number of boxings - 1)  *)
(*   proxy[k]  holder's live proxy for k: 0 = none, n > 0 = its ____refcount__                      *)
(*   toH       frames owner -> holder carrying references: REF(k) (k boxed once), PAIR(k) (k twice  *)
(*             in one tuple)                                                                        *)
(*   toO       frames holder -> owner: DEL(k, c) release notice, PB(k) a request that passes the    *)
(*             proxy back (boxed as a local reference), REQ(k) a request whose reply will carry k   *)
(*             (c = 1: the holder has stopped waiting for it - its result expired - before the     *)
(*             reply comes; the reply, OREF(k), still carries the reference and is still unboxed)  *)
(* Reply frames that carry no reference are not modelled (they change nothing here).                *)
EXTENDS Integers, Sequences, FiniteSets, TLC

CONSTANTS K,          \* objects
          MaxBox,     \* bound on boxings per object (model bound)
          MaxQ        \* bound on stream length (model bound)

VARIABLES tab, proxy, toH, toO, boxed, err, closed
vars == <<tab, proxy, toH, toO, boxed, err, closed>>
Absent == 0 - 1     \* (TLC cannot compare a string with a number)

Init == /\ tab = [k \in K |-> Absent]
        /\ proxy = [k \in K |-> 0]
        /\ toH = <<>> /\ toO = <<>>
        /\ boxed = [k \in K |-> 0]
        /\ err = "none"
        /\ closed = FALSE

Add(t, k) == [t EXCEPT ![k] = IF @ = Absent THEN 0 ELSE @ + 1]      \* RefCountingColl.add

\* the owner passes k to the holder as an argument of a request (boxing k once)
Send(k) == /\ ~closed /\ boxed[k] < MaxBox /\ Len(toH) < MaxQ
           /\ tab' = Add(tab, k)
           /\ toH' = Append(toH, [type |-> "REF", k |-> k])
           /\ boxed' = [boxed EXCEPT ![k] = @ + 1]
           /\ UNCHANGED <<proxy, toO, err, closed>>

\* ... inside a tuple in which k occurs twice (boxing k twice)
SendPair(k) == /\ ~closed /\ boxed[k] + 1 < MaxBox /\ Len(toH) < MaxQ
               /\ tab' = Add(Add(tab, k), k)
               /\ toH' = Append(toH, [type |-> "PAIR", k |-> k])
               /\ boxed' = [boxed EXCEPT ![k] = @ + 2]
               /\ UNCHANGED <<proxy, toO, err, closed>>

\* the holder asks for k; the owner will answer with a reference (result by reference, sync or async)
Request(k) == /\ ~closed /\ boxed[k] < MaxBox /\ Len(toO) < MaxQ
              /\ toO' = Append(toO, [type |-> "REQ", k |-> k, c |-> 0])
              /\ boxed' = [boxed EXCEPT ![k] = @ + 1]       \* counted when asked, so the bound is static
              /\ UNCHANGED <<tab, proxy, toH, err, closed>>

\* ... and gives up at once (asynchronous request whose result expires before the reply arrives): the late reply is discarded
\* by AsyncResult.__call__, but only after _dispatch has unboxed it
RequestAbandoned(k) == /\ ~closed /\ boxed[k] < MaxBox /\ Len(toO) < MaxQ
                       /\ toO' = Append(toO, [type |-> "REQ", k |-> k, c |-> 1])
                       /\ boxed' = [boxed EXCEPT ![k] = @ + 1]
                       /\ UNCHANGED <<tab, proxy, toH, err, closed>>

\* _unbox of a remote reference: a live cached proxy is reused and its count bumped, otherwise a new proxy
Recv(p, k) == [p EXCEPT ![k] = @ + 1]

DeliverToHolder == /\ ~closed /\ toH # <<>>
                   /\ LET m == Head(toH) IN
                        IF m.type = "OREF" /\ proxy[m.k] = 0
                        THEN \* nobody takes the result: the fresh proxy is garbage at once and its finalizer returns the reference
                             /\ toO' = Append(toO, [type |-> "DEL", k |-> m.k, c |-> 1])
                             /\ UNCHANGED proxy
                        ELSE /\ proxy' = IF m.type = "PAIR" THEN Recv(Recv(proxy, m.k), m.k) ELSE Recv(proxy, m.k)
                             /\ UNCHANGED toO
                   /\ toH' = Tail(toH)
                   /\ UNCHANGED <<tab, boxed, err, closed>>

\* the program drops its last handle on the proxy: the finalizer sends the whole count back
DropProxy(k) == /\ ~closed /\ proxy[k] > 0 /\ Len(toO) < MaxQ
                /\ toO' = Append(toO, [type |-> "DEL", k |-> k, c |-> proxy[k]])
                /\ proxy' = [proxy EXCEPT ![k] = 0]
                /\ UNCHANGED <<tab, toH, boxed, err, closed>>

\* the holder uses the proxy in a request: it travels as a local reference and must resolve at the owner
PassBack(k) == /\ ~closed /\ proxy[k] > 0 /\ Len(toO) < MaxQ
               /\ toO' = Append(toO, [type |-> "PB", k |-> k, c |-> 0])
               /\ UNCHANGED <<tab, proxy, toH, boxed, err, closed>>

DeliverToOwner ==
    /\ ~closed /\ toO # <<>>
    /\ LET m == Head(toO) IN
         CASE m.type = "DEL" ->
                /\ IF tab[m.k] = Absent
                   THEN err' = "del-of-absent" /\ UNCHANGED tab
                   ELSE /\ tab' = [tab EXCEPT ![m.k] = IF @ < m.c THEN Absent ELSE @ - m.c]   \* decref
                        /\ UNCHANGED err
                /\ UNCHANGED toH
           [] m.type = "PB" ->
                /\ err' = IF tab[m.k] = Absent THEN "use-of-released" ELSE err
                /\ UNCHANGED <<tab, toH>>
           [] m.type = "REQ" ->
                /\ tab' = Add(tab, m.k)
                /\ toH' = Append(toH, [type |-> IF m.c = 1 THEN "OREF" ELSE "REF", k |-> m.k])
                /\ UNCHANGED err
    /\ toO' = Tail(toO)
    /\ UNCHANGED <<proxy, boxed, closed>>

\* either side closes: the tables are cleared, the streams are gone
Close == /\ ~closed
         /\ closed' = TRUE
         /\ tab' = [k \in K |-> Absent]
         /\ proxy' = [k \in K |-> 0]
         /\ toH' = <<>> /\ toO' = <<>>
         /\ UNCHANGED <<boxed, err>>

Next == \/ \E k \in K : Send(k) \/ SendPair(k) \/ Request(k) \/ RequestAbandoned(k) \/ DropProxy(k) \/ PassBack(k)
        \/ DeliverToHolder \/ DeliverToOwner \/ Close
        \/ (closed /\ UNCHANGED vars)
Spec == Init /\ [][Next]_vars

-------------------------------------------------------------------------------------
RefsInFlight(k) == LET F[i \in 0..Len(toH)] ==
                         IF i = 0 THEN 0
                         ELSE F[i-1] + (IF toH[i].k = k THEN (IF toH[i].type = "PAIR" THEN 2 ELSE 1) ELSE 0)
                   IN F[Len(toH)]
DelsInFlight(k) == LET F[i \in 0..Len(toO)] ==
                         IF i = 0 THEN 0
                         ELSE F[i-1] + (IF toO[i].type = "DEL" /\ toO[i].k = k THEN toO[i].c ELSE 0)
                   IN F[Len(toO)]

\* the owner's stored count accounts exactly for references in flight, the live proxy's count and release
\* notices in flight
Accounting == \A k \in K :
                 IF tab[k] = Absent
                 THEN RefsInFlight(k) + proxy[k] + DelsInFlight(k) = 0
                 ELSE tab[k] + 1 = RefsInFlight(k) + proxy[k] + DelsInFlight(k)

\* safety: while the holder has a live proxy, or a reference is on its way, the owner still has the object
Safety == \A k \in K : proxy[k] > 0 \/ RefsInFlight(k) > 0 => tab[k] # Absent
\* every use of a live proxy resolves, no release notice ever hits a released slot
NoError == err = "none"
\* leak freedom: no proxy, nothing in flight => the owner's connection holds nothing
PendingReq(k) == \E i \in 1..Len(toO) : toO[i].type = "REQ" /\ toO[i].k = k
LeakFree == \A k \in K : proxy[k] = 0 /\ toH = <<>> /\ toO = <<>> => tab[k] = Absent
ClosedClean == closed => \A k \in K : tab[k] = Absent
=====================================================================================
