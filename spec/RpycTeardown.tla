--------------------------------- MODULE RpycTeardown ---------------------------------
(* C11: every way a connection can end leaves both sides clean, once, and nobody hanging.               *)
(* Two single-threaded peers at the granularity of public calls (a call runs to completion unless it    *)
(* blocks waiting for a reply, in which case the side serves incoming frames re-entrantly).             *)
(* Code: Connection.close / _cleanup / _handle_close / serve / serve_all / _async_request               *)
(* (rpyc/core/protocol.py), SocketStream.read/write/poll/close (rpyc/core/stream.py), AsyncResult.wait. *)
(*                                                                                                      *)
(*  closed[x]  Connection.closed           hooks[x]  number of on_disconnect calls                      *)
(*  table[x]   "held" while x keeps objects for the peer, "empty" after _local_objects.clear()          *)
(*  sopen[x]   x's stream object is open   rdok[x] / wrok[x]  reads / writes of x's socket still work     *)
(*  wire[x]    frames in flight to x: REQ(r) / REPLY(r) / CLOSE                                         *)
(*  req[r]     [from, st]: st = pending | value | eof      blocked[x] = request x is synchronously      *)
(*                                                          waiting for (0: none)                       *)
EXTENDS Naturals, Sequences, FiniteSets, TLC
CONSTANTS MaxReq
S == {"A", "B"}
Peer(x) == IF x = "A" THEN "B" ELSE "A"

VARIABLES closed, hooks, table, sopen, rdok, wrok, wire, req, blocked, answered, raised
vars == <<closed, hooks, table, sopen, rdok, wrok, wire, req, blocked, answered, raised>>

Init == /\ closed = [x \in S |-> FALSE] /\ hooks = [x \in S |-> 0]
        /\ table = [x \in S |-> "held"] /\ sopen = [x \in S |-> TRUE]
        /\ rdok = [x \in S |-> TRUE] /\ wrok = [x \in S |-> TRUE]
        /\ wire = [x \in S |-> <<>>] /\ req = <<>> /\ blocked = [x \in S |-> 0]
        /\ answered = {}          \* history: requests for which the peer really produced a reply frame
        /\ raised = [x \in S |-> "none"]   \* what the last public call of x raised ("none" | "EOFError")

\* channel closed, on_disconnect, tables cleared (Connection._cleanup)
Cleaned(x) == /\ closed' = [closed EXCEPT ![x] = TRUE]
              /\ sopen' = [sopen EXCEPT ![x] = FALSE]
              /\ hooks' = [hooks EXCEPT ![x] = @ + 1]
              /\ table' = [table EXCEPT ![x] = "empty"]

\* a synchronous call of x that is in progress ends with EOFError
FailBlocked(x) == /\ req' = IF blocked[x] # 0 THEN [req EXCEPT ![blocked[x]].st = "eof"] ELSE req
                  /\ blocked' = [blocked EXCEPT ![x] = 0]

\* a write by x succeeds iff its socket still sends and the peer's socket is open
CanWrite(x) == wrok[x] /\ sopen[Peer(x)]

\* the program at x (not inside a call) issues a request
Issue(x, mode) ==
    /\ Len(req) < MaxReq /\ blocked[x] = 0
    /\ IF ~sopen[x]
       THEN \* closed connection / stream: EOFError at once, nothing registered
            /\ req' = Append(req, [from |-> x, st |-> "eof"])
            /\ raised' = [raised EXCEPT ![x] = "EOFError"]
            /\ UNCHANGED <<closed, hooks, table, sopen, wire, blocked>>
       ELSE IF ~CanWrite(x)
       THEN \* the write fails: the stream closes itself, the callback is unregistered, EOFError
            /\ req' = Append(req, [from |-> x, st |-> "eof"])
            /\ sopen' = [sopen EXCEPT ![x] = FALSE]
            /\ raised' = [raised EXCEPT ![x] = "EOFError"]
            /\ UNCHANGED <<closed, hooks, table, wire, blocked>>
       ELSE /\ req' = Append(req, [from |-> x, st |-> "pending"])
            /\ wire' = [wire EXCEPT ![Peer(x)] = Append(@, [k |-> "REQ", r |-> Len(req) + 1])]
            /\ blocked' = IF mode = "sync" THEN [blocked EXCEPT ![x] = Len(req) + 1] ELSE blocked
            /\ raised' = [raised EXCEPT ![x] = "none"]
            /\ UNCHANGED <<closed, hooks, table, sopen>>
    /\ UNCHANGED <<rdok, wrok, answered>>

EofVisible(x) == ~sopen[x] \/ ~rdok[x] \/ (wire[x] = <<>> /\ ~sopen[Peer(x)])

\* close(): flag, best-effort close request, cleanup; a second close is a no-op
Close(x) ==
    /\ blocked[x] = 0
    /\ IF closed[x]
       THEN UNCHANGED <<closed, hooks, table, sopen, wire>>
       ELSE /\ Cleaned(x)
            /\ wire' = IF sopen[x] /\ CanWrite(x) THEN [wire EXCEPT ![Peer(x)] = Append(@, [k |-> "CLOSE", r |-> 0])]
                       ELSE wire
    /\ raised' = [raised EXCEPT ![x] = "none"]
    /\ UNCHANGED <<rdok, wrok, req, blocked, answered>>

\* x serves once: it is idle and something is readable, or it is blocked in a synchronous request
Serve(x) ==
    /\ ~closed[x] \/ blocked[x] # 0
    /\ IF sopen[x] /\ rdok[x] /\ wire[x] # <<>>
       THEN LET f == Head(wire[x]) rest == [wire EXCEPT ![x] = Tail(@)] IN
            CASE f.k = "REQ" ->
                   IF CanWrite(x)
                   THEN /\ wire' = [rest EXCEPT ![Peer(x)] = Append(@, [k |-> "REPLY", r |-> f.r])]
                        /\ answered' = answered \cup {f.r}
                        /\ raised' = [raised EXCEPT ![x] = "none"]
                        /\ UNCHANGED <<closed, hooks, table, sopen, req, blocked>>
                   ELSE \* sending the reply fails: the stream closes itself and EOFError escapes serve();
                        \* `closed` only follows at the next serve (reading note in DESIGN.md)
                        /\ wire' = rest
                        /\ sopen' = [sopen EXCEPT ![x] = FALSE]
                        /\ FailBlocked(x)
                        /\ raised' = [raised EXCEPT ![x] = "EOFError"]
                        /\ UNCHANGED <<closed, hooks, table, answered>>
              [] f.k = "REPLY" ->
                   /\ wire' = rest
                   /\ req' = IF req[f.r].st = "pending" /\ ~closed[x] THEN [req EXCEPT ![f.r].st = "value"] ELSE req
                   /\ blocked' = IF blocked[x] = f.r THEN [blocked EXCEPT ![x] = 0] ELSE blocked
                   /\ raised' = [raised EXCEPT ![x] = "none"]
                   /\ UNCHANGED <<closed, hooks, table, sopen, answered>>
              [] f.k = "CLOSE" ->
                   \* _handle_close -> _cleanup; the reply cannot be sent any more: EOFError escapes serve()
                   /\ wire' = rest
                   /\ Cleaned(x)
                   /\ FailBlocked(x)
                   /\ raised' = [raised EXCEPT ![x] = "EOFError"]
                   /\ UNCHANGED answered
       ELSE /\ EofVisible(x)
            \* EOF / error while receiving: serve() closes the connection and re-raises
            /\ IF closed[x] THEN UNCHANGED <<closed, hooks, table, sopen>> ELSE Cleaned(x)
            /\ FailBlocked(x)
            /\ raised' = [raised EXCEPT ![x] = "EOFError"]
            /\ UNCHANGED <<wire, answered>>
    /\ UNCHANGED <<rdok, wrok>>

\* waiting for a request whose callback was dropped by a close ends with EOFError
WaitOrphan(x) == /\ blocked[x] = 0 /\ closed[x]
                 /\ \E r \in 1..Len(req) : req[r].from = x /\ req[r].st = "pending"
                 /\ req' = [r \in 1..Len(req) |-> IF req[r].from = x /\ req[r].st = "pending"
                                                   THEN [req[r] EXCEPT !.st = "eof"] ELSE req[r]]
                 /\ raised' = [raised EXCEPT ![x] = "EOFError"]
                 /\ UNCHANGED <<closed, hooks, table, sopen, rdok, wrok, wire, blocked, answered>>

\* faults: from now on reads (resp. writes) on x's socket fail
RecvFault(x) == /\ rdok[x] /\ rdok' = [rdok EXCEPT ![x] = FALSE]
                /\ UNCHANGED <<closed, hooks, table, sopen, wrok, wire, req, blocked, answered, raised>>
SendFault(x) == /\ wrok[x] /\ wrok' = [wrok EXCEPT ![x] = FALSE]
                /\ UNCHANGED <<closed, hooks, table, sopen, rdok, wire, req, blocked, answered, raised>>

Next == \/ \E x \in S, m \in {"sync", "async"} : Issue(x, m)
        \/ \E x \in S : Close(x) \/ Serve(x) \/ WaitOrphan(x) \/ RecvFault(x) \/ SendFault(x)
Spec == Init /\ [][Next]_vars

---------------------------------------------------------------------------------------
HookAtMostOnce == \A x \in S : hooks[x] <= 1
ClosedIsClean == \A x \in S : closed[x] => hooks[x] = 1 /\ table[x] = "empty" /\ ~sopen[x]
HookMeansClosed == \A x \in S : hooks[x] = 1 => closed[x]
NoInventedValue == \A r \in 1..Len(req) : req[r].st = "value" => r \in answered
BlockedIsPending == \A x \in S : blocked[x] # 0 => req[blocked[x]].st = "pending" /\ req[blocked[x]].from = x
\* nobody hangs: a side blocked in a synchronous request can always make progress once the connection is ending
NoHang == \A x \in S : blocked[x] # 0 /\ (closed[Peer(x)] \/ ~rdok[x] \/ ~sopen[x]) => ENABLED Serve(x)
\* once one side is closed the other one notices as soon as it serves with nothing left to read
PeerNotices == \A x \in S : closed[Peer(x)] /\ ~closed[x] /\ wire[x] = <<>> => EofVisible(x)
=======================================================================================
