----------------------------------- MODULE RpycServer -----------------------------------
(* C16 / C17: servers (threaded, thread-pool, one-shot, forking) under well-behaved and misbehaving       *)
(* clients, and under close().  Code: Server.accept / _authenticate_and_serve_client / _serve_client /   *)
(* close, OneShotServer, ThreadedServer, ThreadPoolServer, ForkingServer (rpyc/utils/server.py).          *)
(*                                                                                                       *)
(* The model is at the level of what clients and an operator can observe:                                *)
(*   cst[c]       client c: "idle" (not yet connected) | "up" (connected and served) | "gone"             *)
(*   calls[c]     number of calls c made so far on its connection (= what its per-connection counter says)*)
(*   tracked      clients for which the server holds a socket / table entry                              *)
(*   hooks[c]     how often the disconnect hook of c's service instance ran                              *)
(*   eof[c]       c has observed end-of-stream                                                           *)
(*   listener     "open" | "closed"        accepted   number of connections accepted so far              *)
EXTENDS Naturals, Sequences, FiniteSets, TLC

CONSTANTS Good, Bad,       \* well-behaved and misbehaving clients
          OneShot,         \* TRUE for the one-shot server
          BadKinds, MaxCalls
Clients == Good \cup Bad

VARIABLES cst, calls, tracked, hooks, eof, listener, accepted, closes
vars == <<cst, calls, tracked, hooks, eof, listener, accepted, closes>>

Init == /\ cst = [c \in Clients |-> "idle"] /\ calls = [c \in Clients |-> 0]
        /\ tracked = {} /\ hooks = [c \in Clients |-> 0] /\ eof = [c \in Clients |-> FALSE]
        /\ listener = "open" /\ accepted = 0 /\ closes = 0

\* the server stops serving c: the socket is closed and forgotten, the service instance is told
Drop(c) == /\ tracked' = tracked \ {c}
           /\ hooks' = [hooks EXCEPT ![c] = @ + 1]
           /\ eof' = [eof EXCEPT ![c] = TRUE]

\* a one-shot server shuts itself down when its only client has gone
AfterLeave == IF OneShot THEN "closed" ELSE listener

Connect(c) == /\ c \in Good /\ cst[c] = "idle" /\ listener = "open"
              /\ ~OneShot \/ accepted = 0
              /\ cst' = [cst EXCEPT ![c] = "up"]
              /\ tracked' = tracked \cup {c}
              /\ accepted' = accepted + 1
              /\ UNCHANGED <<calls, hooks, eof, listener, closes>>

Call(c) == /\ c \in Good /\ cst[c] = "up" /\ ~eof[c] /\ calls[c] < MaxCalls
           /\ calls' = [calls EXCEPT ![c] = @ + 1]        \* the answer is c's own count: nobody else's calls show
           /\ UNCHANGED <<cst, tracked, hooks, eof, listener, accepted, closes>>

\* c leaves, politely (close request) or abruptly (socket reset); either way the server forgets it
Leave(c, how) == /\ c \in Good /\ cst[c] = "up"
                 /\ cst' = [cst EXCEPT ![c] = "gone"]
                 /\ IF eof[c] THEN UNCHANGED <<tracked, hooks, eof>> ELSE Drop(c)
                 /\ listener' = IF eof[c] THEN listener ELSE AfterLeave
                 /\ UNCHANGED <<calls, accepted, closes>>

\* a misbehaving client connects, misbehaves in some way and is gone; whatever it did, nothing of it remains and
\* nobody else is affected (if a service instance was created for it, its hook ran once)
Misbehave(c, k) == /\ c \in Bad /\ cst[c] = "idle" /\ listener = "open"
                   /\ ~OneShot \/ accepted = 0
                   /\ cst' = [cst EXCEPT ![c] = "gone"]
                   /\ accepted' = accepted + 1
                   /\ hooks' = [hooks EXCEPT ![c] = IF k \in {"auth_fail", "connect_only"} THEN @ ELSE 1]
                   /\ eof' = [eof EXCEPT ![c] = TRUE]
                   /\ listener' = AfterLeave
                   /\ UNCHANGED <<calls, tracked, closes>>

\* the operator closes the server: listener closed, every served client is cut off and its service told
ServerClose == /\ closes < 2
               /\ closes' = closes + 1
               /\ listener' = "closed"
               /\ tracked' = {}
               /\ hooks' = [c \in Clients |-> IF c \in tracked THEN hooks[c] + 1 ELSE hooks[c]]
               /\ eof' = [c \in Clients |-> eof[c] \/ c \in tracked]
               /\ UNCHANGED <<cst, calls, accepted>>

Next == \/ \E c \in Clients : Connect(c) \/ Call(c)
        \/ \E c \in Clients, h \in {"graceful", "abrupt"} : Leave(c, h)
        \/ \E c \in Clients, k \in BadKinds : Misbehave(c, k)
        \/ ServerClose
        \/ UNCHANGED vars
Spec == Init /\ [][Next]_vars

\* C17
HookAtMostOnce == \A c \in Clients : hooks[c] <= 1
NothingLeftBehind == \A c \in Clients : cst[c] = "gone" => c \notin tracked
ClosedMeansAllCut == listener = "closed" /\ closes > 0 => tracked = {} /\ \A c \in Clients : cst[c] = "up" => eof[c] /\ hooks[c] = 1
OneShotServesOne == OneShot => accepted <= 1
\* C16
TrackedAreUp == \A c \in tracked : cst[c] = "up"
GoodUnaffected == \A c \in Good : cst[c] = "up" /\ ~eof[c] => c \in tracked
=========================================================================================
