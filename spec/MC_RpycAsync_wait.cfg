SPECIFICATION Spec
CONSTANTS
  T = 3
  Timeouts <- WaitTimeouts
  MaxOps = 2
  OpsAllowed <- WaitOps
  Busy = 2
  CallbackKinds <- MCKinds
INVARIANT CallbacksOnce
INVARIANT WaitTiming
PROPERTY Final
PROPERTY ExpiredIsFinal
