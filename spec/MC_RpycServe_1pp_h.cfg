SPECIFICATION Spec
CONSTANTS
  Clients <- MC1Clients
  Reqs <- MC1Reqs
  Bg = "none"
  Pool <- MCPool2
  Handoff = TRUE
INVARIANT RecvMutex
INVARIANT CondMutex
INVARIANT DispatchedOnce
INVARIANT ReplyMatches
INVARIANT Completed
INVARIANT NoLostWakeup
INVARIANT NoHang
INVARIANT WillBeWoken
INVARIANT NoStall
PROPERTY Termination
