----------------------------------- MODULE RpycFiles -----------------------------------
(* C20: uploading and downloading files reproduces them byte for byte.                                   *)
(* Part 1: the chunked copy loop of upload_file / download_file as a state machine (read at most `chunk`  *)
(* bytes; an empty read ends the loop; otherwise write what was read).                                   *)
(* Part 2: the directory walk with a name filter as a function on abstract trees, exported as a table.   *)
(* Code: upload / upload_file / upload_dir / download / download_file / download_dir                     *)
(* (rpyc/utils/classic.py).                                                                              *)
EXTENDS Naturals, Sequences, FiniteSets, TLC, Json, IOUtils, SequencesExt

\* ---------------------------------------------------------------- the copy loop
CONSTANTS MaxChunk
VARIABLES size, chunk, pos, written, nreads, lastread, phase,
          dstlen      \* length of the destination file: it may exist before the copy (shorter, of the same size, longer)
cvars == <<size, chunk, pos, written, nreads, lastread, phase, dstlen>>
MinOf(a, b) == IF a < b THEN a ELSE b
CInit == /\ chunk \in 1..MaxChunk /\ size \in 0..(2 * MaxChunk + 1)
         /\ pos = 0 /\ written = 0 /\ nreads = 0 /\ lastread = 0 /\ phase = "open"
         /\ dstlen \in {0, size, size + 1}
\* the destination is opened for writing: whatever it held is gone, whatever its size and age
Open == /\ phase = "open"
        /\ dstlen' = 0
        /\ phase' = "read"
        /\ UNCHANGED <<size, chunk, pos, written, nreads, lastread>>
Read == /\ phase = "read"
        /\ lastread' = MinOf(chunk, size - pos)
        /\ pos' = pos + MinOf(chunk, size - pos)
        /\ nreads' = nreads + 1
        /\ phase' = IF MinOf(chunk, size - pos) = 0 THEN "done" ELSE "write"
        /\ UNCHANGED <<size, chunk, written, dstlen>>
Write == /\ phase = "write"
         /\ written' = written + lastread
         /\ dstlen' = dstlen + lastread
         /\ phase' = "read"
         /\ UNCHANGED <<size, chunk, pos, nreads, lastread>>
CNext == Open \/ Read \/ Write \/ (phase = "done" /\ UNCHANGED cvars)
CSpec == CInit /\ [][CNext]_cvars /\ WF_cvars(CNext)
\* what was written is always exactly the prefix that was consumed; at the end everything, with ceil(size/chunk)+1 reads
PrefixCopied == (phase = "read" => written = pos) /\ (phase = "write" => written + lastread = pos) /\ pos <= size
Complete == phase = "done" => written = size /\ dstlen = size /\ nreads = (size + chunk - 1) \div chunk + 1
Terminates == <>(phase = "done")

\* ---------------------------------------------------------------- the walk
Names == {"a", "b.txt", "skip_c"}
SizeClasses == {"0", "1", "c-1", "c", "c+1", "2c", "2c+1"}
Filters == {"none", "no_skip", "only_txt"}
Accept(f, name) == CASE f = "none" -> TRUE [] f = "no_skip" -> name # "skip_c" [] f = "only_txt" -> name = "b.txt"
FileEnts == [name : Names, kind : {"f"}, sz : SizeClasses]
\* directories one level deep: at most two entries, distinct names
Dir1 == {{}} \cup {{e} : e \in FileEnts} \cup {{e1, e2} : e1 \in FileEnts, e2 \in {x \in FileEnts : x.sz \in {"0", "c+1"}}}
Dir1Ok == {d \in Dir1 : \A e1, e2 \in d : e1 # e2 => e1.name # e2.name}
SubDirs == {[name |-> n, kind |-> "d", ents |-> d] : n \in Names, d \in {x \in Dir1Ok : Cardinality(x) <= 1} \cup {{[name |-> "a", kind |-> "f", sz |-> "c"], [name |-> "b.txt", kind |-> "f", sz |-> "1"]}}}
RootEnts == {e \in FileEnts : e.sz \in {"0", "c", "2c+1"}} \cup SubDirs
Roots == {{}} \cup {{e} : e \in RootEnts} \cup {{e1, e2} : e1 \in RootEnts, e2 \in {x \in RootEnts : x.kind = "d" \/ x.sz = "c"}}
RootsOk == {d \in Roots : \A e1, e2 \in d : e1 # e2 => e1.name # e2.name}

\* the filter is applied to the base name at every level, directories included
RECURSIVE Filtered(_, _)
Filtered(ents, f) == {IF e.kind = "f" THEN e ELSE [e EXCEPT !.ents = Filtered(e.ents, f)] : e \in {x \in ents : Accept(f, x.name)}}

RECURSIVE ToSeq(_)
ToSeq(ents) == SetToSeq({IF e.kind = "f" THEN [name |-> e.name, kind |-> "f", sz |-> e.sz]
                         ELSE [name |-> e.name, kind |-> "d", ents |-> ToSeq(e.ents)] : e \in ents})
Export == IF "OUT_FILE" \in DOMAIN IOEnv
          THEN ndJsonSerialize(IOEnv.OUT_FILE, SetToSeq({[src |-> ToSeq(r), filter |-> f, dst |-> ToSeq(Filtered(r, f))]
                                                          : r \in RootsOk, f \in Filters}))
          ELSE TRUE
ASSUME Export
ASSUME \A r \in RootsOk : Filtered(r, "none") = r
ASSUME \A r \in RootsOk, f \in Filters : \A e \in Filtered(r, f) : Accept(f, e.name)
=========================================================================================
