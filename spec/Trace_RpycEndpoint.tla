-------------------------------- MODULE Trace_RpycEndpoint --------------------------------
(* recordings of the messages of one Channel (harness/plugins/record_frames.py, made while the repository's own tests run)  *)
(* validated against RpycEndpoint.  A trace is a sequence of [d: "S"|"R", k: "req"|"reply"|"exc", seq, h].                 *)
EXTENDS RpycEndpoint, Sequences, Json, IOUtils, TLCExt
CONSTANT NTraces
VARIABLES tid, l
Traces == JsonDeserialize(IOEnv.TRACE_FILE)
TraceInit == EInit /\ tid \in 1..NTraces /\ l = 1
TraceNext == /\ l <= Len(Traces[tid])
             /\ LET e == Traces[tid][l] IN
                  CASE e.d = "S" /\ e.k = "req" -> SendReq(e.seq)
                    [] e.d = "R" /\ e.k \in {"reply", "exc"} -> RecvResp(e.seq)
                    [] e.d = "R" /\ e.k = "req" -> RecvReq(e.seq)
                    [] e.d = "S" /\ e.k \in {"reply", "exc"} -> SendResp(e.seq)
                    [] OTHER -> FALSE
             /\ l' = l + 1 /\ UNCHANGED tid
TraceSpec == TraceInit /\ [][TraceNext]_<<evars, tid, l>>
Progress == TLCSet(tid, IF TLCGet(tid) < l THEN l ELSE TLCGet(tid))
InitRegs == \A i \in 1..NTraces : TLCSet(i, 0)
ASSUME InitRegs
Report == \A i \in 1..NTraces : PrintT(<<"TRACE", i, TLCGet(i) - 1, Len(Traces[i])>>)
===========================================================================================
