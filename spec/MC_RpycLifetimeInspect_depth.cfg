SPECIFICATION Spec
CONSTANTS
  K = {"k1", "k2", "k3"}
  MaxBox = 1
  MaxQ = 3
INVARIANT NestingAtMostTwo
