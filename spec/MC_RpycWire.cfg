SPECIFICATION Spec
