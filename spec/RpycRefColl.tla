------------------------------------ MODULE RpycRefColl ------------------------------------
(* C10, the owner's table under threads: RefCountingColl.add (a sending thread boxes an object) and decref (a serving        *)
(* thread processes a release notice) on the same key, each a critical section of the table's lock.                         *)
(* Code: rpyc/lib/colls.py RefCountingColl.add / decref.                                                                     *)
(*   slot: -1 = no entry, n >= 0 = the stored count (first add stores 0)                                                     *)
(* Atomic = TRUE is the code (lookup and update under one lock); Atomic = FALSE models a lookup outside the lock, kept        *)
(* because its counterexample is the schedule the conformance run forces on the real class at line granularity.             *)
EXTENDS Integers, TLC
CONSTANTS Atomic
VARIABLES slot, apc, aseen, dpc, added, released
vars == <<slot, apc, aseen, dpc, added, released>>
Init == slot = 0 /\ apc = "start" /\ aseen = 0 /\ dpc = "start" /\ added = FALSE /\ released = FALSE
\* add(): look the slot up, then store the incremented / fresh slot
AddLookup == /\ apc = "start" /\ aseen' = slot
             /\ apc' = IF Atomic THEN "atomic" ELSE "looked"
             /\ UNCHANGED <<slot, dpc, added, released>>
AddStore == /\ apc \in {"looked", "atomic"}
            /\ (apc = "atomic" => dpc # "mid")                         \* one lock: never inside the other critical section
            /\ slot' = IF aseen = -1 THEN 0
                       ELSE IF Atomic \/ slot # -1 THEN aseen + 1
                       ELSE -1                                          \* the slot object that was looked up is no longer in the table
            /\ apc' = "done" /\ added' = TRUE
            /\ UNCHANGED <<aseen, dpc, released>>
\* decref(1): delete when the count is 0, else decrement - one critical section
Decref == /\ dpc = "start" /\ apc # "atomic"
          /\ slot' = IF slot < 1 THEN -1 ELSE slot - 1
          /\ dpc' = "done" /\ released' = TRUE
          /\ UNCHANGED <<apc, aseen, added>>
Next == AddLookup \/ AddStore \/ Decref \/ (apc = "done" /\ dpc = "done" /\ UNCHANGED vars)
Spec == Init /\ [][Next]_vars
\* one reference handed out before, one more boxed, one given back: one reference is out, the object must still be held
StillHeld == (added /\ released) => slot = 0
=============================================================================================
