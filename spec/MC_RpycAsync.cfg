SPECIFICATION Spec
CONSTANTS
  T = 3
  Timeouts <- MCTimeouts
  MaxOps = 4
  Busy = 2
INVARIANT CallbacksOnce
INVARIANT WaitTiming
PROPERTY Final
PROPERTY ExpiredIsFinal
