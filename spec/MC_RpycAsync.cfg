SPECIFICATION Spec
CONSTANTS
  T = 3
  Timeouts <- MCTimeouts
  MaxOps = 4
  OpsAllowed <- AllOps
  Busy = 2
  CallbackKinds <- MCKinds
INVARIANT CallbacksOnce
INVARIANT WaitTiming
PROPERTY Final
PROPERTY ExpiredIsFinal
