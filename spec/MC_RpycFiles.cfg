SPECIFICATION CSpec
CONSTANTS
  MaxChunk = 4
INVARIANT PrefixCopied
INVARIANT Complete
PROPERTY Terminates
