--------------------------------- MODULE RpycServe ---------------------------------
(* Several threads issue synchronous requests on ONE Connection and serve it at the same time,     *)
(* optionally next to a BgServingThread; the peer answers the outstanding requests in any order.   *)
(* Code: Connection.serve / _dispatch / _seq_request_callback / _async_request / _send             *)
(* (rpyc/core/protocol.py), AsyncResult.wait / __call__ (rpyc/core/async_.py),                     *)
(* BgServingThread._bg_server (rpyc/utils/helpers.py).                                             *)
(*                                                                                                 *)
(* One action per operation on a shared object, in program order (label <-> operation):            *)
(*   start       thread begins: AsyncResult(), seq, register callback, queue frame, try send-lock  *)
(*   c_write     Channel.send of the popped frame (under the send lock); loops while queue         *)
(*   w_check     AsyncResult.wait: read _is_ready in the loop header                               *)
(*   w_final     AsyncResult.wait: read _is_ready after the loop                                   *)
(*   s_cond_in   serve: `with self._recv_event` (acquire the condition's lock)                     *)
(*   s_trylock   serve: self._recvlock.acquire(False)                                              *)
(*   s_wait      serve: self._recv_event.wait(...)  (enter wait set, release the condition's lock) *)
(*   s_blocked   ... blocked in the condition wait                                                 *)
(*   s_reacq     ... re-acquire the condition's lock after the wait                                *)
(*   s_cond_out2 leave the `with` after the wait; serve returns                                    *)
(*   s_cond_out1 leave the `with` holding the receive lock                                         *)
(*   s_poll      self._channel.poll(timeout)                                                       *)
(*   s_hdr/s_body  Channel.recv: stream.read(5), stream.read(n+1)                                  *)
(*   s_release   self._recvlock.release()                                                          *)
(*   s_ncond_in / s_notify / s_ncond_out   `with self._recv_event: notify_all()`                   *)
(*   s_dispatch  self._dispatch(data): decode, pop the callback registered under the seq           *)
(*   d_expired   AsyncResult.__call__: `if self.expired` (reads _is_ready)                         *)
(*   d_publish   AsyncResult.__call__: self._is_ready = True  (value already stored)               *)
(*   b_sleep     BgServingThread: time.sleep(SLEEP_INTERVAL)                                       *)
(* The code notifies waiters BEFORE it dispatches; the model keeps that order (C14).               *)
EXTENDS Naturals, Sequences, FiniteSets, TLC

CONSTANTS Clients,     \* set of client thread names
          Reqs,        \* Reqs[t] : sequence of request ids thread t issues one after the other
          Bg,          \* name of the background serving thread (BgServingThread: serve(0), sleep), or "none"
          Pool,        \* names of threads that do nothing but serve the connection in a blocking loop - `while True: serve(None)` -
                       \* as the threads of Connection.serve_threaded() do (its docstring warns of exactly the stall of C14)
          Handoff      \* TRUE: the repaired serve() (replies in transit are counted, a waiter re-checks its result before it
                       \* polls, waiters are notified again after the dispatch); FALSE: the pinned serve()

None == "none"
NoPool == {}
Threads == Clients \cup (IF Bg = None THEN {} ELSE {Bg}) \cup Pool
AllReqs == UNION {{Reqs[t][i] : i \in 1..Len(Reqs[t])} : t \in Clients}

VARIABLES pc,          \* pc[t]
          nxt,         \* nxt[t] : index of the next request of client t
          cur,         \* cur[t] : request client t is waiting for (None before the first)
          wr,          \* wr[t]  : frame popped from the send queue, about to be written by t
          sendq, sendlock,
          sent,        \* requests whose frame reached the transport
          replied,     \* requests the peer has answered
          chan,        \* reply frames available to the connection, FIFO
          recvlock, condlock, waiters, notified,
          data,        \* data[t] : frame received by t and not yet dispatched (None if none)
          cb,          \* sequence numbers with a registered callback
          ready,       \* ready[r] : result published
          value,       \* value[r] : which reply was published as the result of r
          dispatched,  \* dispatched[r] : how often the reply frame of r was dispatched
          receivedBy,  \* history: which thread received the reply of r
          stalls,      \* history: set of <<thread, where>> that had to be released by a timeout
          expired,     \* clients whose (30 s) timeout has run out while they were blocked
          transit,     \* replies received from the transport and not yet dispatched (len(self._replies_in_transit))
          woke         \* history: woke[t] = t has come out of a blocking operation since the result it waits for was published

vars == <<pc, nxt, cur, wr, sendq, sendlock, sent, replied, chan, recvlock, condlock, waiters, notified,
          data, cb, ready, value, dispatched, receivedBy, stalls, expired, woke, transit>>

Init == /\ pc = [t \in Threads |-> "start"]
        /\ nxt = [t \in Clients |-> 1]
        /\ cur = [t \in Clients |-> None]
        /\ wr = [t \in Threads |-> None]
        /\ sendq = <<>> /\ sendlock = None
        /\ sent = {} /\ replied = {} /\ chan = <<>>
        /\ recvlock = None /\ condlock = None /\ waiters = {} /\ notified = {}
        /\ data = [t \in Threads |-> None]
        /\ cb = {}
        /\ ready = [r \in AllReqs |-> FALSE]
        /\ value = [r \in AllReqs |-> None]
        /\ dispatched = [r \in AllReqs |-> 0]
        /\ receivedBy = [r \in AllReqs |-> None]
        /\ stalls = {}
        /\ expired = {}
        /\ woke = [t \in Clients |-> FALSE]
        /\ transit = 0

IsBg(t) == t = Bg
IsPool(t) == t \in Pool
ServesOnly(t) == IsBg(t) \/ IsPool(t)

\* ------------------------------------------------------------------ issuing a request
\* the thread begins its next request (or finishes).  No shared-object operation separates
\* AsyncResult(), _get_seq_id, the callback registration, the queue append and the try-lock, so this is
\* part of the step that precedes it.
Begin(t) ==
    IF nxt[t] > Len(Reqs[t])
    THEN /\ pc' = [pc EXCEPT ![t] = "done"]
         /\ UNCHANGED <<nxt, cur, wr, sendq, sendlock, cb>>
    ELSE LET r == Reqs[t][nxt[t]] IN
         /\ nxt' = [nxt EXCEPT ![t] = @ + 1]
         /\ cur' = [cur EXCEPT ![t] = r]
         /\ cb' = cb \cup {r}
         /\ IF sendlock = None
            THEN \* lock taken, own frame is at the tail; pop the head and go write it
                 /\ sendlock' = t
                 /\ wr' = [wr EXCEPT ![t] = Head(Append(sendq, r))]
                 /\ sendq' = Tail(Append(sendq, r))
                 /\ pc' = [pc EXCEPT ![t] = "c_write"]
            ELSE \* somebody else is sending and will pick the frame up
                 /\ sendq' = Append(sendq, r)
                 /\ pc' = [pc EXCEPT ![t] = "w_check"]
                 /\ UNCHANGED <<sendlock, wr>>

Start(t) == /\ pc[t] = "start"
            /\ IF ServesOnly(t)
               THEN pc' = [pc EXCEPT ![t] = "s_cond_in"] /\ UNCHANGED <<nxt, cur, wr, sendq, sendlock, cb>>
               ELSE Begin(t)
            /\ UNCHANGED <<sent, replied, chan, recvlock, condlock, waiters, notified, data, ready, value,
                           dispatched, receivedBy, stalls, expired>>
            /\ woke' = woke /\ UNCHANGED transit

CWrite(t) == /\ pc[t] = "c_write"
             /\ sent' = sent \cup {wr[t]}
             /\ IF sendq # <<>>
                THEN /\ wr' = [wr EXCEPT ![t] = Head(sendq)]
                     /\ sendq' = Tail(sendq)
                     /\ UNCHANGED <<pc, sendlock>>
                ELSE /\ wr' = [wr EXCEPT ![t] = None]
                     /\ sendlock' = None
                     /\ pc' = [pc EXCEPT ![t] = "w_check"]
                     /\ UNCHANGED sendq
             /\ UNCHANGED <<nxt, cur, replied, chan, recvlock, condlock, waiters, notified, data, cb, ready, value,
                            dispatched, receivedBy, stalls, expired, woke, transit>>

\* ------------------------------------------------------------------ waiting
WCheck(t) == /\ pc[t] = "w_check"
             /\ pc' = [pc EXCEPT ![t] = IF ready[cur[t]] THEN "w_final" ELSE "s_cond_in"]
             /\ UNCHANGED <<nxt, cur, wr, sendq, sendlock, sent, replied, chan, recvlock, condlock, waiters, notified,
                            data, cb, ready, value, dispatched, receivedBy, stalls, expired, woke, transit>>

WFinal(t) == /\ pc[t] = "w_final"
             /\ Begin(t)
             /\ UNCHANGED <<sent, replied, chan, recvlock, condlock, waiters, notified, data, ready, value,
                            dispatched, receivedBy, stalls, expired>>
             /\ woke' = [woke EXCEPT ![t] = FALSE] /\ UNCHANGED transit

\* serve() has returned to its caller
Return(t) == IF IsBg(t) THEN "b_sleep" ELSE IF IsPool(t) THEN "s_cond_in" ELSE "w_check"
AfterDispatch(t) == IF Handoff THEN "d_ncond_in" ELSE Return(t)

\* ------------------------------------------------------------------ serve
U1x == <<nxt, cur, wr, sendq, sendlock, sent, replied, cb, ready, value, dispatched>>
U1 == <<U1x, transit>>

CondIn(t, from, to) == /\ pc[t] = from
                       /\ condlock = None
                       /\ condlock' = t
                       /\ pc' = [pc EXCEPT ![t] = to]
                       /\ UNCHANGED <<U1, chan, recvlock, waiters, notified, data, receivedBy, stalls, expired, woke>>

CondOut(t, from, to) == /\ pc[t] = from
                        /\ condlock' = None
                        /\ pc' = [pc EXCEPT ![t] = to]
                        /\ UNCHANGED <<U1, chan, recvlock, waiters, notified, data, receivedBy, stalls, expired, woke>>

SCondIn(t) == CondIn(t, "s_cond_in", IF Handoff /\ ~ServesOnly(t) THEN "s_precheck" ELSE "s_trylock")
\* repaired serve(until=...): under the condition's lock, first look whether the result is there already (the check the caller
\* made before calling serve() may be stale; a publication after THIS check is followed by a notification we will get)
SPrecheck(t) == /\ pc[t] = "s_precheck"
                /\ pc' = [pc EXCEPT ![t] = IF ready[cur[t]] THEN "s_cond_out2" ELSE "s_trylock"]
                /\ UNCHANGED <<U1, chan, recvlock, condlock, waiters, notified, data, receivedBy, stalls, expired, woke>>

\* repaired serve(): holding the receive lock (so nobody can be between taking a reply off the transport and counting it),
\* `if replies are in transit: release the lock again and wait for the notification that follows their dispatch`
STryLock(t) == /\ pc[t] = "s_trylock"
               /\ IF recvlock = None
                  THEN recvlock' = t /\ pc' = [pc EXCEPT ![t] = IF Handoff /\ transit > 0 THEN "s_giveup" ELSE "s_cond_out1"]
                  ELSE UNCHANGED recvlock /\ pc' = [pc EXCEPT ![t] = "s_wait"]
               /\ UNCHANGED <<U1, chan, condlock, waiters, notified, data, receivedBy, stalls, expired, woke>>

SGiveUp(t) == /\ pc[t] = "s_giveup"
               /\ recvlock' = None
               /\ pc' = [pc EXCEPT ![t] = "s_wait"]
               /\ UNCHANGED <<U1, chan, condlock, waiters, notified, data, receivedBy, stalls, expired, woke>>

SWait(t) == /\ pc[t] = "s_wait"
            /\ waiters' = waiters \cup {t}
            /\ notified' = notified \ {t}
            /\ condlock' = None
            /\ pc' = [pc EXCEPT ![t] = "s_blocked"]
            /\ UNCHANGED <<U1, chan, recvlock, data, receivedBy, stalls, expired, woke>>

\* woken by notify_all; the background thread waits with timeout 0 and leaves at once in any case
SBlocked(t) == /\ pc[t] = "s_blocked"
               /\ t \in notified \/ IsBg(t)
               /\ waiters' = waiters \ {t}
               /\ notified' = notified \ {t}
               /\ pc' = [pc EXCEPT ![t] = "s_reacq"]
               /\ UNCHANGED <<U1, chan, recvlock, condlock, data, receivedBy, stalls, expired>>
               /\ woke' = IF t \in Clients /\ cur[t] # None /\ ready[cur[t]] THEN [woke EXCEPT ![t] = TRUE] ELSE woke

SReacq(t) == CondIn(t, "s_reacq", "s_cond_out2")
SCondOut2(t) == CondOut(t, "s_cond_out2", Return(t))
SCondOut1(t) == CondOut(t, "s_cond_out1", IF Handoff /\ ~ServesOnly(t) THEN "s_recheck" ELSE "s_poll")
\* repaired serve(), called from AsyncResult.wait with until = "my result is there": holding the receive lock, look again
\* before going to sleep on the transport (whoever published it did so before the count of replies in transit went down)
SRecheck(t) == /\ pc[t] = "s_recheck"
               /\ pc' = [pc EXCEPT ![t] = IF ready[cur[t]] THEN "s_release" ELSE "s_poll"]
               /\ UNCHANGED <<U1, chan, recvlock, condlock, waiters, notified, data, receivedBy, stalls, expired, woke>>

SPoll(t) == /\ pc[t] = "s_poll"
            /\ \/ /\ chan # <<>>
                  /\ pc' = [pc EXCEPT ![t] = "s_hdr"]
               \/ /\ chan = <<>> /\ IsBg(t)          \* poll(0): nothing there
                  /\ pc' = [pc EXCEPT ![t] = "s_release"]
            /\ UNCHANGED <<U1, chan, recvlock, condlock, waiters, notified, data, receivedBy, stalls, expired>>
            /\ woke' = IF t \in Clients /\ cur[t] # None /\ ready[cur[t]] THEN [woke EXCEPT ![t] = TRUE] ELSE woke

SHdr(t) == /\ pc[t] = "s_hdr"
           /\ pc' = [pc EXCEPT ![t] = "s_body"]
           /\ UNCHANGED <<U1, chan, recvlock, condlock, waiters, notified, data, receivedBy, stalls, expired, woke>>

SBody(t) == /\ pc[t] = "s_body"
            /\ chan # <<>>
            /\ data' = [data EXCEPT ![t] = Head(chan)]
            /\ receivedBy' = [receivedBy EXCEPT ![Head(chan)] = t]
            /\ chan' = Tail(chan)
            /\ pc' = [pc EXCEPT ![t] = "s_release"]
            /\ transit' = IF Handoff THEN transit + 1 ELSE transit
            /\ UNCHANGED <<U1x, recvlock, condlock, waiters, notified, stalls, expired, woke>>

SRelease(t) == /\ pc[t] = "s_release"
               /\ recvlock' = None
               /\ pc' = [pc EXCEPT ![t] = "s_ncond_in"]
               /\ UNCHANGED <<U1, chan, condlock, waiters, notified, data, receivedBy, stalls, expired, woke>>

SNCondIn(t) == CondIn(t, "s_ncond_in", "s_notify")

SNotify(t) == /\ pc[t] = "s_notify"
              /\ notified' = notified \cup waiters
              /\ waiters' = {}
              /\ pc' = [pc EXCEPT ![t] = "s_ncond_out"]
              /\ UNCHANGED <<U1, chan, recvlock, condlock, data, receivedBy, stalls, expired, woke>>

SNCondOut(t) == CondOut(t, "s_ncond_out", IF data[t] = None THEN Return(t) ELSE "s_dispatch")

U2x == <<nxt, cur, wr, sendq, sendlock, sent, replied, chan, recvlock, condlock, waiters, notified, receivedBy, stalls, expired, woke>>
U2 == <<U2x, transit>>

SDispatch(t) == /\ pc[t] = "s_dispatch"
                /\ IF data[t] \in cb
                   THEN /\ cb' = cb \ {data[t]}
                        /\ pc' = [pc EXCEPT ![t] = "d_expired"]
                        /\ UNCHANGED data
                   ELSE /\ pc' = [pc EXCEPT ![t] = AfterDispatch(t)]      \* no callback: logged and dropped
                        /\ data' = [data EXCEPT ![t] = None]
                        /\ UNCHANGED cb
                /\ dispatched' = [dispatched EXCEPT ![data[t]] = @ + 1]
                /\ UNCHANGED <<U2, ready, value>>

DExpired(t) == /\ pc[t] = "d_expired"
               /\ pc' = [pc EXCEPT ![t] = "d_publish"]
               /\ UNCHANGED <<U2, data, cb, ready, value, dispatched>>

DPublish(t) == /\ pc[t] = "d_publish"
               /\ ready' = [ready EXCEPT ![data[t]] = TRUE]
               /\ value' = [value EXCEPT ![data[t]] = data[t]]
               /\ data' = [data EXCEPT ![t] = None]
               /\ pc' = [pc EXCEPT ![t] = AfterDispatch(t)]
               /\ UNCHANGED <<U2, cb, dispatched>>

\* repaired code, Connection._reply_published(): called by AsyncResult.__call__ right after `_is_ready = True` (before the
\* result's callbacks run) and by serve() for a reply nobody took: `with self._recv_event:` the reply is taken off the
\* list of replies in transit and the waiters are notified once more
DNCondIn(t) == /\ pc[t] = "d_ncond_in"
               /\ condlock = None
               /\ condlock' = t
               /\ transit' = transit - 1          \* `self._replies_in_transit.remove(...)`, first thing under the condition's lock
               /\ pc' = [pc EXCEPT ![t] = "d_notify"]
               /\ UNCHANGED <<U1x, chan, recvlock, waiters, notified, data, receivedBy, stalls, expired, woke>>
DNotify(t) == /\ pc[t] = "d_notify"
              /\ notified' = notified \cup waiters
              /\ waiters' = {}
              /\ pc' = [pc EXCEPT ![t] = "d_ncond_out"]
              /\ UNCHANGED <<U1, chan, recvlock, condlock, data, receivedBy, stalls, expired, woke>>
DNCondOut(t) == CondOut(t, "d_ncond_out", Return(t))

BSleep(t) == /\ pc[t] = "b_sleep"
             /\ pc' = [pc EXCEPT ![t] = "s_cond_in"]
             /\ UNCHANGED <<U2, data, cb, ready, value, dispatched>>

Step(t) == \/ Start(t) \/ CWrite(t) \/ WCheck(t) \/ WFinal(t)
           \/ SCondIn(t) \/ STryLock(t) \/ SWait(t) \/ SBlocked(t) \/ SReacq(t) \/ SCondOut2(t) \/ SCondOut1(t)
           \/ SPoll(t) \/ SHdr(t) \/ SBody(t) \/ SRelease(t) \/ SNCondIn(t) \/ SNotify(t) \/ SNCondOut(t)
           \/ SDispatch(t) \/ DExpired(t) \/ DPublish(t) \/ BSleep(t)
           \/ SPrecheck(t) \/ SGiveUp(t) \/ SRecheck(t) \/ DNCondIn(t) \/ DNotify(t) \/ DNCondOut(t)

\* ------------------------------------------------------------------ environment
PeerReply(r) == /\ r \in sent \ replied
                /\ replied' = replied \cup {r}
                /\ chan' = Append(chan, r)
                /\ UNCHANGED <<pc, nxt, cur, wr, sendq, sendlock, sent, recvlock, condlock, waiters, notified, data, cb,
                               ready, value, dispatched, receivedBy, stalls, expired, woke, transit>>

\* a thread cannot take a step
Blocked(t) == \/ pc[t] = "done"
              \/ pc[t] \in {"s_cond_in", "s_reacq", "s_ncond_in", "d_ncond_in"} /\ condlock # None
              \/ pc[t] = "s_blocked" /\ t \notin notified /\ ~IsBg(t) /\ t \notin expired
              \/ pc[t] = "s_poll" /\ chan = <<>> /\ ~IsBg(t) /\ t \notin expired
\* a pool thread with nothing to do: asleep on the transport or on the condition (it has no time-out)
PoolIdle == \A p \in Pool : Blocked(p)

\* nothing happens any more unless the peer sends something or a timeout runs out
BgIdle == IF Bg = None THEN TRUE ELSE pc[Bg] = "b_sleep"
Quiescent == /\ \A t \in Clients : Blocked(t)
             /\ BgIdle /\ PoolIdle
NothingToCome == chan = <<>> /\ sent = replied /\ sendq = <<>>

\* Deliberate deviation of the code, named: waiters that are blocked although nothing is outstanding any more are
\* only released by their (30 s default) timeout.  Expire: the timers of all blocked waiters run out (this is the only
\* way time matters here); TimeoutWake: such a waiter leaves its poll() / condition wait empty-handed.
Expire == /\ Quiescent /\ NothingToCome
          /\ \E t \in Clients : pc[t] # "done"
          /\ expired = {}
        /\ woke = [t \in Clients |-> FALSE]
          /\ expired' = {t \in Clients : pc[t] \in {"s_poll", "s_blocked"}}
          /\ stalls' = stalls \cup {<<t, pc[t]>> : t \in {u \in Clients : pc[u] \in {"s_poll", "s_blocked"}}}
          /\ UNCHANGED <<pc, nxt, cur, wr, sendq, sendlock, sent, replied, chan, recvlock, condlock, waiters, notified,
                         data, cb, ready, value, dispatched, receivedBy, woke, transit>>

TimeoutWake(t) == /\ t \in expired
                  /\ \/ /\ pc[t] = "s_poll" /\ chan = <<>>
                        /\ pc' = [pc EXCEPT ![t] = "s_release"]
                        /\ UNCHANGED <<waiters, notified>>
                     \/ /\ pc[t] = "s_blocked" /\ t \notin notified
                        /\ pc' = [pc EXCEPT ![t] = "s_reacq"]
                        /\ waiters' = waiters \ {t}
                        /\ UNCHANGED notified
                  /\ expired' = expired \ {t}
                  /\ woke' = IF ready[cur[t]] THEN [woke EXCEPT ![t] = TRUE] ELSE woke
                  /\ UNCHANGED <<nxt, cur, wr, sendq, sendlock, sent, replied, chan, recvlock, condlock, data, cb,
                                 ready, value, dispatched, receivedBy, stalls, transit>>

AllDone == \A t \in Clients : pc[t] = "done"
Finished == AllDone /\ BgIdle /\ PoolIdle /\ UNCHANGED vars

Next == \/ \E t \in Threads : Step(t)
        \/ \E r \in AllReqs : PeerReply(r)
        \/ Expire
        \/ \E t \in Clients : TimeoutWake(t)
        \/ Finished

\* strong fairness: acquiring the condition's lock is only intermittently possible while another thread loops
Fair == /\ \A t \in Threads : SF_vars(Step(t))
        /\ \A r \in AllReqs : WF_vars(PeerReply(r))
        /\ SF_vars(Expire)
        /\ \A t \in Clients : SF_vars(TimeoutWake(t))
Spec == Init /\ [][Next]_vars /\ Fair

-----------------------------------------------------------------------------------
(* C13 *)
Holding(t) == pc[t] \in {"s_cond_out1", "s_giveup", "s_recheck", "s_poll", "s_hdr", "s_body", "s_release"}
\* only the holder of the receive lock reads from the transport
RecvMutex == /\ \A t \in Threads : Holding(t) => recvlock = t
             /\ Cardinality({t \in Threads : Holding(t)}) <= 1
CondMutex == \A t \in Threads : pc[t] \in {"s_trylock", "s_wait", "s_cond_out1", "s_cond_out2", "s_notify", "s_ncond_out", "s_precheck", "s_giveup", "d_notify",
                                            "d_ncond_out"} => condlock = t
\* every reply frame is dispatched at most once; a published result is the reply to that very request
DispatchedOnce == \A r \in AllReqs : dispatched[r] <= 1
ReplyMatches == \A r \in AllReqs : ready[r] => value[r] = r /\ r \in replied
\* a thread that finished got all its replies
Completed == \A t \in Clients : pc[t] = "done" => \A i \in 1..Len(Reqs[t]) : ready[Reqs[t][i]] /\ dispatched[Reqs[t][i]] = 1
\* lost wake-up: a frame is available but every thread sleeps and nobody will look at it
NoLostWakeup == ~(Quiescent /\ chan # <<>> /\ (Bg = None \/ recvlock # None))
\* a thread sleeping in the condition wait will be notified: the receive lock is held (its holder notifies after
\* releasing it) or a notifier is on its way
WillBeWoken == \A t \in Clients : pc[t] = "s_blocked" /\ t \notin notified =>
                   \/ recvlock # None
                   \/ \E u \in Threads : pc[u] \in {"s_ncond_in", "s_notify", "d_ncond_in", "d_notify"}
                   \/ transit > 0                                 \* whoever dispatches that reply notifies afterwards
Termination == <>AllDone

(* C14 *)
Waiting(t) == pc[t] \notin {"done", "start"}
Stalled(t) == /\ t \in Clients /\ Waiting(t) /\ cur[t] # None
              /\ Quiescent              \* no thread can take a step: only further traffic or a timeout releases t
              /\ ready[cur[t]]
\* the property as stated: no waiter is left sleeping once its reply has been processed
NoStall == \A t \in Clients : ~Stalled(t)
\* the one way the pinned code is known to violate it (hand-off): the reply was received by ANOTHER thread, and the
\* waiter has not come out of a blocking operation since the result was published - it did its readiness check before
\* the publication (notify_all precedes _dispatch) and went on into poll() or the condition wait
KnownHandoff(t) == /\ Stalled(t)
                   /\ receivedBy[cur[t]] # t
                   /\ ~woke[t]
                   /\ pc[t] = "s_blocked" => recvlock \in Threads \ {t}    \* behind a lock holder, who will notify
OnlyKnownStalls == \A t \in Clients : Stalled(t) => KnownHandoff(t)
\* a request whose reply is not processed yet never needs a timeout (that would be a lost reply / lost wake-up)
NoHang == ~(Quiescent /\ NothingToCome /\ \E t \in Clients : Waiting(t) /\ cur[t] # None /\ ~ready[cur[t]])
===================================================================================
