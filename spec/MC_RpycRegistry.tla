------------------------------- MODULE MC_RpycRegistry -------------------------------
EXTENDS RpycRegistry
MCAddrs == {<<"h1", 1>>, <<"h1", 2>>, <<"h2", 1>>}
MCNames == {"FOO", "BAR"}
MCKinds == {"wrong_magic", "unknown_cmd", "numeric_cmd", "none_cmd", "bytes_cmd", "args_not_tuple", "wrong_argc", "wrong_types",
            "garbage", "not_triple", "empty", "query_nontext", "tcp_silent"}
======================================================================================
