---------------------------------- MODULE RpycVinegar ----------------------------------
(* C09: remote exceptions arrive as the same class with the same data, and safely.                       *)
(* Decision table for the exception serializer: what the receiver must end up raising for an exception   *)
(* of a given class category, under the sender's two disclosure switches and the receiver's two          *)
(* class-resolution switches.  Written from the property statement and the documented meaning of the     *)
(* configuration parameters.  Code: vinegar.dump / vinegar.load (rpyc/core/vinegar.py),                   *)
(* Connection._box_exc / _unbox_exc (rpyc/core/protocol.py).                                              *)
EXTENDS Naturals, Sequences, FiniteSets, TLC, Json, IOUtils, SequencesExt

ClassCats == {"builtin_exc",        \* built-in class deriving from Exception
              "builtin_base",       \* built-in class deriving from BaseException only (not routed locally)
              "stopiter",           \* StopIteration (travels as a one-integer fast path)
              "custom_imported",    \* not built in; its module is imported at the receiver
              "custom_unimported",  \* not built in; its module is importable but not imported at the receiver
              "unknown_mod",        \* record names a module that does not exist at the receiver
              "builtin_nonexc",     \* record names a built-in that is not an exception class (int, open, ...)
              "imported_nonexc"}    \* record names an attribute of an imported module that is not an exception class
ArgShapes == {"empty", "plain", "mixed", "nonplain"}       \* items: none / only plain values / some not plain / none plain
AttrShapes == {"none", "plain", "nonplain", "private"}
SenderCfgs == [tb : BOOLEAN, ver : BOOLEAN]       \* include_local_traceback, include_local_version
RecvCfgs == [imp : BOOLEAN, inst : BOOLEAN]       \* import_custom_exceptions, instantiate_custom_exceptions
Cases == [cat : ClassCats, args : ArgShapes, attrs : AttrShapes, snd : SenderCfgs, rcv : RecvCfgs]

\* which class the receiver raises: the real class, a generic stand-in named after the original, or StopIteration
Class(c) == CASE c.cat = "stopiter" -> "StopIteration"
              [] c.cat \in {"builtin_exc", "builtin_base"} -> "Real"
              [] c.cat = "custom_imported" -> IF c.rcv.inst THEN "Real" ELSE "Generic"
              [] c.cat = "custom_unimported" -> IF c.rcv.inst /\ c.rcv.imp THEN "Real" ELSE "Generic"
              [] OTHER -> "Generic"
\* does the receiver import the named module?  only when it is configured to and the module is not there yet
Imports(c) == c.rcv.imp /\ c.cat = "custom_unimported"
\* arguments: plain items are preserved, everything else is replaced by its repr
ArgsOut(c) == CASE c.args = "empty" -> "empty" [] c.args = "plain" -> "same" [] c.args = "mixed" -> "plain_kept_rest_repr"
                [] c.args = "nonplain" -> "all_repr"
\* public data attributes: plain ones preserved, others repr'd; private ones never travel
AttrsOut(c) == CASE c.attrs = "none" -> "none" [] c.attrs = "plain" -> "same" [] c.attrs = "nonplain" -> "repr"
                 [] c.attrs = "private" -> "absent"
Outcome(c) == [cls |-> Class(c), imports |-> Imports(c), constructs |-> FALSE,
               args |-> IF c.cat = "stopiter" THEN "n/a" ELSE ArgsOut(c),
               attrs |-> IF c.cat = "stopiter" THEN "n/a" ELSE AttrsOut(c),
               traceback |-> IF c.cat = "stopiter" THEN "n/a" ELSE IF c.snd.tb THEN "text" ELSE "denied",
               version |-> IF c.cat = "stopiter" THEN "n/a" ELSE IF c.snd.ver THEN "text" ELSE "denied"]

\* the safety half of the property, as properties of the table
ASSUME \A c \in Cases : Imports(c) => c.rcv.imp
ASSUME \A c \in Cases : ~Outcome(c).constructs
ASSUME \A c \in Cases : Class(c) = "Real" /\ c.cat \notin {"builtin_exc", "builtin_base"} => c.rcv.inst
ASSUME \A c \in Cases : c.cat \in {"builtin_exc", "builtin_base"} => Class(c) = "Real"
ASSUME \A c \in Cases : c.cat \in {"unknown_mod", "builtin_nonexc", "imported_nonexc"} => Class(c) = "Generic"

Export == IF "OUT_FILE" \in DOMAIN IOEnv
          THEN ndJsonSerialize(IOEnv.OUT_FILE, SetToSeq({[c |-> c, out |-> Outcome(c)] : c \in Cases}))
          ELSE TRUE
ASSUME Export

\* crafted payloads in place of a genuine record: whatever happens, nothing is imported and no constructor runs
HostileShapes == {"wrong_arity", "names_not_text", "dunder_attrs", "text_record", "int_other", "args_not_tuple",
                  "attrs_not_pairs", "huge_names"}
HostileOutcome(h, rcv) == [mayRaise |-> TRUE, imports |-> FALSE, constructs |-> FALSE]

VARIABLE dummy
Spec == dummy = 0 /\ [][UNCHANGED dummy]_dummy
========================================================================================
