SPECIFICATION Spec
CONSTANTS
  T = 3
  Timeouts <- MCTimeouts
  MaxOps = 3
  OpsAllowed <- AllOps
  Busy = 2
INVARIANT CallbacksOnce
INVARIANT WaitTiming
PROPERTY Final
PROPERTY ExpiredIsFinal
