SPECIFICATION Spec
CONSTANTS
  Clients <- MC3Clients
  Reqs <- MC3Reqs
  Bg = "none"
  Pool <- NoPool
  Handoff = FALSE
INVARIANT RecvMutex
INVARIANT CondMutex
INVARIANT DispatchedOnce
INVARIANT ReplyMatches
INVARIANT Completed
INVARIANT NoLostWakeup
INVARIANT NoHang
INVARIANT WillBeWoken
INVARIANT OnlyKnownStalls
