SPECIFICATION Spec
CONSTANTS
  Clients <- MC2Clients
  Reqs <- MC2Reqs
  Bg = "none"
  Pool <- MCPool2
  Handoff = TRUE
INVARIANT RecvMutex
INVARIANT CondMutex
INVARIANT DispatchedOnce
INVARIANT ReplyMatches
INVARIANT Completed
INVARIANT NoLostWakeup
INVARIANT NoHang
INVARIANT WillBeWoken
INVARIANT NoStall
PROPERTY Termination
