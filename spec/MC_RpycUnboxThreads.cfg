SPECIFICATION Spec
CONSTANTS
  Servers = {"s1", "s2"}
  OneLookup = TRUE
  LockedIncr = TRUE
INVARIANT NothingLost
INVARIANT Accounting
CHECK_DEADLOCK FALSE
