SPECIFICATION ISpec
CONSTANTS
  Objs = {"o1", "o2"}
  MaxSteps = 5
INVARIANT EchoIsOriginal
INVARIANT SameProxyWhileAlive
