----------------------------------- MODULE RpycWire -----------------------------------
(* The published rpyc 5.x wire format as an executable reference, written from the documented tag table   *)
(* (not transliterated from brine.py): C04 (the serializer is lossless and exact) and C19 (bytes on the   *)
(* wire are those of the published protocol).                                                            *)
(*                                                                                                       *)
(* Values of the algebra are records with a field t:                                                     *)
(*   none true false notimpl ellipsis          the singletons                                            *)
(*   int    [neg, d]   sign and decimal digits (most significant first, no leading zero; 0 = <<0>>)       *)
(*   bytes  [b]        byte string                 str [b]   text, given by its UTF-8 bytes               *)
(*   float  [b]        the 8 bytes of the IEEE-754 double, big endian (opaque)   complex [b]  16 bytes    *)
(*   tuple  [items]    frozenset [items] (in transmission order)    slice [items] = <<start, stop, step>> *)
(* Enc(v) is the shortest-form encoding, Dec(bytes) a strict decoder for the tag table.                  *)
EXTENDS Integers, Sequences, FiniteSets, TLC, Json, IOUtils, SequencesExt

Byte == 0..255
\* ---- the tag table of the 5.x format ----
T_NONE == 0  T_EMPTY_STR == 1  T_EMPTY_TUPLE == 2  T_TRUE == 3  T_FALSE == 4  T_NOT_IMPLEMENTED == 5  T_ELLIPSIS == 6
T_UNICODE == 8
T_STR1 == 10  T_STR2 == 11  T_STR3 == 12  T_STR4 == 13  T_STR_L1 == 14  T_STR_L4 == 15
T_TUP1 == 16  T_TUP2 == 17  T_TUP3 == 18  T_TUP4 == 19  T_TUP_L1 == 20  T_TUP_L4 == 21
T_INT_L1 == 22  T_INT_L4 == 23  T_FLOAT == 24  T_SLICE == 25  T_FSET == 26  T_COMPLEX == 27
IMM_LO == 0 - 48      \* integers IMM_LO .. IMM_HI are one byte: value + 80
IMM_HI == 159
IMM_BASE == 80
\* ---- protocol constants (rpyc/core/consts.py) ----
MSG == [REQUEST |-> 1, REPLY |-> 2, EXCEPTION |-> 3]
LABEL == [VALUE |-> 1, TUPLE |-> 2, LOCAL_REF |-> 3, REMOTE_REF |-> 4]
HANDLE == [PING |-> 1, CLOSE |-> 2, GETROOT |-> 3, GETATTR |-> 4, DELATTR |-> 5, SETATTR |-> 6, CALL |-> 7, CALLATTR |-> 8,
           REPR |-> 9, STR |-> 10, CMP |-> 11, HASH |-> 12, DIR |-> 13, PICKLE |-> 14, DEL |-> 15, INSPECT |-> 16,
           BUFFITER |-> 17, OLDSLICING |-> 18, CTXEXIT |-> 19, INSTANCECHECK |-> 20]
EXC_STOP_ITERATION == 1
\* ---- frame layout (rpyc/core/channel.py): 4-byte big-endian length, 1 flag byte, payload, newline ----
COMPRESSION_THRESHOLD == 3000
FLUSHER == 10

BE4(n) == <<(n \div 16777216) % 256, (n \div 65536) % 256, (n \div 256) % 256, n % 256>>
\* (lengths of 2^24 and more are capped: no input of that size is ever evaluated, and TLC integers are 32 bit)
FromBE4(b) == IF b[1] > 0 THEN 16777216 ELSE b[2] * 65536 + b[3] * 256 + b[4]
Frame(payloadLen, flag) == BE4(payloadLen) \o <<flag>>     \* header; the payload and FLUSHER follow

RECURSIVE Concat(_)
Concat(ss) == IF ss = <<>> THEN <<>> ELSE Head(ss) \o Concat(Tail(ss))

\* ---- integers ----
RECURSIVE DigitsVal(_)
DigitsVal(d) == IF d = <<>> THEN 0 ELSE DigitsVal(SubSeq(d, 1, Len(d) - 1)) * 10 + d[Len(d)]
IsSmall(v) == Len(v.d) <= 3 /\ (IF v.neg THEN DigitsVal(v.d) <= 48 ELSE DigitsVal(v.d) <= IMM_HI)
SmallVal(v) == IF v.neg THEN 0 - DigitsVal(v.d) ELSE DigitsVal(v.d)
Ascii(v) == (IF v.neg THEN <<45>> ELSE <<>>) \o [i \in 1..Len(v.d) |-> 48 + v.d[i]]

EncBytes(b) == LET n == Len(b) IN
               IF n = 0 THEN <<T_EMPTY_STR>>
               ELSE IF n <= 4 THEN <<T_STR1 + (n - 1)>> \o b
               ELSE IF n < 256 THEN <<T_STR_L1, n>> \o b
               ELSE <<T_STR_L4>> \o BE4(n) \o b
TupHdr(n) == IF n = 0 THEN <<T_EMPTY_TUPLE>>
             ELSE IF n <= 4 THEN <<T_TUP1 + (n - 1)>>
             ELSE IF n < 256 THEN <<T_TUP_L1, n>>
             ELSE <<T_TUP_L4>> \o BE4(n)

RECURSIVE Enc(_)
Enc(v) ==
    CASE v.t = "none" -> <<T_NONE>> [] v.t = "true" -> <<T_TRUE>> [] v.t = "false" -> <<T_FALSE>>
      [] v.t = "notimpl" -> <<T_NOT_IMPLEMENTED>> [] v.t = "ellipsis" -> <<T_ELLIPSIS>>
      [] v.t = "int" -> IF IsSmall(v) THEN <<SmallVal(v) + IMM_BASE>>
                        ELSE LET s == Ascii(v) IN
                             IF Len(s) < 256 THEN <<T_INT_L1, Len(s)>> \o s ELSE <<T_INT_L4>> \o BE4(Len(s)) \o s
      [] v.t = "bytes" -> EncBytes(v.b)
      [] v.t = "str" -> <<T_UNICODE>> \o EncBytes(v.b)
      [] v.t = "float" -> <<T_FLOAT>> \o v.b
      [] v.t = "complex" -> <<T_COMPLEX>> \o v.b
      [] v.t = "tuple" -> TupHdr(Len(v.items)) \o Concat([i \in 1..Len(v.items) |-> Enc(v.items[i])])
      [] v.t = "fset" -> <<T_FSET>> \o Enc([t |-> "tuple", items |-> v.items])
      [] v.t = "slice" -> <<T_SLICE>> \o Enc([t |-> "tuple", items |-> v.items])

\* which values the serializer must accept: exactly the algebra above (anything else, e.g. a list, a dict, an instance of a
\* subclass of a plain type, or a tuple / frozenset / slice containing one, is not serializable)
RECURSIVE Dumpable(_)
Dumpable(v) == CASE v.t \in {"none", "true", "false", "notimpl", "ellipsis", "int", "bytes", "str", "float", "complex"} -> TRUE
                 [] v.t \in {"tuple", "fset", "slice"} -> \A i \in 1..Len(v.items) : Dumpable(v.items[i])
                 [] OTHER -> FALSE        \* t = "other"

\* ---- strict decoder ----
Fail == [ok |-> FALSE]
Ok(v, rest) == [ok |-> TRUE, v |-> v, rest |-> rest]
Take(b, n) == IF Len(b) >= n THEN [ok |-> TRUE, v |-> SubSeq(b, 1, n), rest |-> SubSeq(b, n + 1, Len(b))] ELSE Fail
IsDigits(s) == s # <<>> /\ \A i \in 1..Len(s) : s[i] \in 48..57
ParseInt(s) == LET neg == s # <<>> /\ s[1] = 45
                   ds == IF neg THEN Tail(s) ELSE s IN
               IF IsDigits(ds) /\ (Len(ds) = 1 \/ ds[1] # 48) /\ ~(neg /\ ds = <<48>>)
               THEN [ok |-> TRUE, v |-> [t |-> "int", neg |-> neg, d |-> [i \in 1..Len(ds) |-> ds[i] - 48]]]
               ELSE Fail

RECURSIVE Dec(_), DecN(_, _, _)
\* n values in a row
DecN(b, n, acc) == IF n = 0 THEN Ok(acc, b)
                   ELSE LET r == Dec(b) IN IF r.ok THEN DecN(r.rest, n - 1, Append(acc, r.v)) ELSE Fail
DecBytesBody(b, n, mk(_)) == LET r == Take(b, n) IN IF r.ok THEN Ok(mk(r.v), r.rest) ELSE Fail
Dec(b) ==
    IF b = <<>> THEN Fail
    ELSE LET tag == b[1] r0 == Tail(b) IN
    IF tag \in (IMM_LO + IMM_BASE)..(IMM_HI + IMM_BASE)
    THEN LET n == tag - IMM_BASE
             a == IF n < 0 THEN 0 - n ELSE n
             ds == IF a >= 100 THEN <<a \div 100, (a \div 10) % 10, a % 10>> ELSE IF a >= 10 THEN <<a \div 10, a % 10>> ELSE <<a>> IN
         Ok([t |-> "int", neg |-> n < 0, d |-> ds], r0)
    ELSE CASE tag = T_NONE -> Ok([t |-> "none"], r0) [] tag = T_TRUE -> Ok([t |-> "true"], r0) [] tag = T_FALSE -> Ok([t |-> "false"], r0)
           [] tag = T_NOT_IMPLEMENTED -> Ok([t |-> "notimpl"], r0) [] tag = T_ELLIPSIS -> Ok([t |-> "ellipsis"], r0)
           [] tag = T_EMPTY_STR -> Ok([t |-> "bytes", b |-> <<>>], r0)
           [] tag = T_EMPTY_TUPLE -> Ok([t |-> "tuple", items |-> <<>>], r0)
           [] tag \in T_STR1..T_STR4 -> DecBytesBody(r0, tag - T_STR1 + 1, LAMBDA x : [t |-> "bytes", b |-> x])
           [] tag = T_STR_L1 -> IF r0 = <<>> THEN Fail ELSE DecBytesBody(Tail(r0), r0[1], LAMBDA x : [t |-> "bytes", b |-> x])
           [] tag = T_STR_L4 -> IF Len(r0) < 4 THEN Fail
                                ELSE DecBytesBody(SubSeq(r0, 5, Len(r0)), FromBE4(r0), LAMBDA x : [t |-> "bytes", b |-> x])
           [] tag = T_UNICODE -> LET r == Dec(r0) IN IF r.ok /\ r.v.t = "bytes" THEN Ok([t |-> "str", b |-> r.v.b], r.rest) ELSE Fail
           [] tag \in T_TUP1..T_TUP4 -> LET r == DecN(r0, tag - T_TUP1 + 1, <<>>) IN
                                        IF r.ok THEN Ok([t |-> "tuple", items |-> r.v], r.rest) ELSE Fail
           [] tag = T_TUP_L1 -> IF r0 = <<>> THEN Fail
                                ELSE LET r == DecN(Tail(r0), r0[1], <<>>) IN IF r.ok THEN Ok([t |-> "tuple", items |-> r.v], r.rest) ELSE Fail
           [] tag = T_TUP_L4 -> IF Len(r0) < 4 THEN Fail
                                ELSE LET r == DecN(SubSeq(r0, 5, Len(r0)), FromBE4(r0), <<>>) IN
                                     IF r.ok THEN Ok([t |-> "tuple", items |-> r.v], r.rest) ELSE Fail
           [] tag = T_INT_L1 -> IF r0 = <<>> THEN Fail
                                ELSE LET r == Take(Tail(r0), r0[1]) IN
                                     IF r.ok /\ ParseInt(r.v).ok THEN Ok(ParseInt(r.v).v, r.rest) ELSE Fail
           [] tag = T_INT_L4 -> IF Len(r0) < 4 THEN Fail
                                ELSE LET r == Take(SubSeq(r0, 5, Len(r0)), FromBE4(r0)) IN
                                     IF r.ok /\ ParseInt(r.v).ok THEN Ok(ParseInt(r.v).v, r.rest) ELSE Fail
           [] tag = T_FLOAT -> DecBytesBody(r0, 8, LAMBDA x : [t |-> "float", b |-> x])
           [] tag = T_COMPLEX -> DecBytesBody(r0, 16, LAMBDA x : [t |-> "complex", b |-> x])
           [] tag = T_SLICE -> LET r == Dec(r0) IN
                               IF r.ok /\ r.v.t = "tuple" /\ Len(r.v.items) = 3 THEN Ok([t |-> "slice", items |-> r.v.items], r.rest) ELSE Fail
           [] tag = T_FSET -> LET r == Dec(r0) IN
                              IF r.ok /\ r.v.t = "tuple" THEN Ok([t |-> "fset", items |-> r.v.items], r.rest) ELSE Fail
           [] OTHER -> Fail

\* ---- batch evaluation for the conformance driver ----
\* IN_FILE: JSON array of records [id, kind, ...]; kind "enc": v (a value) -> the bytes Enc(v); kind "dec": b (bytes) ->
\* Dec(b); results are written to OUT_FILE as one JSON record per input
Inputs == IF "IN_FILE" \in DOMAIN IOEnv THEN JsonDeserialize(IOEnv.IN_FILE) ELSE <<>>
Result(r) == IF r.kind = "enc" THEN [id |-> r.id, kind |-> "enc", dumpable |-> Dumpable(r.v),
                                      bytes |-> IF Dumpable(r.v) THEN Enc(r.v) ELSE <<>>]
             ELSE [id |-> r.id, kind |-> "dec", res |-> Dec(r.b)]
Batch == IF "OUT_FILE" \in DOMAIN IOEnv
         THEN ndJsonSerialize(IOEnv.OUT_FILE, [i \in 1..Len(Inputs) |-> Result(Inputs[i])])
         ELSE TRUE
ASSUME Batch

Constants == [msg |-> MSG, label |-> LABEL, handle |-> HANDLE, exc_stop_iteration |-> EXC_STOP_ITERATION,
              threshold |-> COMPRESSION_THRESHOLD, flusher |-> FLUSHER, imm_lo |-> IMM_LO, imm_hi |-> IMM_HI]
ExportConstants == IF "CONST_FILE" \in DOMAIN IOEnv THEN ndJsonSerialize(IOEnv.CONST_FILE, <<Constants>>) ELSE TRUE
ASSUME ExportConstants

VARIABLE dummy
Spec == dummy = 0 /\ [][UNCHANGED dummy]_dummy
=======================================================================================
