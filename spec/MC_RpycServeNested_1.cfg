SPECIFICATION Spec
CONSTANTS
  Clients <- C1
  Req <- R1
  Nested <- NA
  InspOf <- IA
  Pool <- NoPool
  Own = TRUE
CHECK_DEADLOCK FALSE
INVARIANT RecvMutex
INVARIANT DispatchedOnce
INVARIANT ReplyMatches
INVARIANT TransitExact
INVARIANT NoHang
INVARIANT NoStall
INVARIANT WillBeWoken
INVARIANT AtTheEnd
PROPERTY Termination
