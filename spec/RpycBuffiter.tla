---------------------------------- MODULE RpycBuffiter ----------------------------------
(* C02, buffered iteration (rpyc/utils/helpers.py buffiter + Connection._handle_buffiter): the holder asks the owner  *)
(* for up to `count` elements of the remote iterator at a time; count starts at `chunk` and is multiplied by `factor`  *)
(* after every request, capped at `max_chunk` (the first request is not capped); an empty reply ends the iteration.    *)
(* The remote iterator yields 0, 1, ..., n-1.                                                                         *)
EXTENDS Naturals, Sequences, TLC
CONSTANTS MaxP, MaxN
VARIABLES chunk, factor, maxc, n, pos, count, buf, out, phase, lastreq, lastgot
bvars == <<chunk, factor, maxc, n, pos, count, buf, out, phase, lastreq, lastgot>>
MinOf(a, b) == IF a < b THEN a ELSE b
BInit == /\ chunk \in 1..MaxP /\ factor \in 1..MaxP /\ maxc \in 1..MaxP /\ n \in 0..MaxN
         /\ pos = 0 /\ count = chunk /\ buf = <<>> /\ out = <<>> /\ phase = "fetch" /\ lastreq = 0 /\ lastgot = 0
\* one HANDLE_BUFFITER round trip: the owner runs tuple(islice(it, count))
Fetch == /\ phase = "fetch"
         /\ LET got == MinOf(count, n - pos) IN
              /\ buf' = [i \in 1..got |-> pos + i - 1]
              /\ pos' = pos + got
              /\ lastreq' = count /\ lastgot' = got
              /\ phase' = IF got = 0 THEN "done" ELSE "yield"
         /\ count' = MinOf(count * factor, maxc)
         /\ UNCHANGED <<chunk, factor, maxc, n, out>>
\* the generator hands one buffered element to the consumer
Yield == /\ phase = "yield"
         /\ out' = Append(out, Head(buf)) /\ buf' = Tail(buf)
         /\ phase' = IF Tail(buf) = <<>> THEN "fetch" ELSE "yield"
         /\ UNCHANGED <<chunk, factor, maxc, n, pos, count, lastreq, lastgot>>
BNext == Fetch \/ Yield \/ (phase = "done" /\ UNCHANGED bvars)
BSpec == BInit /\ [][BNext]_bvars /\ WF_bvars(BNext)
\* what has been handed out plus what is buffered is exactly what the remote iterator has produced so far, in order
PrefixEmitted == out \o buf = [i \in 1..pos |-> i - 1]
Complete == phase = "done" => out = [i \in 1..n |-> i - 1] /\ buf = <<>>
RequestsBounded == count <= (IF chunk > maxc THEN chunk ELSE maxc) /\ count >= 1
Terminates == <>(phase = "done")
=========================================================================================
