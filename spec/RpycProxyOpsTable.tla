------------------------------- MODULE RpycProxyOpsTable -------------------------------
(* the step function of RpycProxyOps over its whole state space, written out as a table, and its static laws *)
EXTENDS RpycProxyOps, Json, IOUtils
ASSUME StepLaws
ASSUME ConfigsOrdered
TableOf(k) == UNION {{[k |-> k, s |-> s, op |-> op, acc |-> Access(k, op[1]),
                       r |-> Step(k, s, op[1], op[2], op[3], op[4]).r, s2 |-> Step(k, s, op[1], op[2], op[3], op[4]).s,
                       perm |-> [c \in {"classic", "public", "public_rw", "default"} |-> Permitted(c, Access(k, op[1]))]]
                      : op \in {o \in OpsOf(k, s) : Within(k, Step(k, s, o[1], o[2], o[3], o[4]).s)}} : s \in States(k)}
Export == IF "OUT_FILE" \in DOMAIN IOEnv
          THEN \A k \in Kinds : ndJsonSerialize(IOEnv.OUT_FILE \o "." \o k, SetToSeq(TableOf(k)))
          ELSE TRUE
ASSUME Export
TInit == kind = "list" /\ cfg = "classic" /\ st = <<>> /\ res = RNone
TNext == UNCHANGED vars
=========================================================================================
