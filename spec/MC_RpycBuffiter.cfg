SPECIFICATION BSpec
CONSTANTS
  MaxP = 4
  MaxN = 9
INVARIANT PrefixEmitted
INVARIANT Complete
INVARIANT RequestsBounded
PROPERTY Terminates
