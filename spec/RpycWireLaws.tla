--------------------------------- MODULE RpycWireLaws ---------------------------------
(* Algebraic laws of the wire format of RpycWire, checked by TLC on a bounded universe of values, and the export of   *)
(* that universe with its encodings for byte-for-byte comparison with the implementation.                             *)
EXTENDS RpycWire

\* ---- a bounded universe on which the algebraic laws of the format are checked by TLC ----
Atoms == {[t |-> "none"], [t |-> "true"], [t |-> "false"], [t |-> "notimpl"], [t |-> "ellipsis"],
          [t |-> "int", neg |-> FALSE, d |-> <<0>>], [t |-> "int", neg |-> TRUE, d |-> <<4, 8>>],
          [t |-> "int", neg |-> TRUE, d |-> <<4, 9>>], [t |-> "int", neg |-> FALSE, d |-> <<1, 5, 9>>],
          [t |-> "int", neg |-> FALSE, d |-> <<1, 6, 0>>], [t |-> "int", neg |-> FALSE, d |-> <<9, 9, 9, 9, 9, 9, 9, 9, 9, 9, 9, 9>>],
          [t |-> "bytes", b |-> <<>>], [t |-> "bytes", b |-> <<0>>], [t |-> "bytes", b |-> <<1, 2>>], [t |-> "bytes", b |-> <<1, 2, 3>>],
          [t |-> "bytes", b |-> <<1, 2, 3, 4>>], [t |-> "bytes", b |-> <<1, 2, 3, 4, 5>>],
          [t |-> "str", b |-> <<>>], [t |-> "str", b |-> <<104>>], [t |-> "str", b |-> <<226, 130, 172>>],
          [t |-> "float", b |-> <<63, 240, 0, 0, 0, 0, 0, 0>>], [t |-> "float", b |-> <<127, 248, 0, 0, 0, 0, 0, 1>>],
          [t |-> "complex", b |-> <<0, 0, 0, 0, 0, 0, 0, 0, 128, 0, 0, 0, 0, 0, 0, 0>>]}
Tuples1 == {[t |-> "tuple", items |-> <<>>]} \cup {[t |-> "tuple", items |-> <<a>>] : a \in Atoms}
           \cup {[t |-> "tuple", items |-> <<a, b>>] : a, b \in {x \in Atoms : x.t \in {"none", "int", "bytes"}}}
Composite == {[t |-> "fset", items |-> u.items] : u \in Tuples1} \cup {[t |-> "slice", items |-> <<a, b, c>>] :
                  a, b, c \in {[t |-> "none"], [t |-> "int", neg |-> FALSE, d |-> <<1>>], [t |-> "int", neg |-> TRUE, d |-> <<4, 9>>]}}
Universe == Atoms \cup Tuples1 \cup Composite \cup {[t |-> "tuple", items |-> <<u, a>>] : u \in Tuples1, a \in {[t |-> "true"], [t |-> "str", b |-> <<104>>]}}

RoundTrip == \A v \in Universe : Dec(Enc(v)) = Ok(v, <<>>)
Injective == \A v, w \in Universe : Enc(v) = Enc(w) => v = w
PrefixFree == \A v, w \in Universe : v # w => ~IsPrefix(Enc(v), Enc(w))
SelfDelimiting == \A v \in Universe : Dec(Enc(v) \o <<7, 7>>) = Ok(v, <<7, 7>>)
ASSUME RoundTrip
ASSUME Injective
ASSUME PrefixFree
ASSUME SelfDelimiting

ExportUniverse == IF "UNIVERSE_FILE" \in DOMAIN IOEnv
                  THEN ndJsonSerialize(IOEnv.UNIVERSE_FILE, SetToSeq({[v |-> v, bytes |-> Enc(v)] : v \in Universe}))
                  ELSE TRUE
ASSUME ExportUniverse

=======================================================================================
