SPECIFICATION Spec
