----------------------------------- MODULE RpycAttr -----------------------------------
(* C06: attribute access by the peer follows the connection's policy, and only its own.                 *)
(* Part 1 (decision table): Decide(case) is the SET of outcomes the property statement permits for a    *)
(* configuration, an operation, a class of attribute name and an object shape.  Written from the        *)
(* statement and the documentation table of DEFAULT_CONFIG, not from Connection._check_attr.            *)
(* Part 2 (histories): connections with their own configuration are opened and closed in any order; a   *)
(* classic-mode service widens the configuration of its own connection on connect.                      *)
(* Code: Connection._check_attr/_access_attr/_handle_getattr/_setattr/_delattr/_callattr/_cmp           *)
(* (rpyc/core/protocol.py), Service._rpyc_setattr/_delattr, SlaveService.on_connect                     *)
(* (rpyc/core/service.py), restricted() (rpyc/utils/helpers.py).                                        *)
EXTENDS Naturals, Sequences, FiniteSets, TLC, Json, IOUtils, SequencesExt

Ops == {"get", "set", "del", "call"}
\* name classes; "prefixed" = starts with the exposed prefix (and is otherwise public), "safe" = member of safe_attrs,
\* "dunder"/"private" = starts with an underscore and is not safe-listed, "bytes" = the public name given as bytes
NameClasses == {"prefixed", "safe", "dunder", "private", "public", "bytes", "nonstr"}
PrefixKinds == {"std", "alt", "empty"}            \* "exposed_", "x_", ""
Configs == [enabled : BOOLEAN, all : BOOLEAN, exposed : BOOLEAN, safe : BOOLEAN, public : BOOLEAN, prefix : PrefixKinds]
Shapes == [plain : BOOLEAN, twin : BOOLEAN]   \* the object has the name itself / has prefix+name
Cases == [cfg : Configs, op : Ops, nc : NameClasses, shape : Shapes]

IsPublic(nc) == nc \in {"prefixed", "public", "bytes"}
StartsWithPrefix(cfg, nc) == nc = "prefixed" \/ cfg.prefix = "empty"
\* the name is allowed as it stands
AllowedPlain(cfg, nc) == \/ cfg.all
                         \/ cfg.exposed /\ StartsWithPrefix(cfg, nc)
                         \/ cfg.safe /\ nc = "safe"
                         \/ cfg.public /\ IsPublic(nc)
\* an exposed-prefixed twin can stand in for the name (needs exposed attributes enabled and a non-empty prefix)
TwinUsable(cfg, shape) == cfg.exposed /\ cfg.prefix # "empty" /\ shape.twin

Decide(c) ==
    IF c.nc = "nonstr" THEN {"TypeError"}
    ELSE IF ~c.cfg.enabled THEN {"AttributeError"}
    ELSE IF AllowedPlain(c.cfg, c.nc)
         THEN IF c.shape.plain THEN {"Plain"}
              ELSE IF TwinUsable(c.cfg, c.shape) THEN {"Twin", "Plain"}    \* the statement does not say which
              ELSE {"Plain"}
         ELSE IF TwinUsable(c.cfg, c.shape) THEN {"Twin"}
              ELSE {"AttributeError"}

\* meta-properties of the table itself (checked by TLC when the module is loaded)
ASSUME \A c \in Cases : Decide(c) # {}
ASSUME \A c \in Cases : ~c.cfg.enabled /\ c.nc # "nonstr" => Decide(c) = {"AttributeError"}
ASSUME \A c \in Cases : c.cfg.enabled /\ c.cfg.all /\ c.nc # "nonstr" => "AttributeError" \notin Decide(c)
ASSUME \A c \in Cases : "Twin" \in Decide(c) => c.shape.twin /\ c.cfg.exposed
ASSUME \A c \in Cases : c.nc = "private" /\ ~c.cfg.all /\ c.cfg.prefix # "empty" /\ ~c.shape.twin => Decide(c) \subseteq {"AttributeError"}

\* objects that bring their own attribute hooks decide instead of the configuration (even when the operation is disabled
\* in the configuration): "ownhooks" = a class defining _rpyc_getattr/_rpyc_setattr/_rpyc_delattr that permits exactly the
\* listed names; "service" = a Service instance (no read hook: the configuration decides reads; writes and deletes are
\* always refused); "restricted" = a restricted() view (reads of listed names, writes of write-listed names reach the
\* underlying object; nothing else does - it has no delete hook, so a delete is a matter of the configuration and, being
\* applied to the view, never reaches the underlying object)
\* two shapes that do NOT bring hooks of their own although hooks are near: "class_of_hooked" = the class object of a
\* hooked class (hooks are instance methods; for the class object itself the configuration decides), "forwarder" = a
\* hook-less wrapper that forwards unknown attributes to a hooked object (the configuration decides, and the inner
\* object's hooks are not consulted)
HookKinds == {"ownhooks", "service", "restricted", "class_of_hooked", "forwarder"}
\* w: how the restricted view's write list was given - its own list, left out (then the read list serves), or explicitly empty
\* (a read-only view); listed: the name is on the list that governs the operation (for an empty write list: on the read list)
HookCases == [kind : HookKinds, op : {"get", "set", "del"}, listed : BOOLEAN, enabled : BOOLEAN, w : {"given", "default", "empty"}]
DecideHook(h) ==
    CASE h.kind = "ownhooks" -> IF h.listed THEN {"Hook"} ELSE {"AttributeError"}
      [] h.kind = "service" -> IF h.op = "get" THEN {"Config"} ELSE {"AttributeError"}
      [] h.kind = "restricted" -> IF h.op = "del" THEN {"AttributeError"}
                                  ELSE IF h.op = "set" /\ h.w = "empty" THEN {"AttributeError"}
                                  ELSE IF h.listed THEN {"Underlying"} ELSE {"AttributeError"}
      [] h.kind \in {"class_of_hooked", "forwarder"} -> {"Config"}
ExportHooks == IF "OUT_FILE2" \in DOMAIN IOEnv
               THEN ndJsonSerialize(IOEnv.OUT_FILE2, SetToSeq({[kind |-> h.kind, op |-> h.op, listed |-> h.listed,
                                                                 enabled |-> h.enabled, w |-> h.w, allowed |-> DecideHook(h)] : h \in HookCases}))
               ELSE TRUE
ASSUME ExportHooks

\* export of the table for the conformance driver: one JSON record per case
Export == IF "OUT_FILE" \in DOMAIN IOEnv
          THEN ndJsonSerialize(IOEnv.OUT_FILE, SetToSeq({[cfg |-> c.cfg, op |-> c.op, nc |-> c.nc, shape |-> c.shape,
                                                          allowed |-> Decide(c)] : c \in Cases}))
          ELSE TRUE
ASSUME Export

---------------------------------------------------------------------------------------
(* Part 2: histories of differently configured connections *)
CONSTANTS MaxConns, Kinds          \* Kinds \subseteq {"default", "classic", "public", "classic_shared"}
Default == [enabled |-> TRUE, all |-> FALSE, exposed |-> TRUE, safe |-> TRUE, public |-> FALSE, prefix |-> "std"]
\* what SlaveService.on_connect grants its own connection
Widened(cfg) == [cfg EXCEPT !.all = TRUE, !.exposed = FALSE, !.enabled = TRUE]
\* "public" connections are all opened with one and the same configuration mapping object of the application;
\* "classic_shared" is a classic-mode connection opened with that very object
\* `a`: whether the application's mapping also said allow_all_attrs at the moment the connection was opened from it
CfgOf(kind, a) == IF kind = "classic" THEN Widened(Default)
                  ELSE IF kind = "classic_shared" THEN Widened([Default EXCEPT !.public = TRUE])
                  ELSE IF kind = "public" THEN [Default EXCEPT !.public = TRUE, !.all = a] ELSE Default

VARIABLES conns,      \* function id -> [kind, cfg] of the open connections
          defaults,   \* the process-wide default configuration
          opened,
          appall,     \* the application's own mapping: does it (now) also say allow_all_attrs?
          edits
hvars == <<conns, defaults, opened, appall, edits>>
HInit == conns = <<>> /\ defaults = Default /\ opened = 0 /\ appall = FALSE /\ edits = 0
Ids == 1..MaxConns
Open(k) == /\ opened < MaxConns
           /\ opened' = opened + 1
           /\ conns' = Append(conns, [kind |-> k, a |-> appall, cfg |-> CfgOf(k, appall), open |-> TRUE])
           /\ UNCHANGED <<defaults, appall, edits>>
Close(i) == /\ i \in 1..Len(conns) /\ conns[i].open
            /\ conns' = [conns EXCEPT ![i].open = FALSE]
            /\ UNCHANGED <<defaults, opened, appall, edits>>
\* the application edits its own mapping (it is the application's object): connections opened from it before keep what they
\* were opened with, connections opened afterwards get the new content
Edit == /\ edits < 2 /\ opened < MaxConns
        /\ edits' = edits + 1
        /\ appall' = ~appall
        /\ UNCHANGED <<conns, defaults, opened>>
HNext == (\E k \in Kinds : Open(k)) \/ (\E i \in Ids : Close(i)) \/ Edit \/ (opened = MaxConns /\ UNCHANGED hvars)
HSpec == HInit /\ [][HNext]_hvars

\* one connection's configuration never changes what another one allows
Isolation == /\ defaults = Default
             /\ \A i \in 1..Len(conns) : conns[i].cfg = CfgOf(conns[i].kind, conns[i].a)
=======================================================================================
