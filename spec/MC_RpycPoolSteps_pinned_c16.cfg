SPECIFICATION Spec
CONSTANTS
  Clients = {"c1", "c2"}
  NFd = 2
  Identity = FALSE
  Recheck = TRUE
INVARIANT GoodNeverCut
CHECK_DEADLOCK FALSE
