SPECIFICATION ESpec
CONSTANTS
  Clients <- E1Clients
  Reqs <- E1Reqs
  Bg = "bg"
  Pool <- NoPool
  Handoff = TRUE
  NotifyOnEof = TRUE
INVARIANT FailOnlyWhenGone
INVARIANT StillRight
INVARIANT ClosedWhenSeen
PROPERTY EveryoneEnds
CHECK_DEADLOCK FALSE
