SPECIFICATION Spec
CONSTANTS
  Addrs <- MCAddrs
  Names <- MCNames
  Interval = 1
  T = 3
  MalformedKinds <- MCKinds
INVARIANT StaysAlive
INVARIANT FreshIsMember
INVARIANT NoFutureTimes
