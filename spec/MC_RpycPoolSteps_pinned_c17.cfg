SPECIFICATION Spec
CONSTANTS
  Clients = {"c1", "c2"}
  NFd = 2
  Identity = TRUE
  Recheck = FALSE
INVARIANT NothingLeftBehind
CHECK_DEADLOCK FALSE
