---------------------------- MODULE MC_RpycServeNested ----------------------------
EXTENDS RpycServeNested
C1 == {"t1"}
C2 == {"t1", "t2"}
C3 == {"t1", "t2", "t3"}
R1 == [t \in C1 |-> "a"]
R2 == [t \in C2 |-> IF t = "t1" THEN "a" ELSE "b"]
R3 == [t \in C3 |-> IF t = "t1" THEN "a" ELSE IF t = "t2" THEN "b" ELSE "c"]
P1 == {"p1"}
P2 == {"p1", "p2"}
NA == {"a"}
NAB == {"a", "b"}
IA == [r \in NA |-> "ia"]
IAB == [r \in NAB |-> IF r = "a" THEN "ia" ELSE "ib"]
===================================================================================
