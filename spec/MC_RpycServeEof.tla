---- MODULE MC_RpycServeEof ----
EXTENDS RpycServeEof
E2Clients == {"t1", "t2"}
E2Reqs == [t \in E2Clients |-> IF t = "t1" THEN <<"a1">> ELSE <<"b1">>]
E1Clients == {"t1"}
E1Reqs == [t \in E1Clients |-> <<"a1", "a2">>]
====
