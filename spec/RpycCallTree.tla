---------------------------------- MODULE RpycCallTree ----------------------------------
(* C01: remote calls compute what a local call would, at any nesting depth.                              *)
(* A computation is a call tree.  The outermost caller sits at peer A; the root of the tree executes at  *)
(* peer B, its children at A, their children at B, and so on (a callee calling back into its caller).    *)
(* A node runs its children in order, adds up what they return (own constant 1), may raise after the     *)
(* i-th child, and catches the exceptions of the children listed in `catch` (a caught exception of node  *)
(* q contributes 100 + Code(q)).                                                                        *)
(*   EvalLocal  : the meaning of the tree by structural recursion (what one process computes)            *)
(*   the state machine : the same tree evaluated by two single-threaded peers exchanging REQUEST /       *)
(*                REPLY / EXCEPTION frames over two FIFO streams, a waiting peer serving re-entrantly    *)
(* Code: Connection.sync_request / serve / _dispatch_request (rpyc/core/protocol.py), netref __call__.   *)
EXTENDS Integers, Sequences, FiniteSets, TLC, Json, IOUtils, SequencesExt

\* a tree node: [c: sequence of child nodes, r: raise after this many children (-1: never), catch: set of child indices]
Never == 0 - 1
Leafs == {[c |-> <<>>, r |-> rr, catch |-> {}] : rr \in {Never, 0}}
Unary(S) == {[c |-> <<a>>, r |-> rr, catch |-> ct] : a \in S, rr \in {Never, 0, 1}, ct \in SUBSET {1}}
Binary(S) == {[c |-> <<a, b>>, r |-> rr, catch |-> ct] : a \in S, b \in S, rr \in {Never, 1, 2}, ct \in {{}, {1}, {2}, {1, 2}}}
T1 == Leafs \cup Unary(Leafs) \cup Binary(Leafs)
Small1 == Leafs \cup Unary(Leafs)
T2 == T1 \cup Unary(T1) \cup Binary(Small1)
Chain3 == Unary(Unary(Unary(Leafs)))              \* A -> B -> A -> B -> A
Trees == T2 \cup Chain3

RECURSIVE Code(_)
Code(p) == IF p = <<>> THEN 1 ELSE Code(SubSeq(p, 1, Len(p) - 1)) * 3 + p[Len(p)]
RECURSIVE Sub(_, _)
Sub(t, p) == IF p = <<>> THEN t ELSE Sub(t.c[p[1]], Tail(p))

\* ---------------------------------------------------------------- meaning by local recursion
\* result: [ok |-> TRUE, v |-> value]  or  [ok |-> FALSE, v |-> Code of the raising node]; `ran` = set of paths executed
RECURSIVE EvalNode(_, _), EvalKids(_, _, _, _, _)
EvalKids(t, p, i, acc, ran) ==
    IF t.r = i - 1 THEN [ok |-> FALSE, v |-> Code(p), ran |-> ran]
    ELSE IF i > Len(t.c) THEN [ok |-> TRUE, v |-> acc, ran |-> ran]
    ELSE LET r == EvalNode(t.c[i], Append(p, i)) IN
         IF r.ok THEN EvalKids(t, p, i + 1, acc + r.v, ran \cup r.ran)
         ELSE IF i \in t.catch THEN EvalKids(t, p, i + 1, acc + 100 + r.v, ran \cup r.ran)
         ELSE [ok |-> FALSE, v |-> r.v, ran |-> ran \cup r.ran]
EvalNode(t, p) == LET r == EvalKids(t, p, 1, 1, {p}) IN r
EvalLocal(t) == EvalNode(t, <<>>)

\* ---------------------------------------------------------------- the same tree evaluated by message passing
VARIABLES tree, stack, chan, seqctr, ran, result
vars == <<tree, stack, chan, seqctr, ran, result>>
S == {"A", "B"}
Peer(s) == IF s = "A" THEN "B" ELSE "A"
Site(p) == IF Len(p) % 2 = 0 THEN "B" ELSE "A"       \* where the node at path p executes

Init == /\ tree \in Trees
        /\ stack = [s \in S |-> IF s = "A" THEN <<[kind |-> "prog", wait |-> 0]>> ELSE <<>>]
        /\ chan = [s \in S |-> IF s = "B" THEN <<[k |-> "REQ", seq |-> 0, p |-> <<>>]>> ELSE <<>>]
        /\ seqctr = [s \in S |-> IF s = "A" THEN 1 ELSE 0]
        /\ ran = [p \in {} |-> 0]
        /\ result = [done |-> FALSE]

Top(s) == stack[s][Len(stack[s])]
Pop(s) == SubSeq(stack[s], 1, Len(stack[s]) - 1)
Bump(f, p) == IF p \in DOMAIN f THEN [f EXCEPT ![p] = @ + 1] ELSE f @@ (p :> 1)

\* a frame [kind "node", p, i, acc, wait, rseq]: node p is about to deal with child i; wait = seq it waits for (or -1)
\* finishing a frame: answer the request that started it
Finish(s, ok, v) == LET f == Top(s) IN
    /\ chan' = [chan EXCEPT ![Peer(s)] = Append(@, [k |-> IF ok THEN "REP" ELSE "EXC", seq |-> f.rseq, v |-> v])]
    /\ stack' = [stack EXCEPT ![s] = Pop(s)]

\* the running node takes its next step: raise, call the next child, or return
Run(s) == /\ stack[s] # <<>> /\ Top(s).kind = "node" /\ Top(s).wait = Never
          /\ LET f == Top(s) t == Sub(tree, f.p) IN
             IF t.r = f.i - 1 THEN Finish(s, FALSE, Code(f.p)) /\ UNCHANGED <<seqctr, ran, result, tree>>
             ELSE IF f.i > Len(t.c) THEN Finish(s, TRUE, f.acc) /\ UNCHANGED <<seqctr, ran, result, tree>>
             ELSE /\ chan' = [chan EXCEPT ![Peer(s)] = Append(@, [k |-> "REQ", seq |-> seqctr[s], p |-> Append(f.p, f.i)])]
                  /\ stack' = [stack EXCEPT ![s] = Append(Pop(s), [f EXCEPT !.wait = seqctr[s]])]
                  /\ seqctr' = [seqctr EXCEPT ![s] = @ + 1]
                  /\ UNCHANGED <<ran, result, tree>>

\* a peer that is idle or waiting serves the next frame addressed to it
Serve(s) == /\ chan[s] # <<>>
            /\ IF stack[s] = <<>> THEN TRUE ELSE (IF Top(s).kind = "prog" THEN TRUE ELSE Top(s).wait # Never)
            /\ LET m == Head(chan[s]) rest == [chan EXCEPT ![s] = Tail(@)] IN
               IF m.k = "REQ"
               THEN /\ stack' = [stack EXCEPT ![s] = Append(@, [kind |-> "node", p |-> m.p, i |-> 1, acc |-> 1, wait |-> Never, rseq |-> m.seq])]
                    /\ ran' = Bump(ran, m.p)
                    /\ chan' = rest
                    /\ UNCHANGED <<seqctr, result, tree>>
               ELSE LET f == Top(s) IN
                    /\ f.wait = m.seq          \* responses are routed by sequence number to the call that waits for them
                    /\ chan' = rest
                    /\ IF f.kind = "prog"
                       THEN /\ result' = [done |-> TRUE, ok |-> m.k = "REP", v |-> m.v]
                            /\ stack' = [stack EXCEPT ![s] = Pop(s)]
                       ELSE LET t == Sub(tree, f.p) IN
                            /\ UNCHANGED result
                            /\ IF m.k = "REP"
                               THEN stack' = [stack EXCEPT ![s] = Append(Pop(s), [f EXCEPT !.wait = Never, !.i = @ + 1, !.acc = @ + m.v])]
                               ELSE IF f.i \in t.catch
                               THEN stack' = [stack EXCEPT ![s] = Append(Pop(s), [f EXCEPT !.wait = Never, !.i = @ + 1, !.acc = @ + 100 + m.v])]
                               ELSE \* not caught: the node fails with the same exception; answered in the next Run-like step
                                    stack' = [stack EXCEPT ![s] = Append(Pop(s), [f EXCEPT !.wait = Never, !.i = 0 - 7, !.acc = m.v])]
                    /\ UNCHANGED <<seqctr, ran, tree>>

\* a node whose child failed uncaught propagates that failure
Propagate(s) == /\ stack[s] # <<>> /\ Top(s).kind = "node" /\ Top(s).wait = Never /\ Top(s).i = 0 - 7
                /\ Finish(s, FALSE, Top(s).acc)
                /\ UNCHANGED <<seqctr, ran, result, tree>>

RunOk(s) == stack[s] # <<>> /\ Top(s).kind = "node" /\ Top(s).i # 0 - 7 /\ Run(s)
Next == (\E s \in S : RunOk(s) \/ Serve(s) \/ Propagate(s)) \/ (result.done /\ UNCHANGED vars)
Spec == Init /\ [][Next]_vars

\* ---------------------------------------------------------------- C01
Finished == result.done
SameAnswer == Finished => LET e == EvalLocal(tree) IN result.ok = e.ok /\ result.v = e.v
ExactlyOnce == /\ \A p \in DOMAIN ran : ran[p] = 1
               /\ Finished => DOMAIN ran = EvalLocal(tree).ran
QuietAtEnd == Finished => \A s \in S : chan[s] = <<>> /\ stack[s] = <<>>
StackBounded == \A s \in S : Len(stack[s]) <= 4

Export == IF "OUT_FILE" \in DOMAIN IOEnv
          THEN ndJsonSerialize(IOEnv.OUT_FILE, SetToSeq({[tree |-> t, ok |-> EvalLocal(t).ok, v |-> EvalLocal(t).v,
                                                          ran |-> SetToSeq(EvalLocal(t).ran)] : t \in Trees}))
          ELSE TRUE
ASSUME Export
=========================================================================================
