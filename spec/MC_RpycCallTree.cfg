SPECIFICATION Spec
INVARIANT SameAnswer
INVARIANT ExactlyOnce
INVARIANT QuietAtEnd
INVARIANT StackBounded
