INIT TInit
NEXT TNext
CONSTANTS
  Kinds = {"list", "dict", "set", "deque", "gen", "file", "bytearray", "user"}
  Configs = {"classic"}
