SPECIFICATION Spec
CONSTANTS
  Threads <- MCThreads
  Msgs <- MCMsgs
  Parts <- MCParts
  RePool <- MCRePool
  MaxDepth = 2
INVARIANT Mutex
INVARIANT Contiguous
INVARIANT InIssueOrder
INVARIANT Accounted
INVARIANT NoStranded
INVARIANT PopSafe
PROPERTY Termination
