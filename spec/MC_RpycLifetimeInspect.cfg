SPECIFICATION Spec
CONSTANTS
  K = {"k1", "k2"}
  MaxBox = 3
  MaxQ = 3
INVARIANT Accounting
INVARIANT Safety
INVARIANT NoError
INVARIANT LeakFree
INVARIANT ClosedClean
INVARIANT AnswersUnderWay
