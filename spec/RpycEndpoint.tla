----------------------------------- MODULE RpycEndpoint -----------------------------------
(* C08 as seen at ONE end of a connection, at its Channel: the messages this end sends and receives, in wire order.        *)
(* It is the projection of RpycLedger onto one side, stated so that it can be checked against recordings of executions      *)
(* nobody scheduled - the repository's own test suite - without knowing what the other end did:                            *)
(*   - the sequence numbers of the requests this end sends are never reused;                                               *)
(*   - every response it receives answers a request it has sent and that has not been answered yet;                        *)
(*   - every response it sends answers a request it has received and not answered yet (exactly one response per request);  *)
(*   - a request it receives carries a sequence number its peer has not used before.                                       *)
(* Code: Connection._send_request / _dispatch_request / _dispatch_reply / _dispatch_exception, _seqcounter.                 *)
EXTENDS Naturals, FiniteSets, TLC
CONSTANT MaxSeq
VARIABLES sentReq,      \* sequence numbers of requests this end has sent
          openOut,      \* ... of those, the ones not answered yet
          gotReq,       \* sequence numbers of requests received
          openIn,       \* ... of those, the ones this end has not answered yet
          bad           \* the first rule a message broke ("" while none did)
evars == <<sentReq, openOut, gotReq, openIn, bad>>
EInit == sentReq = {} /\ openOut = {} /\ gotReq = {} /\ openIn = {} /\ bad = ""
SendReq(s) == /\ s \notin sentReq
              /\ sentReq' = sentReq \cup {s} /\ openOut' = openOut \cup {s} /\ UNCHANGED <<gotReq, openIn, bad>>
RecvResp(s) == /\ s \in openOut
               /\ openOut' = openOut \ {s} /\ UNCHANGED <<sentReq, gotReq, openIn, bad>>
RecvReq(s) == /\ s \notin gotReq
              /\ gotReq' = gotReq \cup {s} /\ openIn' = openIn \cup {s} /\ UNCHANGED <<sentReq, openOut, bad>>
SendResp(s) == /\ s \in openIn
               /\ openIn' = openIn \ {s} /\ UNCHANGED <<sentReq, openOut, gotReq, bad>>
ENext == \E s \in 0..MaxSeq : SendReq(s) \/ RecvResp(s) \/ RecvReq(s) \/ SendResp(s)
ESpec == EInit /\ [][ENext]_evars
\* consequences checked in every state of a validated recording
OutSubset == openOut \subseteq sentReq
InSubset == openIn \subseteq gotReq
===========================================================================================
