SPECIFICATION Spec
CONSTANTS
  MaxReq = 3
INVARIANT HookAtMostOnce
INVARIANT ClosedIsClean
INVARIANT HookMeansClosed
INVARIANT NoInventedValue
INVARIANT BlockedIsPending
INVARIANT NoHang
INVARIANT PeerNotices
CHECK_DEADLOCK FALSE
