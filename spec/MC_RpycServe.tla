------------------------------- MODULE MC_RpycServe -------------------------------
EXTENDS RpycServe
MC2Clients == {"t1", "t2"}
MC2Reqs == [t \in MC2Clients |-> IF t = "t1" THEN <<"a1">> ELSE <<"b1">>]
MC2ReqsB == [t \in MC2Clients |-> IF t = "t1" THEN <<"a1", "a2">> ELSE <<"b1">>]
MC3Clients == {"t1", "t2", "t3"}
MC3Reqs == [t \in MC3Clients |-> IF t = "t1" THEN <<"a1">> ELSE IF t = "t2" THEN <<"b1">> ELSE <<"c1">>]
MCPool1 == {"p1"}
MCPool2 == {"p1", "p2"}
MC1Clients == {"t1"}
MC1Reqs == [t \in MC1Clients |-> <<"a1", "a2">>]
===================================================================================
