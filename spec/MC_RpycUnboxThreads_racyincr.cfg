SPECIFICATION Spec
CONSTANTS
  Servers = {"s1", "s2"}
  OneLookup = TRUE
  LockedIncr = FALSE
INVARIANT NothingLost
INVARIANT Accounting
CHECK_DEADLOCK FALSE
