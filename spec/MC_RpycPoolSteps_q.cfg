SPECIFICATION Spec
CONSTANTS
  Clients = {"c1", "c2"}
  NFd = 2
  Identity = TRUE
  Recheck = TRUE
INVARIANT GoodNeverCut
INVARIANT NothingLeftBehind
INVARIANT TableTruthful
CHECK_DEADLOCK FALSE
