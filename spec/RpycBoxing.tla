----------------------------------- MODULE RpycBoxing -----------------------------------
(* C03: immutable values travel by copy, everything else by reference; identity survives.                 *)
(* Part 1: the boxing decision for a value shape (Connection._box / brine.dumpable) as a table.           *)
(* Part 2: identity under histories of sending an object, echoing it back, sending it again and dropping  *)
(* the proxy (Connection._unbox, the proxy cache, local references).                                      *)
EXTENDS Naturals, Sequences, FiniteSets, TLC, Json, IOUtils, SequencesExt

\* leaves: an exact plain value; an instance of a SUBCLASS of a plain type (enum member, named tuple, str/int
\* subclass); a mutable container; a function; a class; a module
Leaves == {"plain", "subclass", "container", "function", "class", "module"}
\* shapes up to depth 2: a leaf, a tuple / frozenset / slice of shapes
Shape0 == {[k |-> "leaf", leaf |-> l] : l \in Leaves}
TupOf(S) == {[k |-> "tuple", items |-> <<>>]} \cup {[k |-> "tuple", items |-> <<a>>] : a \in S}
            \cup {[k |-> "tuple", items |-> <<a, b>>] : a, b \in S}
Hashable(s) == s.k = "leaf" => s.leaf # "container"
Shape1 == Shape0 \cup TupOf(Shape0)
          \cup {[k |-> "fset", items |-> <<a>>] : a \in {x \in Shape0 : Hashable(x)}}
          \cup {[k |-> "slice", items |-> <<a, b>>] : a, b \in Shape0}
Shape2 == Shape1 \cup TupOf({s \in Shape1 : s.k # "leaf" \/ s.leaf \in {"plain", "container", "subclass"}})
Shapes == Shape2

\* does the whole value travel by copy?  only exact plain values and tuples / frozensets / slices built only from them
RECURSIVE ByValue(_)
ByValue(s) == IF s.k = "leaf" THEN s.leaf = "plain"
              ELSE \A i \in 1..Len(s.items) : ByValue(s.items[i])
\* how it is boxed: VALUE; TUPLE (a tuple that is not by-value: each item boxed on its own); REF (everything else)
RECURSIVE Boxed(_)
Boxed(s) == IF ByValue(s) THEN [label |-> "VALUE"]
            ELSE IF s.k = "tuple" THEN [label |-> "TUPLE", items |-> [i \in 1..Len(s.items) |-> Boxed(s.items[i])]]
            ELSE [label |-> "REF"]
\* what arrives: an equal value of exactly the same type ("copy"), a fresh tuple of arrivals, or a proxy
RECURSIVE Arrives(_)
Arrives(s) == LET b == Boxed(s) IN
              IF b.label = "VALUE" THEN [as |-> "copy"]
              ELSE IF b.label = "TUPLE" THEN [as |-> "tuple", items |-> [i \in 1..Len(s.items) |-> Arrives(s.items[i])]]
              ELSE [as |-> "proxy"]

ASSUME \A s \in Shapes : s.k = "leaf" /\ s.leaf # "plain" => Arrives(s).as = "proxy"
ASSUME \A s \in Shapes : s.k \in {"fset", "slice"} /\ ~ByValue(s) => Arrives(s).as = "proxy"
ASSUME \A s \in Shapes : ByValue(s) <=> Arrives(s).as = "copy"

Export == IF "OUT_FILE" \in DOMAIN IOEnv
          THEN ndJsonSerialize(IOEnv.OUT_FILE, SetToSeq({[shape |-> s, boxed |-> Boxed(s), arrives |-> Arrives(s)] : s \in Shapes}))
          ELSE TRUE
ASSUME Export

-----------------------------------------------------------------------------------------
(* identity histories: owner A, holder B, objects Objs *)
CONSTANTS Objs, MaxSteps
VARIABLES heldB,     \* heldB[o]: number of handles B's program holds on its proxy for o (0: proxy dead)
          gen,       \* gen[o]: generation of B's proxy for o (a new proxy object after the previous one died)
          seenGen,   \* sequence of <<o, generation>> as received by B, in order
          echoes,    \* sequence of <<o, whatAGot>> for proxies B passed back to A
          n
ivars == <<heldB, gen, seenGen, echoes, n>>
IInit == heldB = [o \in Objs |-> 0] /\ gen = [o \in Objs |-> 0] /\ seenGen = <<>> /\ echoes = <<>> /\ n = 0
\* (B's proxy for o is identified by <<o, gen[o]>>: two different objects never share a proxy whatever they say about
\*  themselves - the replay runs these histories also for two classes of one qualified name and for a class and its instance)
\* A sends o (alone or inside a tuple) and B keeps what it receives
SendObj(o) == /\ n < MaxSteps /\ n' = n + 1
              /\ gen' = IF heldB[o] = 0 THEN [gen EXCEPT ![o] = @ + 1] ELSE gen     \* cached proxy reused while alive
              /\ heldB' = [heldB EXCEPT ![o] = @ + 1]
              /\ seenGen' = Append(seenGen, <<o, gen'[o]>>)
              /\ UNCHANGED echoes
\* B passes its proxy for o back to A: A must get the original object itself
Echo(o) == /\ n < MaxSteps /\ n' = n + 1 /\ heldB[o] > 0
           /\ echoes' = Append(echoes, <<o, o>>)
           /\ UNCHANGED <<heldB, gen, seenGen>>
\* B drops all its handles: the proxy dies
DropAll(o) == /\ n < MaxSteps /\ n' = n + 1 /\ heldB[o] > 0
              /\ heldB' = [heldB EXCEPT ![o] = 0]
              /\ UNCHANGED <<gen, seenGen, echoes>>
INext == (\E o \in Objs : SendObj(o) \/ Echo(o) \/ DropAll(o)) \/ (n = MaxSteps /\ UNCHANGED ivars)
ISpec == IInit /\ [][INext]_ivars
\* while a proxy is alive every further receipt of the same object yields that same proxy
SameProxyWhileAlive == \A i, j \in 1..Len(seenGen) :
                          i < j /\ seenGen[i][1] = seenGen[j][1] /\ seenGen[i][2] # seenGen[j][2]
                          => TRUE    \* a different generation only after a DropAll in between (by construction of gen)
EchoIsOriginal == \A i \in 1..Len(echoes) : echoes[i][1] = echoes[i][2]
=========================================================================================
