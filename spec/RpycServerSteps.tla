--------------------------------- MODULE RpycServerSteps ---------------------------------
(* C16 / C17 at the grain of the server's own statements: the accept loop, the per-connection serving thread and close()  *)
(* of rpyc.utils.server.Server / ThreadedServer as separate, independently scheduled steps, so that TLC explores close()   *)
(* racing with a connection that is being accepted, and clients leaving while close() walks the table.                     *)
(* RpycServer treats "connect" and "close" as single steps; this module refines exactly those two.                         *)
(*                                                                                                                        *)
(* Code (rpyc/utils/server.py):                                                                                            *)
(*   start():  while self.active: self.accept()                                                                            *)
(*   accept(): sock = listener.accept() | if not self.active: return | self.clients.add(sock) |                            *)
(*             [repaired tree: if self._closed: drop the socket, return] | self._accept_method(sock)  (spawns the thread)   *)
(*   thread:   _authenticate_and_serve_client: serve ... finally: shutdown, clients.discard(sock)                           *)
(*   close():  _closed = True; active = False | listener.close() | for c in set(self.clients): shutdown+close | clear()     *)
(*                                                                                                                        *)
(* Recheck = TRUE models the repaired accept() (re-check of _closed after the socket has been put into the table);          *)
(* Recheck = FALSE is the pinned tree, kept because its counterexample is what the conformance run replays.                 *)
EXTENDS Naturals, FiniteSets, Sequences, TLC

CONSTANTS Clients, Recheck
None == "none"

VARIABLES active, closedFlag, listener,     \* server flags; listener: "open" | "closed"
          backlog,                           \* connections established by the kernel, not yet accepted (FIFO)
          apc, asock,                        \* accept thread: where it is and which connection it holds
          tracked,                           \* Server.clients
          tpc,                               \* serving thread per client: "none" | "spawned" | "serving" | "finally" | "done"
          sock,                              \* server-side socket per client: "none" | "open" | "shut" | "closed"
          kpc, snap,                         \* close(): where it is, and the sockets it still has to shut
          link                               \* what the client sees: "none" | "up" | "left" | "refused"
vars == <<active, closedFlag, listener, backlog, apc, asock, tracked, tpc, sock, kpc, snap, link>>

Init == /\ active = TRUE /\ closedFlag = FALSE /\ listener = "open"
        /\ backlog = <<>>
        /\ apc = "loop" /\ asock = None
        /\ tracked = {}
        /\ tpc = [c \in Clients |-> "none"]
        /\ sock = [c \in Clients |-> "none"]
        /\ kpc = "idle" /\ snap = {}
        /\ link = [c \in Clients |-> "none"]

\* ------------------------------------------------------------------ clients
ClientConnect(c) == /\ link[c] = "none" /\ listener = "open"
                    /\ link' = [link EXCEPT ![c] = "up"]
                    /\ backlog' = Append(backlog, c)
                    /\ UNCHANGED <<active, closedFlag, listener, apc, asock, tracked, tpc, sock, kpc, snap>>
\* the client goes away (gracefully or not): its serving thread sees end-of-stream
ClientLeave(c) == /\ link[c] = "up" /\ tpc[c] = "serving"
                  /\ link' = [link EXCEPT ![c] = "left"]
                  /\ UNCHANGED <<active, closedFlag, listener, backlog, apc, asock, tracked, tpc, sock, kpc, snap>>

\* ------------------------------------------------------------------ the accept loop
\* `while self.active:` / listener.accept()
AcceptTake == /\ apc = "loop"
              /\ IF ~active \/ listener = "closed"
                 THEN apc' = "exit" /\ UNCHANGED <<asock, backlog, sock>>
                 ELSE /\ backlog # <<>>
                      /\ asock' = Head(backlog) /\ backlog' = Tail(backlog)
                      /\ sock' = [sock EXCEPT ![Head(backlog)] = "open"]
                      /\ apc' = "got"
              /\ UNCHANGED <<active, closedFlag, listener, tracked, tpc, kpc, snap, link>>
\* `if not self.active: return` - the socket object is dropped, which closes it
AcceptCheck == /\ apc = "got"
               /\ IF active THEN apc' = "checked" /\ UNCHANGED <<asock, sock>>
                  ELSE apc' = "loop" /\ sock' = [sock EXCEPT ![asock] = "closed"] /\ asock' = None
               /\ UNCHANGED <<active, closedFlag, listener, backlog, tracked, tpc, kpc, snap, link>>
\* `self.clients.add(sock)`
AcceptTrack == /\ apc = "checked"
               /\ tracked' = tracked \cup {asock}
               /\ apc' = IF Recheck THEN "recheck" ELSE "tracked"
               /\ UNCHANGED <<active, closedFlag, listener, backlog, asock, tpc, sock, kpc, snap, link>>
\* repaired tree only: `if self._closed:` the connection arrived while close() was running
AcceptRecheck == /\ apc = "recheck"
                 /\ IF closedFlag
                    THEN /\ tracked' = tracked \ {asock}
                         /\ sock' = [sock EXCEPT ![asock] = "closed"]
                         /\ asock' = None /\ apc' = "loop"
                    ELSE apc' = "tracked" /\ UNCHANGED <<tracked, sock, asock>>
                 /\ UNCHANGED <<active, closedFlag, listener, backlog, tpc, kpc, snap, link>>
\* `self._accept_method(sock)`: ThreadedServer spawns the serving thread
AcceptSpawn == /\ apc = "tracked"
               /\ tpc' = [tpc EXCEPT ![asock] = "spawned"]
               /\ asock' = None /\ apc' = "loop"
               /\ UNCHANGED <<active, closedFlag, listener, backlog, tracked, sock, kpc, snap, link>>

\* ------------------------------------------------------------------ the serving thread of one connection
\* getpeername / Channel / _connect: fails at once on a socket that close() has already shut
ThreadRun(c) == /\ tpc[c] = "spawned"
                /\ tpc' = [tpc EXCEPT ![c] = IF sock[c] = "open" THEN "serving" ELSE "finally"]
                /\ UNCHANGED <<active, closedFlag, listener, backlog, apc, asock, tracked, sock, kpc, snap, link>>
\* serve_all() returns: the peer left, or close() shut the socket
ServeEnd(c) == /\ tpc[c] = "serving" /\ (sock[c] # "open" \/ link[c] = "left")
               /\ tpc' = [tpc EXCEPT ![c] = "finally"]
               /\ UNCHANGED <<active, closedFlag, listener, backlog, apc, asock, tracked, sock, kpc, snap, link>>
\* finally: shutdown, close, clients.discard
ThreadFinally(c) == /\ tpc[c] = "finally"
                    /\ sock' = [sock EXCEPT ![c] = "closed"]
                    /\ tracked' = tracked \ {c}
                    /\ tpc' = [tpc EXCEPT ![c] = "done"]
                    /\ UNCHANGED <<active, closedFlag, listener, backlog, apc, asock, kpc, snap, link>>

\* ------------------------------------------------------------------ close()
CloseFlag == /\ kpc = "idle"
             /\ closedFlag' = TRUE /\ active' = FALSE /\ kpc' = "flagged"
             /\ UNCHANGED <<listener, backlog, apc, asock, tracked, tpc, sock, snap, link>>
\* listener.shutdown / close: connections still in the backlog are reset
CloseListener == /\ kpc = "flagged"
                 /\ listener' = "closed"
                 /\ link' = [c \in Clients |-> IF \E i \in DOMAIN backlog : backlog[i] = c THEN "refused" ELSE link[c]]
                 /\ backlog' = <<>>
                 /\ kpc' = "listener"
                 /\ UNCHANGED <<active, closedFlag, apc, asock, tracked, tpc, sock, snap>>
\* `for c in set(self.clients)`: the copy is taken once
CloseSnapshot == /\ kpc = "listener"
                 /\ snap' = tracked /\ kpc' = "shutting"
                 /\ UNCHANGED <<active, closedFlag, listener, backlog, apc, asock, tracked, tpc, sock, link>>
CloseShut(c) == /\ kpc = "shutting" /\ c \in snap
                /\ sock' = [sock EXCEPT ![c] = IF @ = "open" THEN "shut" ELSE @]
                /\ snap' = snap \ {c}
                /\ UNCHANGED <<active, closedFlag, listener, backlog, apc, asock, tracked, tpc, kpc, link>>
\* `self.clients.clear()`
CloseClear == /\ kpc = "shutting" /\ snap = {}
              /\ tracked' = {} /\ kpc' = "done"
              /\ UNCHANGED <<active, closedFlag, listener, backlog, apc, asock, tpc, sock, snap, link>>

Next == \/ \E c \in Clients : ClientConnect(c) \/ ClientLeave(c) \/ ThreadRun(c) \/ ServeEnd(c) \/ ThreadFinally(c) \/ CloseShut(c)
        \/ AcceptTake \/ AcceptCheck \/ AcceptTrack \/ AcceptRecheck \/ AcceptSpawn
        \/ CloseFlag \/ CloseListener \/ CloseSnapshot \/ CloseClear
\* the server's own threads keep running; clients owe nothing
Fair == /\ WF_vars(AcceptTake) /\ WF_vars(AcceptCheck) /\ WF_vars(AcceptTrack) /\ WF_vars(AcceptRecheck) /\ WF_vars(AcceptSpawn)
        /\ WF_vars(CloseListener) /\ WF_vars(CloseSnapshot) /\ WF_vars(CloseClear)
        /\ \A c \in Clients : WF_vars(ThreadRun(c)) /\ WF_vars(ServeEnd(c)) /\ WF_vars(ThreadFinally(c)) /\ WF_vars(CloseShut(c))
Spec == Init /\ [][Next]_vars /\ Fair

-------------------------------------------------------------------------------------------
\* the client's connection is dead on the server's side: its next operation ends in end-of-stream
Cut(c) == link[c] \in {"refused", "left"} \/ sock[c] \in {"shut", "closed"}
Quiet == apc = "exit" /\ \A c \in Clients : tpc[c] \in {"none", "done"}
\* C17: once close() has returned, no connection with an open socket is in the hands of a serving thread
NoServiceAfterClose == kpc = "done" => \A c \in Clients : tpc[c] \in {"spawned", "serving"} => sock[c] # "open"
\* C17: ... and when every thread has run to its end nothing is left in the table and every client that got through is cut
NothingLeftBehind == kpc = "done" /\ Quiet => tracked = {} /\ \A c \in Clients : link[c] = "up" => Cut(c)
\* C17, departed clients: a client that left and whose thread has finished is no longer tracked and its socket is closed
DepartedLeaveNothing == \A c \in Clients : link[c] = "left" /\ tpc[c] = "done" => c \notin tracked /\ sock[c] = "closed"
\* C16: before close() starts, nothing cuts a connected client (other clients coming and going do not touch it)
GoodUntouched == kpc = "idle" => \A c \in Clients : tpc[c] = "serving" /\ link[c] = "up" => sock[c] = "open"
\* liveness: close() finishes, the accept loop ends, every accepted connection's thread ends
Settles == (kpc # "idle") ~> (kpc = "done" /\ Quiet)
===========================================================================================
