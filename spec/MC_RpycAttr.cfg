SPECIFICATION HSpec
CONSTANTS
  MaxConns = 3
  Kinds = {"default", "classic", "public"}
INVARIANT Isolation
