SPECIFICATION HSpec
CONSTANTS
  MaxConns = 3
  Kinds = {"default", "classic", "public", "classic_shared"}
INVARIANT Isolation
