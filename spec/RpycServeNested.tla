------------------------------ MODULE RpycServeNested ------------------------------
(* Threads sharing ONE Connection whose replies carry references: taking such a reply apart needs a round trip of its  *)
(* own (`_unbox` -> `_netref_factory` -> `sync_request(HANDLE_INSPECT)`), made by the thread that is dispatching the   *)
(* reply, INSIDE the dispatch, i.e. serve() is re-entered on the same thread while the outer reply is still counted as *)
(* "in transit".  RpycServe has no nesting; this module has a stack of activations per thread and follows the repaired  *)
(* serve() / AsyncResult.wait() / Connection._reply_published() at the grain of their reads and writes of shared state  *)
(* (entering and leaving `with self._recv_event` is folded into the operation done under it).                           *)
(* Code: Connection.serve, _dispatch, _unbox, _netref_factory, _seq_request_callback, _reply_published, _send           *)
(* (rpyc/core/protocol.py); AsyncResult.wait, __call__, _has_arrived (rpyc/core/async_.py).                             *)
(*                                                                                                                     *)
(* pc of an activation (label <-> operation):                                                                          *)
(*   start      AsyncResult(), seq, callback registered, frame queued, try send-lock                                    *)
(*   c_write    Channel.send of a queued frame under the send lock                                                      *)
(*   w_check    wait(): loop header reads _is_ready         w_final   wait(): the read after the loop                    *)
(*   precheck   serve(): until() under the condition's lock                                                             *)
(*   trylock    serve(): _recvlock.acquire(False); on success the look at the replies in transit of OTHER threads;       *)
(*              on failure / others in transit: (release and) enter the condition wait - all under the condition's lock  *)
(*   blocked    in the condition wait                                                                                    *)
(*   recheck    serve(): until() again, holding the receive lock                                                         *)
(*   recv       poll + Channel.recv; a reply is appended to the replies in transit before the lock is released           *)
(*   release    _recvlock.release()              notify    with cond: notify_all()                                       *)
(*   dispatch   _dispatch: decode; _unbox - a reference of an unknown class starts the nested round trip (push)          *)
(*   popcb      _seq_request_callback: pop the callback registered under the seq                                         *)
(*   d_expired  AsyncResult.__call__: `if self.expired`   publish   _is_ready = True                                     *)
(*   published  _reply_published(): with cond: take the reply off the replies in transit, notify_all()                   *)
EXTENDS Naturals, Sequences, FiniteSets, TLC

CONSTANTS Clients,     \* client threads
          Req,         \* Req[t] : the request thread t issues
          Nested,      \* requests whose reply carries a reference to an object of a class the holder has not seen
          InspOf,      \* InspOf[r] : the INSPECT request made while the reply of r is taken apart
          Pool,        \* threads that only serve: `while True: serve(None)` (the workers of Connection.serve_threaded())
          Own          \* TRUE: a thread ignores its own entries among the replies in transit (the code);
                       \* FALSE: it does not (the first version of the repair; kept for the counterexample)

None == "none"
NoPool == {}
Threads == Clients \cup Pool
Tops == {Req[t] : t \in Clients}
AllReqs == Tops \cup {InspOf[r] : r \in Nested}

VARIABLES stack,       \* stack[t] : sequence of activations [pc, want, data]; the last one is running
          wr, sendq, sendlock,
          sent, replied, chan,
          recvlock, waiters, notified,
          condlock,    \* holder of the condition's lock across `until()` + try-lock (the other blocks under it are one step each)
          transit,     \* sequence of thread names: self._replies_in_transit
          cb, ready, dispatched, inspected

vars == <<stack, wr, sendq, sendlock, sent, replied, chan, recvlock, waiters, notified, condlock, transit, cb, ready, dispatched, inspected>>

Frame(pc, want) == [pc |-> pc, want |-> want, data |-> None]
Init == /\ stack = [t \in Threads |-> <<Frame("start", IF t \in Clients THEN Req[t] ELSE None)>>]
        /\ wr = [t \in Threads |-> None] /\ sendq = <<>> /\ sendlock = None
        /\ sent = {} /\ replied = {} /\ chan = <<>>
        /\ recvlock = None /\ waiters = {} /\ notified = {} /\ condlock = None
        /\ transit = <<>>
        /\ cb = {} /\ ready = [r \in AllReqs |-> FALSE] /\ dispatched = [r \in AllReqs |-> 0] /\ inspected = {}

Depth(t) == Len(stack[t])
Cur(t) == stack[t][Depth(t)]
Pc(t) == Cur(t).pc
Goto(t, pc) == stack' = [stack EXCEPT ![t][Depth(t)].pc = pc]
With(t, f) == stack' = [stack EXCEPT ![t][Depth(t)] = f]

\* ------------------------------------------------------------------ sending (as RpycServe / RpycSend, one frame per step)
\* AsyncResult(), sequence number, callback registered, frame queued, try-lock of the send lock: no operation on a shared
\* object separates them.  stk: the thread's stack, whose last activation is the one issuing the request for `w`.
SetPc(stk, pc) == [stk EXCEPT ![Len(stk)].pc = pc]
Issue(t, w, stk) == /\ cb' = cb \cup {w}
                    /\ IF sendlock = None
                       THEN /\ sendlock' = t
                            /\ wr' = [wr EXCEPT ![t] = Head(Append(sendq, w))]
                            /\ sendq' = Tail(Append(sendq, w))
                            /\ stack' = [stack EXCEPT ![t] = SetPc(stk, "c_write")]
                       ELSE /\ sendq' = Append(sendq, w)
                            /\ stack' = [stack EXCEPT ![t] = SetPc(stk, "w_check")]
                            /\ UNCHANGED <<sendlock, wr>>

\* where serve() returns to: the wait loop of the request, or - for a thread that only serves - the next serve(None)
Back(t) == IF Cur(t).want = None THEN "loop" ELSE "w_check"

Start(t) == /\ Pc(t) = "start"
            /\ IF Cur(t).want = None
               THEN Goto(t, "loop") /\ UNCHANGED <<cb, wr, sendq, sendlock>>
               ELSE Issue(t, Cur(t).want, stack[t])
            /\ UNCHANGED <<sent, replied, chan, recvlock, waiters, notified, condlock, transit, ready, dispatched, inspected>>

\* a serving-only thread enters serve(None): `with self._recv_event:` (no readiness test - it waits for nothing)
PoolEnter(t) == /\ Pc(t) = "loop" /\ condlock = None
                /\ condlock' = t
                /\ Goto(t, "trylock")
                /\ UNCHANGED <<wr, sendq, sendlock, sent, replied, chan, recvlock, waiters, notified, transit, cb, ready, dispatched, inspected>>

CWrite(t) == /\ Pc(t) = "c_write"
             /\ sent' = sent \cup {wr[t]}
             /\ IF sendq # <<>>
                THEN /\ wr' = [wr EXCEPT ![t] = Head(sendq)] /\ sendq' = Tail(sendq) /\ UNCHANGED <<stack, sendlock>>
                ELSE /\ wr' = [wr EXCEPT ![t] = None] /\ sendlock' = None /\ Goto(t, "w_check") /\ UNCHANGED sendq
             /\ UNCHANGED <<replied, chan, recvlock, waiters, notified, condlock, transit, cb, ready, dispatched, inspected>>

\* ------------------------------------------------------------------ AsyncResult.wait
U == <<wr, sendq, sendlock, sent, replied>>
UC == <<U, condlock>>
WCheck(t) == /\ Pc(t) = "w_check"
             /\ Goto(t, IF ready[Cur(t).want] THEN "w_final" ELSE "precheck")
             /\ UNCHANGED <<UC, chan, recvlock, waiters, notified, transit, cb, ready, dispatched, inspected>>

\* the result is there: the bottom activation is finished; a nested one (the INSPECT round trip) returns into the dispatch
\* that started it, which goes on with the callback of the outer reply
WFinal(t) == /\ Pc(t) = "w_final"
             /\ IF Depth(t) = 1
                THEN Goto(t, "done") /\ UNCHANGED inspected
                ELSE /\ stack' = [stack EXCEPT ![t] = [i \in 1..(Depth(t) - 1) |->
                                     IF i = Depth(t) - 1 THEN [stack[t][i] EXCEPT !.pc = "popcb"] ELSE stack[t][i]]]
                     /\ inspected' = inspected \cup {Cur(t).want}
             /\ UNCHANGED <<UC, chan, recvlock, waiters, notified, transit, cb, ready, dispatched>>

\* ------------------------------------------------------------------ serve(until=...)
\* `with self._recv_event:` is entered; until() is evaluated under it
Precheck(t) == /\ Pc(t) = "precheck" /\ condlock = None
               /\ IF ready[Cur(t).want]
                  THEN Goto(t, "w_check") /\ UNCHANGED condlock             \* return False: the block is left again
                  ELSE Goto(t, "trylock") /\ condlock' = t
               /\ UNCHANGED <<U, chan, recvlock, waiters, notified, transit, cb, ready, dispatched, inspected>>

OthersInTransit(t) == IF Own THEN \E i \in 1..Len(transit) : transit[i] # t ELSE transit # <<>>

\* still under the condition's lock; either way the lock is given up at the end (by leaving the block or by waiting)
TryLock(t) == /\ Pc(t) = "trylock"
              /\ condlock' = None
              /\ IF recvlock = None /\ ~OthersInTransit(t)
                 THEN /\ recvlock' = t /\ UNCHANGED <<waiters, notified>>
                      /\ Goto(t, IF Cur(t).want = None THEN "recv" ELSE "recheck")      \* (no second look without `until`)
                 ELSE \* held by another thread, or taken and released again because a reply of another thread is in transit
                      /\ waiters' = waiters \cup {t} /\ notified' = notified \ {t}
                      /\ Goto(t, "blocked") /\ UNCHANGED recvlock
              /\ UNCHANGED <<U, chan, transit, cb, ready, dispatched, inspected>>

Blocked(t) == /\ Pc(t) = "blocked" /\ t \in notified /\ condlock = None
              /\ notified' = notified \ {t}
              /\ Goto(t, Back(t))
              /\ UNCHANGED <<UC, chan, recvlock, waiters, transit, cb, ready, dispatched, inspected>>

Recheck(t) == /\ Pc(t) = "recheck"
              /\ Goto(t, IF Cur(t).want # None /\ ready[Cur(t).want] THEN "release" ELSE "recv")
              /\ UNCHANGED <<UC, chan, recvlock, waiters, notified, transit, cb, ready, dispatched, inspected>>

Recv(t) == /\ Pc(t) = "recv" /\ chan # <<>>
           /\ With(t, [Cur(t) EXCEPT !.pc = "release", !.data = Head(chan)])
           /\ chan' = Tail(chan)
           /\ transit' = Append(transit, t)
           /\ UNCHANGED <<UC, recvlock, waiters, notified, cb, ready, dispatched, inspected>>

Release(t) == /\ Pc(t) = "release"
              /\ recvlock' = None
              /\ Goto(t, "notify")
              /\ UNCHANGED <<UC, chan, waiters, notified, transit, cb, ready, dispatched, inspected>>

Notify(t) == /\ Pc(t) = "notify" /\ condlock = None
             /\ notified' = notified \cup waiters /\ waiters' = {}
             /\ Goto(t, IF Cur(t).data = None THEN Back(t) ELSE "dispatch")
             /\ UNCHANGED <<UC, chan, recvlock, transit, cb, ready, dispatched, inspected>>

\* ------------------------------------------------------------------ _dispatch of a reply
Dispatch(t) == /\ Pc(t) = "dispatch"
               /\ LET m == Cur(t).data IN
                  /\ dispatched' = [dispatched EXCEPT ![m] = @ + 1]
                  /\ IF m \in Nested /\ InspOf[m] \notin inspected
                     THEN \* _unbox meets a reference of an unknown class: sync_request(HANDLE_INSPECT) on this very thread,
                          \* issued at once (nothing shared is touched between the dispatch and the request going out)
                          Issue(t, InspOf[m], Append(SetPc(stack[t], "inspecting"), Frame("start", InspOf[m])))
                     ELSE Goto(t, "popcb") /\ UNCHANGED <<cb, wr, sendq, sendlock>>
               /\ UNCHANGED <<sent, replied, condlock, chan, recvlock, waiters, notified, transit, ready, inspected>>

PopCb(t) == /\ Pc(t) = "popcb"
            /\ IF Cur(t).data \in cb
               THEN cb' = cb \ {Cur(t).data} /\ Goto(t, "d_expired")
               ELSE UNCHANGED cb /\ Goto(t, "published")        \* nobody waits for it: serve() itself ends the transit
            /\ UNCHANGED <<UC, chan, recvlock, waiters, notified, transit, ready, dispatched, inspected>>

DExpired(t) == /\ Pc(t) = "d_expired"
               /\ Goto(t, "publish")
               /\ UNCHANGED <<UC, chan, recvlock, waiters, notified, transit, cb, ready, dispatched, inspected>>

Publish(t) == /\ Pc(t) = "publish"
              /\ ready' = [ready EXCEPT ![Cur(t).data] = TRUE]
              /\ Goto(t, "published")
              /\ UNCHANGED <<UC, chan, recvlock, waiters, notified, transit, cb, dispatched, inspected>>

\* remove ONE entry of this thread
RemoveOne(s, t) == LET i == CHOOSE j \in 1..Len(s) : s[j] = t
                   IN [k \in 1..(Len(s) - 1) |-> IF k < i THEN s[k] ELSE s[k + 1]]
Published(t) == /\ Pc(t) = "published" /\ condlock = None
                /\ transit' = RemoveOne(transit, t)
                /\ notified' = notified \cup waiters /\ waiters' = {}
                /\ With(t, [Cur(t) EXCEPT !.pc = Back(t), !.data = None])
                /\ UNCHANGED <<UC, chan, recvlock, cb, ready, dispatched, inspected>>

Step(t) == \/ PoolEnter(t) \/ Start(t) \/ CWrite(t) \/ WCheck(t) \/ WFinal(t) \/ Precheck(t) \/ TryLock(t) \/ Blocked(t) \/ Recheck(t)
           \/ Recv(t) \/ Release(t) \/ Notify(t) \/ Dispatch(t) \/ PopCb(t) \/ DExpired(t) \/ Publish(t) \/ Published(t)

PeerReply(r) == /\ r \in sent \ replied
                /\ replied' = replied \cup {r}
                /\ chan' = Append(chan, r)
                /\ UNCHANGED <<stack, wr, sendq, sendlock, sent, recvlock, waiters, notified, condlock, transit, cb, ready, dispatched, inspected>>

AllDone == \A t \in Clients : Pc(t) = "done"
Next == \/ \E t \in Threads : Step(t)
        \/ \E r \in AllReqs : PeerReply(r)
        \/ (AllDone /\ UNCHANGED vars)
Fair == /\ \A t \in Threads : SF_vars(Step(t))
        /\ \A r \in AllReqs : WF_vars(PeerReply(r))
Spec == Init /\ [][Next]_vars /\ Fair

-------------------------------------------------------------------------------------
Holding(t) == Pc(t) \in {"recheck", "recv", "release"}
RecvMutex == /\ \A t \in Threads : Holding(t) => recvlock = t
             /\ Cardinality({t \in Threads : Holding(t)}) <= 1
DispatchedOnce == \A r \in AllReqs : dispatched[r] <= 1
ReplyMatches == \A r \in AllReqs : ready[r] => r \in replied /\ dispatched[r] = 1
\* the replies in transit are exactly the replies received and not yet published, thread by thread
InTransit(t) == Cardinality({i \in 1..Depth(t) : stack[t][i].data # None})
TransitExact == \A t \in Threads : Cardinality({i \in 1..Len(transit) : transit[i] = t}) = InTransit(t)
\* no thread can take a step (time-outs apart); with nothing to come from the peer this is a hang
CanStep(t) == \/ Pc(t) \notin {"done", "blocked", "recv", "inspecting", "precheck", "notify", "published", "loop"}
              \/ Pc(t) \in {"precheck", "notify", "published", "loop"} /\ condlock = None
              \/ Pc(t) = "blocked" /\ t \in notified /\ condlock = None
              \/ Pc(t) = "recv" /\ chan # <<>>
Quiescent == \A t \in Threads : ~CanStep(t)
NothingToCome == sent = replied /\ sendq = <<>>
NoHang == ~(Quiescent /\ NothingToCome /\ ~AllDone)
\* C14 with nesting: nobody is left sleeping for a result that has been published
NoStall == \A t \in Threads : ~(Quiescent /\ Pc(t) \in {"blocked", "recv"} /\ Cur(t).want # None /\ ready[Cur(t).want])
\* a sleeper in the condition wait has somebody who will notify it
WillBeWoken == \A t \in Threads : (Pc(t) = "blocked" /\ t \notin notified) =>
                   \/ recvlock # None
                   \/ transit # <<>>
                   \/ \E u \in Threads : Pc(u) = "notify"
AtTheEnd == (AllDone /\ Quiescent) => /\ transit = <<>> /\ chan = <<>>
                                       /\ (Pool = {} => recvlock = None /\ waiters = {})
Termination == <>AllDone
=====================================================================================
