SPECIFICATION Spec
CONSTANTS
  Clients <- C2
  Req <- R2
  Nested <- NAB
  InspOf <- IAB
  Pool <- P1
  Own = TRUE
CHECK_DEADLOCK FALSE
INVARIANT RecvMutex
INVARIANT DispatchedOnce
INVARIANT ReplyMatches
INVARIANT TransitExact
INVARIANT NoHang
INVARIANT NoStall
INVARIANT WillBeWoken
INVARIANT AtTheEnd
PROPERTY Termination
