------------------------------ MODULE Trace_RpycEndpointRefs ------------------------------
(* per-channel recordings of reference traffic (harness/plugins/record_frames.py) validated against RpycEndpointRefs.       *)
(* A trace is [n, events]; an event is [e: "box" | "del" | "use", k, c]; objects are numbered 1..n by first appearance.      *)
EXTENDS RpycEndpointRefs, Sequences, Json, IOUtils, TLCExt
CONSTANT NTraces
VARIABLES tid, l
Traces == JsonDeserialize(IOEnv.TRACE_FILE)
TraceInit == tid \in 1..NTraces /\ l = 1 /\ cnt = [k \in 1..NObj |-> 0]
TraceNext == /\ l <= Len(Traces[tid].events)
             /\ LET e == Traces[tid].events[l] IN
                  CASE e.e = "box" -> Box(e.k)
                    [] e.e = "del" -> Del(e.k, e.c)
                    [] e.e = "use" -> Use(e.k)
                    [] OTHER -> FALSE
             /\ l' = l + 1 /\ UNCHANGED tid
TraceSpec == TraceInit /\ [][TraceNext]_<<cnt, tid, l>>
Progress == TLCSet(tid, IF TLCGet(tid) < l THEN l ELSE TLCGet(tid))
InitRegs == \A i \in 1..NTraces : TLCSet(i, 0)
ASSUME InitRegs
Report == \A i \in 1..NTraces : PrintT(<<"TRACE", i, TLCGet(i) - 1, Len(Traces[i].events)>>)
===========================================================================================
