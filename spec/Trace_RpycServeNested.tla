---------------------------- MODULE Trace_RpycServeNested ----------------------------
(* Trace validation for RpycServeNested: executions of the real serve() / wait() / _dispatch / _reply_published code      *)
(* with replies that carry references (nested INSPECT round trips), recorded under the deterministic scheduler.         *)
(* Event: [t, op, recvlock] (the receive lock's holder after the step) or [t |-> "peer", r].  Entering and leaving the   *)
(* condition's lock, the condition wait's registration and the first half of a frame read are not events (the           *)
(* specification folds them into the operation next to them); popping the callback table is a step of the               *)
(* specification that the code does not show: it is taken silently, without consuming an event.                         *)
EXTENDS RpycServeNested, Json, IOUtils, TLCExt
CONSTANT NTraces
VARIABLES tid, l

Traces == JsonDeserialize(IOEnv.TRACE_FILE)

TraceInit == /\ Init
             /\ tid \in 1..NTraces
             /\ l = 1

ThreadAct(e) ==
    LET t == e.t IN
    CASE e.op = "start"      -> Start(t)
      [] e.op = "write"      -> CWrite(t)
      [] e.op = "ready?"     -> WCheck(t) \/ WFinal(t) \/ Precheck(t) \/ Recheck(t) \/ DExpired(t)
      [] e.op = "trylock"    -> TryLock(t)
      [] e.op = "wake"       -> Blocked(t)
      [] e.op = "recv"       -> Recv(t)
      [] e.op = "release"    -> Release(t)
      [] e.op = "notify_all" -> Notify(t) \/ Published(t)
      [] e.op = "dispatch"   -> Dispatch(t)
      [] e.op = "set_ready"  -> Publish(t)
      [] OTHER -> FALSE

TraceNext == \/ /\ l <= Len(Traces[tid])
                /\ LET e == Traces[tid][l] IN
                     IF e.t = "peer" THEN PeerReply(e.r)
                     ELSE /\ e.t \in Threads
                          /\ ThreadAct(e)
                          /\ (e.op \in {"trylock", "release", "recv"} /\ e.recvlock # "?") => recvlock' = e.recvlock
                /\ l' = l + 1
                /\ UNCHANGED tid
             \/ /\ \E t \in Threads : PopCb(t)
                /\ UNCHANGED <<tid, l>>
             \/ /\ \E t \in Pool : PoolEnter(t)          \* entering the condition's lock is not an event either
                /\ UNCHANGED <<tid, l>>

TraceSpec == TraceInit /\ [][TraceNext]_<<vars, tid, l>>

Progress == TLCSet(tid, IF TLCGet(tid) < l THEN l ELSE TLCGet(tid))
InitRegs == \A i \in 1..NTraces : TLCSet(i, 0)
ASSUME InitRegs
Report == \A i \in 1..NTraces : PrintT(<<"TRACE", i, TLCGet(i) - 1, Len(Traces[i])>>)
======================================================================================
