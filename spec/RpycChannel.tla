--------------------------------- MODULE RpycChannel ---------------------------------
(* C05: packets arrive whole, in order and unaltered however the transport fragments.                   *)
(* One writer (Channel.send over Stream.write) and one reader (Channel.recv over Stream.read) joined by *)
(* a byte stream that may split every send and recv arbitrarily, report transient timeouts / would-block*)
(* conditions to the reader, and fail.  Code: Channel.send/recv (rpyc/core/channel.py),                 *)
(* SocketStream.read/write, PipeStream.read/write (rpyc/core/stream.py).                                *)
(*                                                                                                      *)
(* Bytes are identified by their absolute offset in the stream; W = bytes accepted by the transport so  *)
(* far, R = bytes handed to the reader so far.  A frame is header(5) + body + flusher(1); the body is   *)
(* the payload, or its zlib form when the sender compresses and the payload is longer than THRESHOLD.   *)
(* A frame that fits into one I/O chunk is written with one write(), otherwise with three:              *)
(* header+first part (exactly CHUNK bytes), the rest of the body, the flusher.                          *)
EXTENDS Naturals, Sequences, TLC

CONSTANTS CHUNK, THRESHOLD, MaxTransient,
          InitLens, InitZLens, InitComp, AllowFaults

VARIABLES lens, zlens, comp,        \* payload lengths, their compressed lengths, sender compresses (fixed per behaviour)
          wp, wc, wrem,             \* writer: packet, which write() of Channel.send, bytes left in this write()
          W, wst,                   \* bytes accepted so far; "open" | "done" | "failed"
          R, rstage, rneed, rgot,   \* reader: bytes consumed; "hdr" | "body"; bytes still wanted by this read(); packets delivered
          rst, ntrans               \* "open" | "failed"; transient conditions so far
vars == <<lens, zlens, comp, wp, wc, wrem, W, wst, R, rstage, rneed, rgot, rst, ntrans>>

N == Len(lens)
Compressed(p) == comp /\ lens[p] > THRESHOLD
BodyLen(p) == IF Compressed(p) THEN zlens[p] ELSE lens[p]
Flag(p) == IF Compressed(p) THEN 1 ELSE 0
FrameLen(p) == 5 + BodyLen(p) + 1
RECURSIVE Start(_)
Start(p) == IF p = 1 THEN 0 ELSE Start(p - 1) + FrameLen(p - 1)
\* sizes of the write() calls Channel.send makes for packet p
Writes(p) == IF FrameLen(p) <= CHUNK THEN <<FrameLen(p)>>
             ELSE <<CHUNK, BodyLen(p) - (CHUNK - 5), 1>>
Min(a, b) == IF a < b THEN a ELSE b

Init == /\ lens = InitLens /\ zlens = InitZLens /\ comp = InitComp
        /\ wp = 1 /\ wc = 1 /\ wrem = IF Len(InitLens) = 0 THEN 0 ELSE Writes(1)[1]
        /\ W = 0 /\ wst = IF Len(InitLens) = 0 THEN "done" ELSE "open"
        /\ R = 0 /\ rstage = "hdr" /\ rneed = 5 /\ rgot = 0 /\ rst = "open" /\ ntrans = 0

UW == <<lens, zlens, comp, R, rstage, rneed, rgot, rst, ntrans>>
UR == <<lens, zlens, comp, wp, wc, wrem, W, wst>>

\* advance the writer to its next non-empty write() (an empty second part makes no send call at all)
RECURSIVE NextWrite(_, _)
NextWrite(p, c) == IF c < Len(Writes(p))
                   THEN IF Writes(p)[c + 1] = 0 THEN NextWrite(p, c + 1) ELSE <<p, c + 1, Writes(p)[c + 1]>>
                   ELSE IF p < N THEN <<p + 1, 1, Writes(p + 1)[1]>> ELSE <<p + 1, 1, 0>>

\* sock.send(data[:CHUNK]) accepts k bytes
WSend(k) == /\ wst = "open" /\ wrem > 0 /\ rst = "open"      \* (once the reader is gone, sends fail: WFail)
            /\ k \in 1..Min(wrem, CHUNK)
            /\ W' = W + k
            /\ IF wrem - k > 0
               THEN wrem' = wrem - k /\ UNCHANGED <<wp, wc, wst>>
               ELSE LET nx == NextWrite(wp, wc) IN
                    /\ wp' = nx[1] /\ wc' = nx[2] /\ wrem' = nx[3]
                    /\ wst' = IF nx[1] > N THEN "done" ELSE "open"
            /\ UNCHANGED UW

\* the send fails: the stream closes itself, EOFError to the sender
WFail == /\ (AllowFaults \/ rst = "failed") /\ wst = "open" /\ wrem > 0
         /\ wst' = "failed"
         /\ UNCHANGED <<wp, wc, wrem, W>> /\ UNCHANGED UW

Avail == W - R
\* sock.recv(min(CHUNK, rneed)) returns k bytes
RRecv(k) == /\ rst = "open" /\ (rgot < N \/ Avail > 0)
            /\ k \in 1..Min(Avail, Min(CHUNK, rneed))
            /\ R' = R + k
            /\ IF rneed - k > 0
               THEN rneed' = rneed - k /\ UNCHANGED <<rstage, rgot>>
               ELSE IF rstage = "hdr"
                    THEN \* the header just completed tells the length of the body (+ flusher)
                         /\ rstage' = "body" /\ rneed' = BodyLen(rgot + 1) + 1 /\ UNCHANGED rgot
                    ELSE /\ rstage' = "hdr" /\ rneed' = 5 /\ rgot' = rgot + 1
            /\ UNCHANGED <<rst, ntrans>> /\ UNCHANGED UR

\* socket.timeout / EAGAIN while reading: the read loop simply tries again
RTransient == /\ rst = "open" /\ ntrans < MaxTransient /\ rgot < N
              /\ ntrans' = ntrans + 1
              /\ UNCHANGED <<R, rstage, rneed, rgot, rst>> /\ UNCHANGED UR

\* an error, or end of stream (the writer is gone and nothing is left to read): close + EOFError, nothing delivered
RFail == /\ rst = "open"
         /\ \/ AllowFaults /\ rgot < N
            \/ wst # "open" /\ Avail = 0 /\ (rgot < N \/ wst = "failed")
         /\ rst' = "failed"
         /\ UNCHANGED <<R, rstage, rneed, rgot, ntrans>> /\ UNCHANGED UR

Finished == (wst # "open" /\ (rst = "failed" \/ rgot = N)) /\ UNCHANGED vars
Next == (\E k \in 1..CHUNK : WSend(k) \/ RRecv(k)) \/ WFail \/ RTransient \/ RFail \/ Finished
Spec == Init /\ [][Next]_vars /\ WF_vars(Next)

---------------------------------------------------------------------------------------
\* the reader is always aligned with the writer's frames: it starts every header at a frame boundary
Aligned == rstage = "hdr" /\ rneed = 5 => R = Start(rgot + 1)
InFrame == /\ rstage = "hdr" => R = Start(rgot + 1) + (5 - rneed)
           /\ rstage = "body" => R = Start(rgot + 1) + 5 + (BodyLen(rgot + 1) + 1 - rneed)
\* never reads ahead of what was sent; delivers only packets that were written completely
NoOverread == R <= W /\ (rgot > 0 => Start(rgot + 1) <= W)
Prefix == rgot <= N /\ (wst = "open" /\ rgot > 0 => rgot <= wp)
\* the writer's position is consistent
WriterPos == wst = "open" => W = Start(wp) + (IF wc = 1 THEN 0 ELSE IF wc = 2 THEN CHUNK ELSE CHUNK + Writes(wp)[2])
                                 + (Writes(wp)[wc] - wrem)
\* without faults everything arrives
Complete == <>(rgot = N \/ rst = "failed" \/ wst = "failed")
=======================================================================================
