SPECIFICATION Spec
