------------------------------- MODULE Trace_RpycLifetime -------------------------------
(* Histories executed on two real Connections, validated against RpycLifetime.  Event:                   *)
(* [act, k, tab, proxy, nH, nO] with the owner's table counts, the holder's proxy counts (sequences in   *)
(* the order of KSeq) and the stream lengths AFTER the step.  What a delivery carries is inferred.       *)
EXTENDS RpycLifetime, Json, IOUtils, TLCExt
CONSTANTS NTraces, KSeq
VARIABLES tid, l

Traces == JsonDeserialize(IOEnv.TRACE_FILE)

TraceInit == /\ Init /\ tid \in 1..NTraces /\ l = 1

Act(e) == CASE e.act = "Send" -> Send(e.k)
            [] e.act = "SendPair" -> SendPair(e.k)
            [] e.act = "Request" -> Request(e.k)
            [] e.act = "RequestAbandoned" -> RequestAbandoned(e.k)
            [] e.act = "DropProxy" -> DropProxy(e.k)
            [] e.act = "PassBack" -> PassBack(e.k)
            [] e.act = "DeliverToHolder" -> DeliverToHolder
            [] e.act = "DeliverToOwner" -> DeliverToOwner
            [] e.act = "Close" -> Close
            [] OTHER -> FALSE

TraceNext == /\ l <= Len(Traces[tid])
             /\ LET e == Traces[tid][l] IN
                  /\ Act(e)
                  /\ \A i \in 1..Len(KSeq) : tab'[KSeq[i]] = e.tab[i] /\ proxy'[KSeq[i]] = e.proxy[i]
                  /\ Len(toH') = e.nH /\ Len(toO') = e.nO
             /\ l' = l + 1
             /\ UNCHANGED tid

TraceSpec == TraceInit /\ [][TraceNext]_<<vars, tid, l>>
Progress == TLCSet(tid, IF TLCGet(tid) < l THEN l ELSE TLCGet(tid))
InitRegs == \A i \in 1..NTraces : TLCSet(i, 0)
ASSUME InitRegs
Report == \A i \in 1..NTraces : PrintT(<<"TRACE", i, TLCGet(i) - 1, Len(Traces[i])>>)
=========================================================================================
