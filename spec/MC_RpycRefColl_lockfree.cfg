SPECIFICATION Spec
CONSTANTS
  Atomic = FALSE
INVARIANT StillHeld
