SPECIFICATION Spec
CONSTANTS
  Atomic = TRUE
INVARIANT StillHeld
