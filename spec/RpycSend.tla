--------------------------------- MODULE RpycSend ---------------------------------
(* Connection._send (rpyc/core/protocol.py): several threads, and re-entrant activations on one    *)
(* thread (proxy finalizers running during transmission), push packets through one channel.        *)
(*                                                                                                 *)
(* One action per operation on a shared object, in program order of _send:                         *)
(*   append   _send_queue.append(data)                                                             *)
(*   check    truth test of _send_queue in the `while` header        (empty => return)             *)
(*   trylock  _sendlock.acquire(False)                               (busy  => return)             *)
(*   recheck  truth test of _send_queue under the lock               (empty => release, loop)      *)
(*   pop      _send_queue.pop(0)                                                                   *)
(*   write    one stream.write() of Channel.send  (1 write, or 3 for a packet above the chunk size)*)
(*   release  _sendlock.release()                                    (then back to check)          *)
(* Reenter(t) starts a nested _send on thread t before t's announced operation.                    *)
EXTENDS Naturals, Sequences, FiniteSets, TLC

CONSTANTS Threads,    \* set of thread names
          Msgs,       \* Msgs[t] : sequence of message ids issued by t, in issue order
          Parts,      \* Parts[m] : number of stream writes the packet of m needs (1 or 3 in the code)
          RePool,     \* sequence of message ids available to re-entrant sends; each used at most once
          MaxDepth    \* bound on nesting of _send activations per thread

VARIABLES queue,      \* _send_queue: Seq of message ids
          lock,       \* _sendlock owner: a thread or None
          wire,       \* what reached the transport: Seq of <<msg, part>>
          stack,      \* stack[t]: Seq of activations [pc, msg, cur, part]; the last one is running
          nxt,        \* nxt[t]: index of the next message t will issue
          pool,       \* unused part of RePool
          issued      \* history: messages in the order they were appended (by whom: owner[m])

vars == <<queue, lock, wire, stack, nxt, pool, issued>>
None == "none"

AllMsgs == UNION {{Msgs[t][i] : i \in 1..Len(Msgs[t])} : t \in Threads} \cup {RePool[i] : i \in 1..Len(RePool)}

Frame(m) == [pc |-> "append", msg |-> m, cur |-> None, part |-> 0]

Init == /\ queue = <<>>
        /\ lock = None
        /\ wire = <<>>
        /\ stack = [t \in Threads |-> IF Len(Msgs[t]) > 0 THEN <<Frame(Msgs[t][1])>> ELSE <<>>]
        /\ nxt = [t \in Threads |-> 2]
        /\ pool = RePool
        /\ issued = <<>>

Top(t) == stack[t][Len(stack[t])]
Running(t) == stack[t] # <<>>
At(t, l) == Running(t) /\ Top(t).pc = l
SetTop(t, f) == stack' = [stack EXCEPT ![t] = [@ EXCEPT ![Len(@)] = f]]
Goto(t, l) == SetTop(t, [Top(t) EXCEPT !.pc = l])

\* the activation returns; an outermost activation is followed by the thread's next message, if any
Ret(t) == LET s == SubSeq(stack[t], 1, Len(stack[t]) - 1) IN
          IF s = <<>> /\ nxt[t] <= Len(Msgs[t])
          THEN /\ stack' = [stack EXCEPT ![t] = <<Frame(Msgs[t][nxt[t]])>>]
               /\ nxt' = [nxt EXCEPT ![t] = @ + 1]
          ELSE /\ stack' = [stack EXCEPT ![t] = s]
               /\ UNCHANGED nxt

DoAppend(t) == /\ At(t, "append")
               /\ queue' = Append(queue, Top(t).msg)
               /\ issued' = Append(issued, Top(t).msg)
               /\ Goto(t, "check")
               /\ UNCHANGED <<lock, wire, nxt, pool>>

DoCheck(t) == /\ At(t, "check")
              /\ IF queue = <<>> THEN Ret(t) ELSE Goto(t, "trylock") /\ UNCHANGED nxt
              /\ UNCHANGED <<queue, lock, wire, pool, issued>>

DoTryLock(t) == /\ At(t, "trylock")
                /\ IF lock = None
                   THEN lock' = t /\ Goto(t, "recheck") /\ UNCHANGED nxt
                   ELSE UNCHANGED lock /\ Ret(t)
                /\ UNCHANGED <<queue, wire, pool, issued>>

DoRecheck(t) == /\ At(t, "recheck")
                /\ IF queue = <<>> THEN Goto(t, "release") ELSE Goto(t, "pop")
                /\ UNCHANGED <<queue, lock, wire, nxt, pool, issued>>

DoPop(t) == /\ At(t, "pop")
            /\ queue # <<>>       \* an IndexError here would be a bug; Safety asserts it cannot happen
            /\ queue' = Tail(queue)
            /\ SetTop(t, [Top(t) EXCEPT !.pc = "write", !.cur = Head(queue), !.part = 1])
            /\ UNCHANGED <<lock, wire, nxt, pool, issued>>

DoWrite(t) == /\ At(t, "write")
              /\ wire' = Append(wire, <<Top(t).cur, Top(t).part>>)
              /\ IF Top(t).part = Parts[Top(t).cur]
                 THEN Goto(t, "release")
                 ELSE SetTop(t, [Top(t) EXCEPT !.part = @ + 1])
              /\ UNCHANGED <<queue, lock, nxt, pool, issued>>

DoRelease(t) == /\ At(t, "release")
                /\ lock' = None
                /\ Goto(t, "check")
                /\ UNCHANGED <<queue, wire, nxt, pool, issued>>

\* a finalizer runs on thread t right before its announced operation and sends a message itself
Reenter(t) == /\ Running(t)
              /\ pool # <<>>
              /\ Len(stack[t]) < MaxDepth
              /\ stack' = [stack EXCEPT ![t] = Append(@, Frame(Head(pool)))]
              /\ pool' = Tail(pool)
              /\ UNCHANGED <<queue, lock, wire, nxt, issued>>

Step(t) == DoAppend(t) \/ DoCheck(t) \/ DoTryLock(t) \/ DoRecheck(t) \/ DoPop(t) \/ DoWrite(t) \/ DoRelease(t)

AllReturned == \A t \in Threads : ~Running(t)
Done == AllReturned /\ UNCHANGED vars

Next == (\E t \in Threads : Step(t) \/ Reenter(t)) \/ Done
Spec == Init /\ [][Next]_vars /\ \A t \in Threads : WF_vars(Step(t))

-----------------------------------------------------------------------------------
(* Properties (C12) *)

InCritical(f) == f.pc \in {"recheck", "pop", "write", "release"}

\* at most one activation is between acquire and release, and it belongs to the lock holder
Mutex == /\ \A t \in Threads : \A i \in 1..Len(stack[t]) : InCritical(stack[t][i]) => lock = t
         /\ Cardinality({<<t, i>> \in Threads \X (1..MaxDepth) : i <= Len(stack[t]) /\ InCritical(stack[t][i])}) <= 1

\* the wire is a sequence of whole packets, each one contiguous; only the last may be in progress
Contiguous == \A i \in 1..Len(wire) :
                 /\ wire[i][2] > 1 => i > 1 /\ wire[i-1] = <<wire[i][1], wire[i][2] - 1>>
                 /\ wire[i][2] < Parts[wire[i][1]] /\ i < Len(wire) => wire[i+1] = <<wire[i][1], wire[i][2] + 1>>

Firsts == SelectSeq(wire, LAMBDA w : w[2] = 1)
WireMsgs == [i \in 1..Len(Firsts) |-> Firsts[i][1]]

\* every message is transmitted at most once, and in the order in which the messages were issued
\* (which implies: one thread's messages leave in that thread's issue order)
InIssueOrder == /\ Len(WireMsgs) <= Len(issued)
                /\ \A i \in 1..Len(WireMsgs) : WireMsgs[i] = issued[i]

\* nothing written that is not accounted for: issued = transmitted ++ being written ++ queued
Accounted == LET inflight == {<<t, i>> \in Threads \X (1..MaxDepth) : i <= Len(stack[t]) /\ stack[t][i].pc = "write" /\ stack[t][i].part = 1}
             IN  Len(issued) = Len(WireMsgs) + Cardinality(inflight) + Len(queue)

\* when every sender has returned nothing is left queued and everything issued was transmitted completely
NoStranded == AllReturned => /\ queue = <<>>
                             /\ lock = None
                             /\ Len(WireMsgs) = Len(issued)
                             /\ (wire # <<>> => wire[Len(wire)][2] = Parts[wire[Len(wire)][1]])

\* pop never meets an empty queue
PopSafe == \A t \in Threads : At(t, "pop") => queue # <<>>

Termination == <>AllReturned
===================================================================================
