------------------------------- MODULE Trace_RpycChannel -------------------------------
(* I/O call logs of the real Channel + SocketStream / PipeStream code at real sizes, validated against   *)
(* RpycChannel.  A trace is [lens, zlens, comp, events]; an event is one completed socket call           *)
(* [s, op, asked, kind, k]: the size the code asked for / offered, what happened, bytes transferred.     *)
EXTENDS RpycChannel, Json, IOUtils, TLCExt
CONSTANT NTraces
VARIABLES tid, l
Traces == JsonDeserialize(IOEnv.TRACE_FILE)
NoLens == <<>>

TraceInit == /\ tid \in 1..NTraces /\ l = 1
             /\ lens = Traces[tid].lens /\ zlens = Traces[tid].zlens /\ comp = Traces[tid].comp
             /\ wp = 1 /\ wc = 1 /\ W = 0 /\ R = 0 /\ rstage = "hdr" /\ rneed = 5 /\ rgot = 0 /\ rst = "open" /\ ntrans = 0
             /\ wrem = IF Len(Traces[tid].lens) = 0 THEN 0 ELSE Writes(1)[1]
             /\ wst = IF Len(Traces[tid].lens) = 0 THEN "done" ELSE "open"

Ev == Traces[tid].events
TraceNext == /\ l <= Len(Ev)
             /\ LET e == Ev[l] IN
                  CASE e.op = "send" /\ e.kind = "ok"    -> e.asked = Min(wrem, CHUNK) /\ WSend(e.k)
                    [] e.op = "send" /\ e.kind = "error" -> e.asked = Min(wrem, CHUNK) /\ WFail
                    [] e.op = "recv" /\ e.kind = "ok"    -> e.asked = Min(rneed, CHUNK) /\ RRecv(e.k)
                    [] e.op = "recv" /\ e.kind \in {"timeout", "eagain"} -> e.asked = Min(rneed, CHUNK) /\ RTransient
                    [] e.op = "recv" /\ e.kind \in {"error", "eof"} -> e.asked = Min(rneed, CHUNK) /\ RFail
                    [] OTHER -> FALSE
             /\ l' = l + 1 /\ UNCHANGED tid
TraceSpec == TraceInit /\ [][TraceNext]_<<vars, tid, l>>
Progress == TLCSet(tid, IF TLCGet(tid) < l THEN l ELSE TLCGet(tid))
InitRegs == \A i \in 1..NTraces : TLCSet(i, 0)
ASSUME InitRegs
Report == \A i \in 1..NTraces : PrintT(<<"TRACE", i, TLCGet(i) - 1, Len(Traces[i].events)>>)
========================================================================================
