------------------------------- MODULE Trace_RpycServe -------------------------------
(* Trace validation for RpycServe: executions of the real serve()/wait()/dispatch code recorded under the   *)
(* deterministic scheduler.  Event: [t, op, wake, recvlock, condlock, r]; lock holders are logged after the *)
(* step.  Operations that several labels share (e.g. a read of the ready flag) are disambiguated by TLC     *)
(* from the thread's pc.                                                                                    *)
EXTENDS RpycServe, Json, IOUtils, TLCExt
CONSTANT NTraces
VARIABLES tid, l

Traces == JsonDeserialize(IOEnv.TRACE_FILE)

TraceInit == /\ Init
             /\ tid \in 1..NTraces
             /\ l = 1

ThreadAct(e) ==
    LET t == e.t IN
    CASE e.op = "start"        -> Start(t)
      [] e.op = "write"        -> CWrite(t)
      [] e.op = "ready?"       -> WCheck(t) \/ WFinal(t) \/ DExpired(t) \/ SPrecheck(t) \/ SRecheck(t)
      [] e.op = "lock"         -> SCondIn(t) \/ SReacq(t) \/ SNCondIn(t) \/ DNCondIn(t)
      [] e.op = "trylock"      -> STryLock(t)
      [] e.op = "cond_wait"    -> SWait(t)
      [] e.op = "cond_blocked" -> IF e.wake = "timeout" /\ t \in Clients THEN TimeoutWake(t) ELSE SBlocked(t)
      [] e.op = "unlock:cond"  -> SCondOut1(t) \/ SCondOut2(t) \/ SNCondOut(t) \/ DNCondOut(t)
      [] e.op = "poll"         -> IF e.wake = "timeout" /\ t \in Clients THEN TimeoutWake(t) ELSE SPoll(t)
      [] e.op = "read"         -> SHdr(t) \/ SBody(t)
      [] e.op = "unlock:recv"  -> SRelease(t) \/ SGiveUp(t)
      [] e.op = "notify_all"   -> SNotify(t) \/ DNotify(t)
      [] e.op = "dispatch"     -> SDispatch(t)
      [] e.op = "set_ready"    -> DPublish(t)
      [] e.op = "sleep"        -> BSleep(t)
      [] OTHER -> FALSE

TraceNext == /\ l <= Len(Traces[tid])
             /\ LET e == Traces[tid][l] IN
                  CASE e.t = "peer" -> PeerReply(e.r)
                    [] e.t = "env"  -> Expire
                    [] OTHER -> /\ e.t \in Threads
                                /\ ThreadAct(e)
                                /\ recvlock' = e.recvlock
                                /\ condlock' = e.condlock
             /\ l' = l + 1
             /\ UNCHANGED tid

TraceSpec == TraceInit /\ [][TraceNext]_<<vars, tid, l>>

Progress == TLCSet(tid, IF TLCGet(tid) < l THEN l ELSE TLCGet(tid))
InitRegs == \A i \in 1..NTraces : TLCSet(i, 0)
ASSUME InitRegs
Report == \A i \in 1..NTraces : PrintT(<<"TRACE", i, TLCGet(i) - 1, Len(Traces[i])>>)
======================================================================================
