----------------------------------- MODULE RpycServeEof -----------------------------------
(* C11 for a connection shared by threads: RpycServe plus the peer vanishing at an arbitrary moment.                         *)
(* RpycServe's actions are reused unchanged; what is added is what end-of-stream does to them:                              *)
(*   - the transport reports end-of-stream to whoever polls it once nothing is left to read (and to everybody once the       *)
(*     connection has closed itself): serve() closes the connection, and ON ITS WAY OUT (the `finally:` of serve()) releases   *)
(*     the receive lock and notifies the waiters before the EOFError leaves - that notification is what keeps the threads     *)
(*     parked on the condition from sleeping for ever (NotifyOnEof = FALSE removes it, for the counterexample);               *)
(*   - a write on the dead transport fails (EPIPE): the request never leaves, its thread gets EOFError;                       *)
(*   - the peer answers nothing any more.                                                                                   *)
(* Code: Connection.serve (except EOFError: self.close(); raise / finally: release, notify_all), Connection._send,           *)
(* AsyncResult.wait (rpyc/core/protocol.py, rpyc/core/async_.py).                                                            *)
EXTENDS RpycServe

CONSTANT NotifyOnEof
VARIABLES gone,       \* the peer has vanished
          closed,     \* the connection has closed itself (some thread met end-of-stream)
          raising     \* threads that carry an EOFError out of serve() (they still run its finally block)
evars == <<vars, gone, closed, raising>>

EInit == Init /\ gone = FALSE /\ closed = FALSE /\ raising = {}

PeerGone == /\ ~gone /\ gone' = TRUE
            /\ UNCHANGED <<vars, closed, raising>>

\* whether the transport is dead for a thread at this point
DeadRead == (gone /\ chan = <<>>) \/ closed
\* poll()/recv() meet end-of-stream: self.close(); then the finally block (release, notify) runs with the exception pending
SPollEof(t) == /\ pc[t] \in {"s_recheck", "s_poll", "s_hdr", "s_body"} /\ DeadRead /\ (pc[t] = "s_recheck" => ~ready[cur[t]])
               /\ closed' = TRUE
               /\ raising' = raising \cup {t}
               /\ pc' = [pc EXCEPT ![t] = "s_release"]
               /\ UNCHANGED <<nxt, cur, wr, sendq, sendlock, sent, replied, chan, recvlock, condlock, waiters, notified, data, cb,
                              ready, value, dispatched, receivedBy, stalls, expired, woke, transit, gone>>
\* (variant without the notification: the thread leaves right after releasing the lock)
SReleaseNoNotify(t) == /\ ~NotifyOnEof /\ pc[t] = "s_release" /\ t \in raising
                       /\ recvlock' = None
                       /\ pc' = [pc EXCEPT ![t] = "failed"]
                       /\ raising' = raising \ {t}
                       /\ UNCHANGED <<nxt, cur, wr, sendq, sendlock, sent, replied, chan, condlock, waiters, notified, data, cb,
                                      ready, value, dispatched, receivedBy, stalls, expired, woke, transit, gone, closed>>
\* the EOFError leaves serve() after the notification
SRaise(t) == /\ pc[t] = "s_ncond_out" /\ t \in raising
             /\ condlock' = None
             /\ pc' = [pc EXCEPT ![t] = "failed"]
             /\ raising' = raising \ {t}
             /\ UNCHANGED <<nxt, cur, wr, sendq, sendlock, sent, replied, chan, recvlock, waiters, notified, data, cb,
                            ready, value, dispatched, receivedBy, stalls, expired, woke, transit, gone, closed>>
\* writing a request to the dead transport: EPIPE, the send lock is released, the thread gets EOFError
CWriteEof(t) == /\ pc[t] = "c_write" /\ (gone \/ closed)
                /\ sendlock' = None
                /\ wr' = [wr EXCEPT ![t] = None]
                /\ pc' = [pc EXCEPT ![t] = "failed"]
                /\ UNCHANGED <<nxt, cur, sendq, sent, replied, chan, recvlock, condlock, waiters, notified, data, cb,
                               ready, value, dispatched, receivedBy, stalls, expired, woke, transit, gone, closed, raising>>

\* RpycServe's own steps, where end-of-stream does not interfere
Normal(t) == /\ pc[t] # "failed"
             /\ ~(pc[t] \in {"s_poll", "s_hdr", "s_body"} /\ DeadRead)
             /\ ~(pc[t] = "s_recheck" /\ DeadRead /\ ~ready[cur[t]])
             /\ ~(pc[t] = "c_write" /\ (gone \/ closed))
             /\ ~(pc[t] = "s_ncond_out" /\ t \in raising)
             /\ ~(pc[t] = "s_release" /\ t \in raising /\ ~NotifyOnEof)
             /\ Step(t)
             /\ UNCHANGED <<gone, closed, raising>>
EStep(t) == Normal(t) \/ SPollEof(t) \/ SReleaseNoNotify(t) \/ SRaise(t) \/ CWriteEof(t)

Over == \A t \in Threads : pc[t] \in {"done", "failed"} \/ (IsBg(t) /\ pc[t] = "b_sleep" /\ ~gone)
ENext == \/ \E t \in Threads : EStep(t)
         \/ (~gone /\ \E r \in AllReqs : PeerReply(r) /\ UNCHANGED <<gone, closed, raising>>)
         \/ PeerGone
         \/ (Over /\ UNCHANGED evars)
EFair == /\ \A t \in Threads : SF_evars(EStep(t))
         /\ \A r \in AllReqs : WF_evars(~gone /\ PeerReply(r) /\ UNCHANGED <<gone, closed, raising>>)
ESpec == EInit /\ [][ENext]_evars /\ EFair

-------------------------------------------------------------------------------------------
\* C11: once the peer is gone every thread comes to an end - with its results or with EOFError - and none sleeps for ever
EveryoneEnds == gone ~> (\A t \in Threads : pc[t] \in {"done", "failed"})
\* a thread only fails when the peer is gone; what it was told before is still right
FailOnlyWhenGone == \A t \in Threads : pc[t] = "failed" => gone
StillRight == ReplyMatches /\ DispatchedOnce /\ RecvMutex /\ CondMutex
\* the connection closes itself as soon as a thread has met end-of-stream while reading
ClosedWhenSeen == \A t \in Threads : t \in raising => closed
===========================================================================================
