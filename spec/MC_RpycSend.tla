------------------------------- MODULE MC_RpycSend -------------------------------
EXTENDS RpycSend
MCThreads == {"t1", "t2"}
MCMsgs == [t \in MCThreads |-> IF t = "t1" THEN <<"a1", "a2">> ELSE <<"b1", "b2">>]
MCParts == [m \in {"a1", "a2", "b1", "b2", "r1"} |-> IF m = "a2" THEN 3 ELSE 1]
MCRePool == <<"r1">>
\* second configuration: three threads, no re-entrancy
MC3Threads == {"t1", "t2", "t3"}
MC3Msgs == [t \in MC3Threads |-> IF t = "t1" THEN <<"a1", "a2">> ELSE IF t = "t2" THEN <<"b1", "b2">> ELSE <<"c1">>]
MC3Parts == [m \in {"a1", "a2", "b1", "b2", "c1"} |-> 1]
MCEmpty == <<>>
==================================================================================
