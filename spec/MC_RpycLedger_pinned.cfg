SPECIFICATION Spec
CONSTANTS
  Classes = {"value", "ref", "raises", "undecodable", "nohandler", "unencodable", "nested"}
  MaxReq = 3
  TearDownOnUnencodable = TRUE
INVARIANT ExecAtMostOnce
INVARIANT OneResponse
INVARIANT Routing
INVARIANT KindMatches
INVARIANT Complete
INVARIANT NoOrphanCallbacks
INVARIANT StayOpen
INVARIANT WaitsAreLive
INVARIANT SeqUnique
