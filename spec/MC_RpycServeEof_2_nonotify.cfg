SPECIFICATION ESpec
CONSTANTS
  Clients <- E2Clients
  Reqs <- E2Reqs
  Bg = "none"
  Pool <- NoPool
  Handoff = TRUE
  NotifyOnEof = FALSE
INVARIANT FailOnlyWhenGone
INVARIANT StillRight
INVARIANT ClosedWhenSeen
PROPERTY EveryoneEnds
CHECK_DEADLOCK FALSE
