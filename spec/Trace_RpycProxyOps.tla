------------------------------- MODULE Trace_RpycProxyOps -------------------------------
(* outcomes observed through real proxies along operation sequences, validated against the proxy step relation of      *)
(* RpycProxyOps.  A trace is [kind, cfg, events]; an event is [op: <<name, a, b, c>>, r: result record].                *)
EXTENDS RpycProxyOps, Json, IOUtils, TLCExt
CONSTANT NTraces
VARIABLES tid, l
Traces == JsonDeserialize(IOEnv.TRACE_FILE)
TraceInit == /\ tid \in 1..NTraces /\ l = 1
             /\ kind = Traces[tid].kind /\ cfg = Traces[tid].cfg
             /\ st = InitState(Traces[tid].kind) /\ res = R("init", 0, <<>>)
TraceNext == /\ l <= Len(Traces[tid].events)
             /\ LET e == Traces[tid].events[l] IN
                  /\ e.op \in OpsOf(kind, st)
                  /\ Do(e.op[1], e.op[2], e.op[3], e.op[4])
                  /\ res' = [t |-> e.r.t, n |-> e.r.n, s |-> e.r.s, e |-> e.r.e]
             /\ l' = l + 1 /\ UNCHANGED tid
TraceSpec == TraceInit /\ [][TraceNext]_<<vars, tid, l>>
Progress == TLCSet(tid, IF TLCGet(tid) < l THEN l ELSE TLCGet(tid))
InitRegs == \A i \in 1..NTraces : TLCSet(i, 0)
ASSUME InitRegs
Report == \A i \in 1..NTraces : PrintT(<<"TRACE", i, TLCGet(i) - 1, Len(Traces[i].events)>>)
=========================================================================================
