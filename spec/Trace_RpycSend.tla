------------------------------- MODULE Trace_RpycSend -------------------------------
(* Trace validation for RpycSend: every recorded execution of the real Connection._send under the   *)
(* deterministic scheduler must be a behaviour of RpycSend.  The trace file is a JSON array of      *)
(* traces; a trace is an array of events [t, op, qlen, lock, wlen] (state *after* the operation).   *)
EXTENDS RpycSend, Json, IOUtils, TLCExt
CONSTANT NTraces
VARIABLES tid, l

Traces == JsonDeserialize(IOEnv.TRACE_FILE)

TraceInit == /\ Init
             /\ tid \in 1..NTraces
             /\ l = 1

Act(e) == CASE e.op = "append"  -> DoAppend(e.t)
            [] e.op = "bool"    -> DoCheck(e.t) \/ DoRecheck(e.t)
            [] e.op = "trylock" -> DoTryLock(e.t)
            [] e.op = "pop"     -> DoPop(e.t)
            [] e.op = "write"   -> DoWrite(e.t)
            [] e.op = "release" -> DoRelease(e.t)
            [] e.op = "reenter" -> Reenter(e.t)
            [] OTHER -> FALSE

TraceNext == /\ l <= Len(Traces[tid])
             /\ LET e == Traces[tid][l] IN
                  /\ Act(e)
                  /\ Len(queue') = e.qlen
                  /\ lock' = e.lock
                  /\ Len(wire') = e.wlen
             /\ l' = l + 1
             /\ UNCHANGED tid

TraceSpec == TraceInit /\ [][TraceNext]_<<vars, tid, l>>

\* register i holds the longest prefix of trace i that was matched
Progress == TLCSet(tid, IF TLCGet(tid) < l THEN l ELSE TLCGet(tid))
InitRegs == \A i \in 1..NTraces : TLCSet(i, 0)
ASSUME InitRegs

Report == /\ \A i \in 1..NTraces : PrintT(<<"TRACE", i, TLCGet(i) - 1, Len(Traces[i])>>)
=====================================================================================
