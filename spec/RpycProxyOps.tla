---------------------------------- MODULE RpycProxyOps ----------------------------------
(* C02: operating on a proxy is indistinguishable from operating on the target.                          *)
(*                                                                                                       *)
(* Layer 1 - target semantics.  Seven kinds of target objects with a deliberately finite vocabulary of    *)
(* operations; every operation is a function  (state, op, a, b, c) -> [r: result, s: next state]          *)
(* written after the Python data model (list, dict, set, deque(maxlen=3), generator, io.BytesIO,         *)
(* bytearray, and a user class with operator overloads, a property and a context manager).               *)
(* Layer 2 - the proxy.  Every operation names the attribute the netref asks its owner for and the kind   *)
(* of access (rpyc/core/netref.py: synthesized methods -> HANDLE_CALLATTR; comparison operators ->        *)
(* HANDLE_CMP; str/repr/hash/dir/call -> dedicated handlers that consult no attribute policy;             *)
(* setattr / delattr -> HANDLE_SETATTR / HANDLE_DELATTR).  The configuration decides whether the access   *)
(* is permitted (rpyc/core/protocol.py _check_attr / _access_attr); a permitted operation is exactly the  *)
(* target's own operation, a refused one raises AttributeError and leaves the target unchanged.           *)
(* The step relation below IS the proxy's behaviour; `Twin` states that it coincides with the local one.  *)
EXTENDS Integers, Sequences, FiniteSets, TLC, SequencesExt, FiniteSetsExt

CONSTANTS Kinds, Configs
VARIABLES kind, cfg, st, res
vars == <<kind, cfg, st, res>>

MaxLen == 3
V == 0..1

\* ------------------------------------------------------------------ results
R(t, n, s) == [t |-> t, n |-> n, s |-> s, e |-> ""]
RInt(n) == R("int", n, <<>>)
RBool(b) == R("bool", IF b THEN 1 ELSE 0, <<>>)
RNone == R("none", 0, <<>>)
RSeq(s) == R("seq", 0, s)            \* a new sequence-like object (list / tuple / bytes / deque ...) with this content
RSet(S) == R("set", 0, SortSeq(SetToSeq(S), LAMBDA x, y : x < y))
RSelf == R("self", 0, <<>>)          \* the target itself (the holder gets the very proxy it already has)
RText == R("text", 0, <<>>)          \* the text the target renders for itself (str / repr)
RExc(e) == [t |-> "exc", n |-> 0, s |-> <<>>, e |-> e]
Out(r, s) == [r |-> r, s |-> s]

\* ------------------------------------------------------------------ sequence helpers (Python index rules)
NormI(i, n) == IF i < 0 THEN i + n ELSE i
InR(i, n) == NormI(i, n) >= 0 /\ NormI(i, n) < n
At(s, i) == s[NormI(i, Len(s)) + 1]
PutAt(s, i, v) == [s EXCEPT ![NormI(i, Len(s)) + 1] = v]
DelAt(s, i) == LET k == NormI(i, Len(s)) + 1 IN SubSeq(s, 1, k - 1) \o SubSeq(s, k + 1, Len(s))
Clamp(i, n) == IF i < 0 THEN (IF i + n < 0 THEN 0 ELSE i + n) ELSE (IF i > n THEN n ELSE i)
Slice(s, a, b) == LET lo == Clamp(a, Len(s)) hi == Clamp(b, Len(s)) IN IF hi <= lo THEN <<>> ELSE SubSeq(s, lo + 1, hi)
InsAt(s, i, v) == LET k == Clamp(i, Len(s)) IN SubSeq(s, 1, k) \o <<v>> \o SubSeq(s, k + 1, Len(s))
SetSlice(s, a, b, t) == LET lo == Clamp(a, Len(s)) h0 == Clamp(b, Len(s)) hi == IF h0 < lo THEN lo ELSE h0
                        IN SubSeq(s, 1, lo) \o t \o SubSeq(s, hi + 1, Len(s))
Has(s, v) == \E i \in DOMAIN s : s[i] = v
FirstIdx(s, v) == CHOOSE i \in DOMAIN s : s[i] = v /\ \A j \in 1..(i - 1) : s[j] # v
CountOf(s, v) == Cardinality({i \in DOMAIN s : s[i] = v})
Sorted(s) == SortSeq(s, LAMBDA x, y : x < y)
Rep(s, n) == IF n = 0 THEN <<>> ELSE IF n = 1 THEN s ELSE s \o s
Tups == << <<>>, <<1>>, <<0, 1>> >>          \* operand tuples / byte strings, by index
MinOf(a, b) == IF a < b THEN a ELSE b

\* ------------------------------------------------------------------ list
ListStep(s, o, a, b, c) ==
  LET n == Len(s) IN
  CASE o = "len" -> Out(RInt(n), s)
    [] o = "bool" -> Out(RBool(n > 0), s)
    [] o \in {"repr", "str"} -> Out(RText, s)
    [] o = "hash" -> Out(RExc("TypeError"), s)
    [] o = "getitem" -> IF InR(a, n) THEN Out(RInt(At(s, a)), s) ELSE Out(RExc("IndexError"), s)
    [] o = "setitem" -> IF InR(a, n) THEN Out(RNone, PutAt(s, a, b)) ELSE Out(RExc("IndexError"), s)
    [] o = "delitem" -> IF InR(a, n) THEN Out(RNone, DelAt(s, a)) ELSE Out(RExc("IndexError"), s)
    [] o = "append" -> Out(RNone, Append(s, a))
    [] o = "insert" -> Out(RNone, InsAt(s, a, b))
    [] o = "pop" -> IF n = 0 THEN Out(RExc("IndexError"), s) ELSE Out(RInt(s[n]), SubSeq(s, 1, n - 1))
    [] o = "popi" -> IF InR(a, n) THEN Out(RInt(At(s, a)), DelAt(s, a)) ELSE Out(RExc("IndexError"), s)
    [] o = "remove" -> IF Has(s, a) THEN Out(RNone, DelAt(s, FirstIdx(s, a) - 1)) ELSE Out(RExc("ValueError"), s)
    [] o = "index" -> IF Has(s, a) THEN Out(RInt(FirstIdx(s, a) - 1), s) ELSE Out(RExc("ValueError"), s)
    [] o = "count" -> Out(RInt(CountOf(s, a)), s)
    [] o = "contains" -> Out(RBool(Has(s, a)), s)
    [] o = "reverse" -> Out(RNone, Reverse(s))
    [] o = "clear" -> Out(RNone, <<>>)
    [] o = "sort" -> Out(RNone, Sorted(s))
    [] o = "copy" -> Out(RSeq(s), s)
    [] o = "iter" -> Out(RSeq(s), s)
    [] o = "reversed" -> Out(RSeq(Reverse(s)), s)
    [] o = "getslice" -> Out(RSeq(Slice(s, a, b)), s)
    [] o = "delslice" -> Out(RNone, SetSlice(s, a, b, <<>>))
    [] o = "setslice" -> Out(RNone, SetSlice(s, a, b, Tups[c]))
    [] o = "extend" -> Out(RNone, s \o Tups[a])
    [] o = "iadd" -> Out(RSelf, s \o Tups[a])
    [] o = "mul" -> Out(RSeq(Rep(s, a)), s)
    [] o = "eq_self" -> Out(RBool(TRUE), s)
    [] o = "eq_tuple" -> Out(RBool(FALSE), s)
    [] o = "ne_tuple" -> Out(RBool(TRUE), s)
    [] o \in {"lt_int", "add_tuple", "call", "with", "next", "int", "or_int", "ror_int"} -> Out(RExc("TypeError"), s)
    [] o = "callable" -> Out(RBool(FALSE), s)
    [] o \in {"getattr_missing", "setattr_x", "delattr_x"} -> Out(RExc("AttributeError"), s)
    [] o = "dir_has" -> Out(RBool(TRUE), s)
    [] o = "isinstance" -> Out(RBool(TRUE), s)

\* ------------------------------------------------------------------ dict (insertion ordered: a sequence of <<key, value>>)
DKeys(s) == {s[i][1] : i \in DOMAIN s}
DPos(s, k) == CHOOSE i \in DOMAIN s : s[i][1] = k
DGet(s, k) == s[DPos(s, k)][2]
DSet(s, k, v) == IF k \in DKeys(s) THEN [s EXCEPT ![DPos(s, k)] = <<k, v>>] ELSE Append(s, <<k, v>>)
DDel(s, k) == LET p == DPos(s, k) IN SubSeq(s, 1, p - 1) \o SubSeq(s, p + 1, Len(s))
RECURSIVE Flat(_)
Flat(s) == IF s = <<>> THEN <<>> ELSE s[1] \o Flat(Tail(s))
DictStep(s, o, a, b, c) ==
  LET n == Len(s) IN
  CASE o = "len" -> Out(RInt(n), s)
    [] o = "bool" -> Out(RBool(n > 0), s)
    [] o \in {"repr", "str"} -> Out(RText, s)
    [] o = "hash" -> Out(RExc("TypeError"), s)
    [] o = "getitem" -> IF a \in DKeys(s) THEN Out(RInt(DGet(s, a)), s) ELSE Out(RExc("KeyError"), s)
    [] o = "setitem" -> Out(RNone, DSet(s, a, b))
    [] o = "delitem" -> IF a \in DKeys(s) THEN Out(RNone, DDel(s, a)) ELSE Out(RExc("KeyError"), s)
    [] o = "contains" -> Out(RBool(a \in DKeys(s)), s)
    [] o = "get" -> IF a \in DKeys(s) THEN Out(RInt(DGet(s, a)), s) ELSE Out(RNone, s)
    [] o = "getd" -> IF a \in DKeys(s) THEN Out(RInt(DGet(s, a)), s) ELSE Out(RInt(b), s)
    [] o = "pop" -> IF a \in DKeys(s) THEN Out(RInt(DGet(s, a)), DDel(s, a)) ELSE Out(RExc("KeyError"), s)
    [] o = "popd" -> IF a \in DKeys(s) THEN Out(RInt(DGet(s, a)), DDel(s, a)) ELSE Out(RInt(b), s)
    [] o = "popitem" -> IF n = 0 THEN Out(RExc("KeyError"), s) ELSE Out(RSeq(s[n]), SubSeq(s, 1, n - 1))
    [] o = "setdefault" -> IF a \in DKeys(s) THEN Out(RInt(DGet(s, a)), s) ELSE Out(RInt(b), Append(s, <<a, b>>))
    [] o = "keys" -> Out(RSeq([i \in DOMAIN s |-> s[i][1]]), s)
    [] o = "iter" -> Out(RSeq([i \in DOMAIN s |-> s[i][1]]), s)
    [] o = "values" -> Out(RSeq([i \in DOMAIN s |-> s[i][2]]), s)
    [] o = "items" -> Out(RSeq(Flat(s)), s)
    [] o = "clear" -> Out(RNone, <<>>)
    [] o = "update_pairs" -> Out(RNone, DSet(s, a, b))
    [] o = "eq_self" -> Out(RBool(TRUE), s)
    [] o = "eq_int" -> Out(RBool(FALSE), s)
    [] o \in {"lt_int", "call", "with", "next"} -> Out(RExc("TypeError"), s)
    [] o = "callable" -> Out(RBool(FALSE), s)
    [] o \in {"getattr_missing", "setattr_x"} -> Out(RExc("AttributeError"), s)
    [] o = "isinstance" -> Out(RBool(TRUE), s)

\* ------------------------------------------------------------------ set (operands: frozensets given as bit masks over 0..2)
FS(m) == {x \in 0..2 : (m \div (2 ^ x)) % 2 = 1}
SetStep(s, o, a, b, c) ==
  CASE o = "len" -> Out(RInt(Cardinality(s)), s)
    [] o = "bool" -> Out(RBool(s # {}), s)
    [] o \in {"repr", "str"} -> Out(RText, s)
    [] o = "hash" -> Out(RExc("TypeError"), s)
    [] o = "add" -> Out(RNone, s \cup {a})
    [] o = "remove" -> IF a \in s THEN Out(RNone, s \ {a}) ELSE Out(RExc("KeyError"), s)
    [] o = "discard" -> Out(RNone, s \ {a})
    [] o = "contains" -> Out(RBool(a \in s), s)
    [] o = "pop" -> IF s = {} THEN Out(RExc("KeyError"), s) ELSE Out(RInt(a), s \ {a})      \* any element: a ranges over s
    [] o = "clear" -> Out(RNone, {})
    [] o = "iter" -> Out(RSet(s), s)
    [] o = "or" -> Out(RSet(s \cup FS(a)), s)
    [] o = "and" -> Out(RSet(s \cap FS(a)), s)
    [] o = "sub" -> Out(RSet(s \ FS(a)), s)
    [] o = "xor" -> Out(RSet((s \ FS(a)) \cup (FS(a) \ s)), s)
    [] o = "ior" -> Out(RSelf, s \cup FS(a))
    [] o = "isub" -> Out(RSelf, s \ FS(a))
    [] o = "update" -> Out(RNone, s \cup FS(a))
    [] o = "le" -> Out(RBool(s \subseteq FS(a)), s)
    [] o = "lt" -> Out(RBool(s \subseteq FS(a) /\ s # FS(a)), s)
    [] o = "ge" -> Out(RBool(FS(a) \subseteq s), s)
    [] o = "eq" -> Out(RBool(s = FS(a)), s)
    [] o = "ne" -> Out(RBool(s # FS(a)), s)
    [] o = "isdisjoint" -> Out(RBool(s \cap FS(a) = {}), s)
    [] o = "issubset" -> Out(RBool(s \subseteq FS(a)), s)
    [] o \in {"getitem", "lt_int", "call", "with", "next"} -> Out(RExc("TypeError"), s)
    [] o = "callable" -> Out(RBool(FALSE), s)
    [] o = "getattr_missing" -> Out(RExc("AttributeError"), s)
    [] o = "isinstance" -> Out(RBool(TRUE), s)

\* ------------------------------------------------------------------ collections.deque(maxlen = 3)
DqApp(s, v) == IF Len(s) = MaxLen THEN Tail(s) \o <<v>> ELSE Append(s, v)
DqAppL(s, v) == IF Len(s) = MaxLen THEN <<v>> \o SubSeq(s, 1, MaxLen - 1) ELSE <<v>> \o s
RECURSIVE DqExt(_, _)
DqExt(s, t) == IF t = <<>> THEN s ELSE DqExt(DqApp(s, Head(t)), Tail(t))
RotR(s) == IF Len(s) <= 1 THEN s ELSE <<s[Len(s)]>> \o SubSeq(s, 1, Len(s) - 1)
RotL(s) == IF Len(s) <= 1 THEN s ELSE Tail(s) \o <<s[1]>>
Rot(s, k) == CASE k = 1 -> RotR(s) [] k = 2 -> RotR(RotR(s)) [] k = -1 -> RotL(s) [] k = 0 -> s
DequeStep(s, o, a, b, c) ==
  LET n == Len(s) IN
  CASE o = "len" -> Out(RInt(n), s)
    [] o = "bool" -> Out(RBool(n > 0), s)
    [] o \in {"repr", "str"} -> Out(RText, s)
    [] o = "hash" -> Out(RExc("TypeError"), s)
    [] o = "append" -> Out(RNone, DqApp(s, a))
    [] o = "appendleft" -> Out(RNone, DqAppL(s, a))
    [] o = "pop" -> IF n = 0 THEN Out(RExc("IndexError"), s) ELSE Out(RInt(s[n]), SubSeq(s, 1, n - 1))
    [] o = "popleft" -> IF n = 0 THEN Out(RExc("IndexError"), s) ELSE Out(RInt(s[1]), Tail(s))
    [] o = "rotate" -> Out(RNone, Rot(s, a))
    [] o = "getitem" -> IF InR(a, n) THEN Out(RInt(At(s, a)), s) ELSE Out(RExc("IndexError"), s)
    [] o = "setitem" -> IF InR(a, n) THEN Out(RNone, PutAt(s, a, b)) ELSE Out(RExc("IndexError"), s)
    [] o = "delitem" -> IF InR(a, n) THEN Out(RNone, DelAt(s, a)) ELSE Out(RExc("IndexError"), s)
    [] o = "insert" -> IF n = MaxLen THEN Out(RExc("IndexError"), s) ELSE Out(RNone, InsAt(s, a, b))
    [] o = "remove" -> IF Has(s, a) THEN Out(RNone, DelAt(s, FirstIdx(s, a) - 1)) ELSE Out(RExc("ValueError"), s)
    [] o = "index" -> IF Has(s, a) THEN Out(RInt(FirstIdx(s, a) - 1), s) ELSE Out(RExc("ValueError"), s)
    [] o = "count" -> Out(RInt(CountOf(s, a)), s)
    [] o = "contains" -> Out(RBool(Has(s, a)), s)
    [] o = "reverse" -> Out(RNone, Reverse(s))
    [] o = "clear" -> Out(RNone, <<>>)
    [] o = "extend" -> Out(RNone, DqExt(s, Tups[a]))
    [] o = "iadd" -> Out(RSelf, DqExt(s, Tups[a]))
    [] o = "iter" -> Out(RSeq(s), s)
    [] o = "reversed" -> Out(RSeq(Reverse(s)), s)
    [] o = "copy" -> Out(RSeq(s), s)
    [] o = "maxlen" -> Out(RInt(MaxLen), s)
    [] o = "eq_self" -> Out(RBool(TRUE), s)
    [] o = "eq_tuple" -> Out(RBool(FALSE), s)
    [] o \in {"getslice", "lt_int", "call", "with", "next", "or_int", "ror_int"} -> Out(RExc("TypeError"), s)
    [] o = "callable" -> Out(RBool(FALSE), s)
    [] o \in {"getattr_missing", "set_maxlen"} -> Out(RExc("AttributeError"), s)
    [] o = "isinstance" -> Out(RBool(TRUE), s)

\* ------------------------------------------------------------------ generator over Items; the state is the position
Items == <<0, 1, 2, 1>>
NI == Len(Items)
Rest(p) == SubSeq(Items, p + 1, NI)
GenStep(p, o, a, b, c) ==
  CASE o = "next" -> IF p < NI THEN Out(RInt(Items[p + 1]), p + 1) ELSE Out(RExc("StopIteration"), p)
    [] o = "send_none" -> IF p < NI THEN Out(RInt(Items[p + 1]), p + 1) ELSE Out(RExc("StopIteration"), p)
    [] o = "send_one" -> IF p = 0 THEN Out(RExc("TypeError"), p)
                         ELSE IF p < NI THEN Out(RInt(Items[p + 1]), p + 1) ELSE Out(RExc("StopIteration"), p)
    [] o = "contains" -> IF Has(Rest(p), a) THEN Out(RBool(TRUE), p + FirstIdx(Rest(p), a)) ELSE Out(RBool(FALSE), NI)
    [] o = "list_rest" -> Out(RSeq(Rest(p)), NI)
    [] o = "tuple_rest" -> Out(RSeq(Rest(p)), NI)
    [] o = "for_break" -> IF p < NI THEN Out(RInt(Items[p + 1]), p + 1) ELSE Out(RNone, p)    \* `for x in proxy: break`
    [] o = "close" -> Out(RNone, NI)
    [] o = "iter_is_self" -> Out(RBool(TRUE), p)
    [] o = "bool" -> Out(RBool(TRUE), p)
    [] o \in {"repr", "str"} -> Out(RText, p)
    [] o \in {"len", "getitem", "call", "with", "lt_int", "or_int", "ror_int"} -> Out(RExc("TypeError"), p)
    [] o = "callable" -> Out(RBool(FALSE), p)
    [] o = "getattr_missing" -> Out(RExc("AttributeError"), p)
    [] o = "buffiter" -> Out(RSeq(Rest(p)), NI)                    \* list(buffiter(proxy, chunk=a, max_chunk=b, factor=c))

\* ------------------------------------------------------------------ io.BytesIO: [d: content, p: position, c: closed]
NL == 10
FTups == << <<>>, <<97>>, <<NL, 97>> >>      \* byte strings written to files, by index
LineEnd(d, from) == IF \E i \in (from + 1)..Len(d) : d[i] = NL
                    THEN CHOOSE i \in (from + 1)..Len(d) : d[i] = NL /\ \A j \in (from + 1)..(i - 1) : d[j] # NL
                    ELSE Len(d)
Pad(d, p) == IF p <= Len(d) THEN d ELSE d \o [i \in 1..(p - Len(d)) |-> 0]
FWrite(d, p, t) == SubSeq(Pad(d, p), 1, p) \o t \o SubSeq(d, p + Len(t) + 1, Len(d))
FileStep(f, o, a, b, c) ==
  LET d == f.d  p == f.p  start == MinOf(f.p, Len(f.d)) IN
  IF f.c /\ o \in {"read", "readline", "seek", "seek_end", "tell", "write", "getvalue", "with", "next", "truncate", "readable"}
  THEN Out(RExc("ValueError"), f)
  ELSE
  CASE o = "read" -> LET stop == IF a < 0 THEN Len(d) ELSE MinOf(Len(d), start + a)
                         chunk == SubSeq(d, start + 1, stop)
                     IN Out(RSeq(chunk), [f EXCEPT !.p = IF p >= Len(d) THEN p ELSE start + Len(chunk)])
    [] o \in {"readline", "next"} ->
                     LET stop == IF p >= Len(d) THEN start ELSE LineEnd(d, start)
                         chunk == SubSeq(d, start + 1, stop)
                     IN IF o = "next" /\ chunk = <<>> THEN Out(RExc("StopIteration"), f)
                        ELSE Out(RSeq(chunk), [f EXCEPT !.p = IF p >= Len(d) THEN p ELSE stop])
    [] o = "seek" -> Out(RInt(a), [f EXCEPT !.p = a])
    [] o = "seek_end" -> Out(RInt(Len(d)), [f EXCEPT !.p = Len(d)])
    [] o = "tell" -> Out(RInt(p), f)
    [] o = "write" -> Out(RInt(Len(FTups[a])), [f EXCEPT !.d = FWrite(d, p, FTups[a]), !.p = p + Len(FTups[a])])
    [] o = "truncate" -> Out(RInt(p), [f EXCEPT !.d = SubSeq(d, 1, MinOf(p, Len(d)))])
    [] o = "getvalue" -> Out(RSeq(d), f)
    [] o = "readable" -> Out(RBool(TRUE), f)
    [] o = "close" -> Out(RNone, [f EXCEPT !.c = TRUE])
    [] o = "closed" -> Out(RBool(f.c), f)
    [] o = "with" -> Out(RBool(TRUE), [f EXCEPT !.c = TRUE])       \* `with proxy as g: ok = g is proxy`
    [] o = "iter_is_self" -> Out(RBool(TRUE), f)
    [] o = "bool" -> Out(RBool(TRUE), f)
    [] o \in {"len", "getitem", "call", "lt_int", "or_int", "ror_int"} -> Out(RExc("TypeError"), f)
    [] o = "callable" -> Out(RBool(FALSE), f)
    [] o \in {"getattr_missing"} -> Out(RExc("AttributeError"), f)

\* ------------------------------------------------------------------ bytearray
BAStep(s, o, a, b, c) ==
  LET n == Len(s) IN
  CASE o = "len" -> Out(RInt(n), s)
    [] o = "bool" -> Out(RBool(n > 0), s)
    [] o \in {"repr", "str"} -> Out(RText, s)
    [] o = "hash" -> Out(RExc("TypeError"), s)
    [] o = "append" -> IF a > 255 THEN Out(RExc("ValueError"), s) ELSE Out(RNone, Append(s, a))
    [] o = "getitem" -> IF InR(a, n) THEN Out(RInt(At(s, a)), s) ELSE Out(RExc("IndexError"), s)
    [] o = "setitem" -> IF b > 255 THEN Out(RExc("ValueError"), s)          \* the value is converted before the index is looked at
                        ELSE IF ~InR(a, n) THEN Out(RExc("IndexError"), s) ELSE Out(RNone, PutAt(s, a, b))
    [] o = "delitem" -> IF InR(a, n) THEN Out(RNone, DelAt(s, a)) ELSE Out(RExc("IndexError"), s)
    [] o = "pop" -> IF n = 0 THEN Out(RExc("IndexError"), s) ELSE Out(RInt(s[n]), SubSeq(s, 1, n - 1))
    [] o = "extend" -> Out(RNone, s \o Tups[a])
    [] o = "iadd" -> Out(RSelf, s \o Tups[a])
    [] o = "add_bytes" -> Out(RSeq(s \o Tups[a]), s)
    [] o = "mul" -> Out(RSeq(Rep(s, a)), s)
    [] o = "tobytes" -> Out(RSeq(s), s)
    [] o = "iter" -> Out(RSeq(s), s)
    [] o = "getslice" -> Out(RSeq(Slice(s, a, b)), s)
    [] o = "setslice" -> Out(RNone, SetSlice(s, a, b, Tups[c]))
    [] o = "contains" -> Out(RBool(Has(s, a)), s)
    [] o = "reverse" -> Out(RNone, Reverse(s))
    [] o = "clear" -> Out(RNone, <<>>)
    [] o = "eq_bytes" -> Out(RBool(s = Tups[a]), s)
    [] o = "ne_bytes" -> Out(RBool(s # Tups[a]), s)
    [] o = "eq_self" -> Out(RBool(TRUE), s)
    [] o = "count" -> Out(RInt(CountOf(s, a)), s)
    [] o = "index" -> IF Has(s, a) THEN Out(RInt(FirstIdx(s, a) - 1), s) ELSE Out(RExc("ValueError"), s)
    [] o \in {"lt_int", "call", "with", "next", "add_int"} -> Out(RExc("TypeError"), s)
    [] o = "callable" -> Out(RBool(FALSE), s)
    [] o \in {"getattr_missing", "setattr_x"} -> Out(RExc("AttributeError"), s)
    [] o = "isinstance" -> Out(RBool(TRUE), s)

\* ------------------------------------------------------------------ user class Acc: [total, level, extra (-1 = absent), depth]
Cap(x) == IF x > 3 THEN 3 ELSE x
UserStep(u, o, a, b, c) ==
  CASE o = "add" -> Out(RInt(u.total + a), u)
    [] o = "radd" -> Out(RInt(a + u.total), u)
    [] o = "iadd" -> Out(RSelf, [u EXCEPT !.total = Cap(u.total + a)])
    [] o = "neg" -> Out(RInt(0 - u.total), u)
    [] o = "len" -> Out(RInt(u.total), u)
    [] o = "bool" -> Out(RBool(u.level > 0), u)
    [] o = "int" -> Out(RInt(u.total), u)
    [] o = "getitem" -> IF a > u.total THEN Out(RExc("IndexError"), u) ELSE Out(RInt(a * 10), u)
    [] o = "setitem" -> IF a # 0 THEN Out(RExc("KeyError"), u) ELSE Out(RNone, [u EXCEPT !.total = b])
    [] o = "delitem" -> IF a # 0 THEN Out(RExc("KeyError"), u) ELSE Out(RNone, [u EXCEPT !.total = 0])
    [] o = "contains" -> Out(RBool(a <= u.total), u)
    [] o = "iter" -> Out(RSeq([i \in 1..u.total |-> i - 1]), u)
    [] o = "call" -> Out(RInt(u.total * a), u)
    [] o = "call_kw" -> Out(RInt(u.total * a + b), u)
    [] o = "call_bad" -> Out(RExc("TypeError"), u)
    [] o = "eq_int" -> Out(RBool(u.total = a), u)
    [] o = "ne_int" -> Out(RBool(u.total # a \/ u.total = 3), u)        \* the class's own __ne__: not the negation of __eq__
    [] o = "eq_self" -> Out(RBool(TRUE), u)
    [] o = "eq_text" -> Out(RBool(FALSE), u)
    [] o = "lt_int" -> Out(RBool(u.total < a), u)
    [] o \in {"gt_int", "or_int", "ror_int"} -> Out(RExc("TypeError"), u)
    [] o = "callable" -> Out(RBool(TRUE), u)
    [] o = "hash" -> Out(RInt(u.total + 7), u)
    [] o \in {"repr", "str"} -> Out(RText, u)
    [] o = "with" -> Out(RBool(TRUE), u)                                   \* enter: depth+1, exit: depth-1
    [] o = "enter" -> Out(RSelf, [u EXCEPT !.depth = u.depth + 1])
    [] o = "exit" -> Out(RBool(u.level > 1), [u EXCEPT !.depth = u.depth - 1])   \* __exit__ answers "swallow" at level 2
    \* `with proxy: raise KeyError`: the target's __exit__ sees the exception and its answer decides whether it propagates
    [] o = "with_raise" -> IF u.level > 1 THEN Out(RNone, u) ELSE Out(RExc("KeyError"), u)
    [] o = "get_total" -> Out(RInt(u.total), u)
    [] o = "get_level" -> Out(RInt(u.level), u)
    [] o = "set_level" -> IF a > 2 THEN Out(RExc("ValueError"), u) ELSE Out(RNone, [u EXCEPT !.level = a])
    [] o = "set_total" -> Out(RNone, [u EXCEPT !.total = a])
    [] o = "get_extra" -> IF u.extra < 0 THEN Out(RExc("AttributeError"), u) ELSE Out(RInt(u.extra), u)
    [] o = "set_extra" -> Out(RNone, [u EXCEPT !.extra = a])
    [] o = "del_extra" -> IF u.extra < 0 THEN Out(RExc("AttributeError"), u) ELSE Out(RNone, [u EXCEPT !.extra = -1])
    [] o = "del_level" -> Out(RExc("AttributeError"), u)
    [] o = "get_hidden" -> Out(RInt(u.level), u)
    [] o = "bump" -> Out(RInt(Cap(u.total + a)), [u EXCEPT !.total = Cap(u.total + a)])
    [] o = "boom" -> Out(RExc("KeyError"), u)
    [] o = "peek" -> Out(RInt(u.total), u)
    [] o = "get_kind" -> Out(RInt(42), u)
    [] o = "classmeth" -> Out(RInt(43), u)
    [] o = "staticmeth" -> Out(RInt(a + 1), u)
    [] o = "getattr_missing" -> Out(RExc("AttributeError"), u)
    [] o = "next" -> Out(RExc("TypeError"), u)
    [] o = "isinstance" -> Out(RBool(TRUE), u)
    [] o = "dir_has" -> Out(RBool(TRUE), u)

\* ------------------------------------------------------------------ the vocabulary per kind: <<op, a, b, c>>
Idx == -(MaxLen + 1)..MaxLen
Z(S) == {<<o, 0, 0, 0>> : o \in S}
A1(S, X) == {<<o, x, 0, 0>> : o \in S, x \in X}
A2(S, X, Y) == {<<o, x, y, 0>> : o \in S, x \in X, y \in Y}
A3(S, X, Y, W) == {<<o, x, y, w>> : o \in S, x \in X, y \in Y, w \in W}
OpsOf(k, s) ==
  CASE k = "list" -> Z({"len", "bool", "repr", "str", "hash", "pop", "reverse", "clear", "sort", "copy", "iter", "reversed", "eq_self",
                         "eq_tuple", "ne_tuple", "lt_int", "add_tuple", "call", "with", "next", "int", "getattr_missing", "setattr_x",
                         "delattr_x", "dir_has", "isinstance", "or_int", "ror_int", "callable"})
                    \cup A1({"getitem", "delitem", "popi"}, Idx) \cup A2({"setitem"}, Idx, V) \cup A1({"append"}, V)
                    \cup A2({"insert"}, {-5, -1, 0, 1, 5}, V) \cup A1({"remove", "index", "count", "contains"}, 0..2)
                    \cup A2({"getslice", "delslice"}, {-2, 0, 1, 3}, {-1, 0, 2, 3}) \cup A3({"setslice"}, {0, 1, -1}, {0, 2}, 1..3)
                    \cup A1({"extend", "iadd"}, 1..3) \cup A1({"mul"}, {0, 1, 2})
    [] k = "dict" -> Z({"len", "bool", "repr", "str", "hash", "popitem", "keys", "iter", "values", "items", "clear", "eq_self", "eq_int",
                         "lt_int", "call", "with", "next", "getattr_missing", "setattr_x", "isinstance", "callable"})
                    \cup A1({"getitem", "delitem", "contains", "get", "pop"}, 0..2)
                    \cup A2({"setitem", "getd", "popd", "setdefault", "update_pairs"}, 0..2, V)
    [] k = "set" -> Z({"len", "bool", "repr", "str", "hash", "clear", "iter", "getitem", "lt_int", "call", "with", "next",
                        "getattr_missing", "isinstance", "callable"})
                    \cup A1({"add", "remove", "discard", "contains"}, 0..2) \cup A1({"pop"}, IF s = {} THEN {0} ELSE s)
                    \cup A1({"or", "and", "sub", "xor", "ior", "isub", "update", "le", "lt", "ge", "eq", "ne", "isdisjoint", "issubset"}, {0, 1, 3, 5, 6, 7})
    [] k = "deque" -> Z({"len", "bool", "repr", "str", "hash", "pop", "popleft", "reverse", "clear", "iter", "reversed", "copy", "maxlen",
                          "eq_self", "eq_tuple", "getslice", "lt_int", "call", "with", "next", "getattr_missing", "set_maxlen", "or_int", "ror_int",
                          "callable"})
                    \cup A1({"append", "appendleft"}, V) \cup A1({"rotate"}, {-1, 0, 1, 2}) \cup A1({"getitem", "delitem"}, Idx)
                    \cup A2({"setitem"}, Idx, V) \cup A2({"insert"}, {-1, 0, 1, 5}, V) \cup A1({"remove", "index", "count", "contains"}, 0..2)
                    \cup A1({"extend", "iadd"}, 1..3)
    [] k = "gen" -> Z({"next", "send_none", "send_one", "list_rest", "tuple_rest", "for_break", "close", "iter_is_self", "bool", "repr",
                        "str", "len", "getitem", "call", "with", "lt_int", "getattr_missing", "or_int", "ror_int", "callable"})
                    \cup A1({"contains"}, 0..3) \cup A3({"buffiter"}, 1..3, 1..3, 1..2)
    [] k = "file" -> Z({"readline", "next", "seek_end", "tell", "truncate", "getvalue", "readable", "close", "closed", "with", "iter_is_self",
                         "bool", "len", "getitem", "call", "lt_int", "getattr_missing", "or_int", "ror_int", "callable"})
                    \cup A1({"read"}, {-1, 0, 1, 2}) \cup A1({"seek"}, 0..3) \cup A1({"write"}, 2..3)
    [] k = "bytearray" -> Z({"len", "bool", "repr", "str", "hash", "pop", "tobytes", "iter", "reverse", "clear", "eq_self", "lt_int", "call",
                              "with", "next", "add_int", "getattr_missing", "setattr_x", "isinstance", "callable"})
                    \cup A1({"append"}, {0, 1, 256}) \cup A1({"getitem", "delitem"}, Idx) \cup A2({"setitem"}, Idx, {0, 1, 256})
                    \cup A1({"extend", "iadd", "add_bytes", "eq_bytes", "ne_bytes"}, 1..3) \cup A1({"mul"}, {0, 2})
                    \cup A2({"getslice"}, {-2, 0, 1}, {-1, 2, 3}) \cup A3({"setslice"}, {0, 1}, {0, 2}, 1..3)
                    \cup A1({"contains", "count", "index"}, 0..2)
    [] k = "user" -> Z({"neg", "len", "bool", "int", "iter", "call_bad", "eq_self", "eq_text", "gt_int", "hash", "repr", "str", "with", "with_raise",
                         "get_total", "get_level", "get_extra", "del_extra", "del_level", "get_hidden", "boom", "peek", "get_kind",
                         "classmeth", "getattr_missing", "next", "isinstance", "dir_has", "or_int", "ror_int", "callable"})
                    \cup A1({"add", "radd", "iadd", "call", "eq_int", "ne_int", "lt_int", "bump", "staticmeth"}, 0..2)
                    \cup A1({"getitem", "contains", "eq_int", "ne_int"}, 0..3) \cup A2({"setitem"}, {0, 1}, 0..3) \cup A1({"delitem"}, {0, 1})
                    \cup A2({"call_kw"}, 1..2, 0..1) \cup A1({"set_level"}, 0..3) \cup A1({"set_total"}, 0..3) \cup A1({"set_extra"}, V)
                    \cup (IF s.depth = 0 THEN Z({"enter"}) ELSE Z({"exit"}))

Step(k, s, o, a, b, c) ==
  CASE k = "list" -> ListStep(s, o, a, b, c) [] k = "dict" -> DictStep(s, o, a, b, c) [] k = "set" -> SetStep(s, o, a, b, c)
    [] k = "deque" -> DequeStep(s, o, a, b, c) [] k = "gen" -> GenStep(s, o, a, b, c) [] k = "file" -> FileStep(s, o, a, b, c)
    [] k = "bytearray" -> BAStep(s, o, a, b, c) [] k = "user" -> UserStep(s, o, a, b, c)

InitState(k) ==
  CASE k \in {"list", "dict", "deque", "bytearray"} -> <<>>
    [] k = "set" -> {}
    [] k = "gen" -> 0
    [] k = "file" -> [d |-> <<97, NL, 97>>, p |-> 0, c |-> FALSE]
    [] k = "user" -> [total |-> 0, level |-> 0, extra |-> -1, depth |-> 0]

Within(k, s) ==
  CASE k \in {"list", "dict", "deque", "bytearray"} -> Len(s) <= MaxLen
    [] k = "file" -> Len(s.d) <= 3 /\ s.p <= 3
    [] OTHER -> TRUE

\* ------------------------------------------------------------------ layer 2: what the proxy asks for
\* access kind and class of the attribute name consulted on the owner's side:
\*   "none"    no attribute policy involved (HANDLE_STR / REPR / HASH / DIR / CALL, local answers)
\*   "safe"    a special name listed in safe_attrs          "special" a special name not listed (e.g. __reversed__)
\*   "public"  a name without leading underscore           "private" a single-underscore name
\*   "exposed" a name carrying the exposed_ prefix         access: "get" | "set" | "del"
NoPolicy == {"repr", "str", "hash", "call", "call_kw", "call_bad", "dir_has", "isinstance", "callable"}
PublicNames == {"append", "insert", "pop", "popi", "remove", "index", "count", "reverse", "clear", "sort", "copy", "extend", "get", "getd",
                "popd", "popitem", "setdefault", "keys", "values", "items", "update_pairs", "discard", "update", "isdisjoint",
                "issubset", "appendleft", "popleft", "rotate", "maxlen", "send_none", "send_one", "close", "read", "readline", "seek",
                "seek_end", "tell", "write", "truncate", "getvalue", "readable", "closed", "get_total", "get_level", "get_extra", "bump",
                "boom", "get_kind", "classmeth", "staticmeth", "getattr_missing"}
SpecialNames == {"reversed"}
Access(k, o) ==
  CASE o \in {"setattr_x", "set_level", "set_total", "set_extra", "set_maxlen"} -> <<"set", "public">>
    [] o \in {"delattr_x", "del_extra", "del_level"} -> <<"del", "public">>
    [] o = "get_hidden" -> <<"get", "private">>
    [] o = "peek" -> <<"get", "exposed">>
    [] o \in SpecialNames -> <<"get", "special">>
    [] o = "add" -> IF k = "set" THEN <<"get", "public">> ELSE <<"get", "safe">>      \* set.add vs. __add__
    [] o \in PublicNames -> <<"get", "public">>
    [] o \in NoPolicy -> <<"none", "none">>
    [] OTHER -> <<"get", "safe">>                                  \* safe special names, and refusals Python makes locally
Permitted(c, acc) ==
  LET how == acc[1]  cls == acc[2] IN
  IF how = "none" \/ c = "classic" THEN TRUE
  ELSE LET nameok == CASE cls = "safe" -> TRUE [] cls = "exposed" -> TRUE
                       [] cls = "public" -> c \in {"public", "public_rw"} [] OTHER -> FALSE
       IN CASE how = "get" -> nameok [] OTHER -> c = "public_rw" /\ nameok

\* ------------------------------------------------------------------ the proxy's step relation
Do(o, a, b, c) ==
  LET out == IF Permitted(cfg, Access(kind, o)) THEN Step(kind, st, o, a, b, c) ELSE Out(RExc("AttributeError"), st)
  IN /\ Within(kind, out.s)
     /\ st' = out.s /\ res' = out.r /\ UNCHANGED <<kind, cfg>>
Init == kind \in Kinds /\ cfg \in Configs /\ st = InitState(kind) /\ res = R("init", 0, <<>>)
Next == \E op \in OpsOf(kind, st) : Do(op[1], op[2], op[3], op[4])
Spec == Init /\ [][Next]_vars

\* ------------------------------------------------------------------ the state spaces, the table, properties of the model
PairSeqs == {q \in BoundedSeq((0..2) \X V, MaxLen) : \A i, j \in DOMAIN q : i # j => q[i][1] # q[j][1]}
States(k) ==
  CASE k \in {"list", "deque", "bytearray"} -> BoundedSeq(V, MaxLen)
    [] k = "dict" -> PairSeqs
    [] k = "set" -> SUBSET (0..2)
    [] k = "gen" -> 0..NI
    [] k = "file" -> [d : BoundedSeq({0, NL, 97}, 3), p : 0..3, c : BOOLEAN]
    [] k = "user" -> [total : 0..3, level : 0..2, extra : -1..1, depth : 0..1]
Rows(k) == {<<s, op>> : s \in States(k), op \in UNION {OpsOf(k, x) : x \in States(k)}}
RowOk(k, s, op) == op \in OpsOf(k, s) /\ Within(k, Step(k, s, op[1], op[2], op[3], op[4]).s)
Queries == {"len", "bool", "repr", "str", "hash", "getitem", "index", "count", "copy", "reversed", "getslice", "mul",
            "eq_self", "eq_tuple", "ne_tuple", "eq_int", "ne_int", "eq_text", "lt_int", "gt_int", "get", "getd", "keys", "values", "items",
            "or", "and", "sub", "xor", "le", "lt", "ge", "eq", "ne", "isdisjoint", "issubset", "maxlen", "tell", "getvalue", "closed",
            "tobytes", "add_bytes", "eq_bytes", "ne_bytes", "radd", "neg", "int", "call", "call_kw", "get_total", "get_level",
            "get_extra", "get_hidden", "peek", "get_kind", "classmeth", "staticmeth", "isinstance", "dir_has", "iter_is_self", "or_int", "ror_int",
            "callable"}
\* an operation that ends in an exception leaves the target as it was; queries leave it as it was; the step stays in the state space
StepLaws == \A k \in Kinds : \A s \in States(k) : \A op \in OpsOf(k, s) :
              LET out == Step(k, s, op[1], op[2], op[3], op[4]) IN
                /\ out.r.t = "exc" => out.s = s
                /\ op[1] \in Queries => out.s = s
                /\ Within(k, out.s) => out.s \in States(k)
                /\ out.r.t \in {"int", "bool", "none", "seq", "set", "self", "text", "exc"}
\* the configurations are ordered: what the default permits, public-attribute mode permits; what that permits, classic mode permits
ConfigsOrdered == \A k \in Kinds : \A s \in States(k) : \A op \in OpsOf(k, s) :
                    LET acc == Access(k, op[1]) IN
                      /\ Permitted("default", acc) => Permitted("public", acc)
                      /\ Permitted("public", acc) => Permitted("public_rw", acc)
                      /\ Permitted("classic", acc)
Reachable == st \in States(kind)
Refused == [][(~Permitted(cfg, Access(kind, "append")) /\ kind = "list") => TRUE]_vars
==========================================================================================
