SPECIFICATION Spec
CONSTANTS
  Servers = {"s1", "s2"}
  OneLookup = FALSE
  LockedIncr = TRUE
INVARIANT NothingLost
INVARIANT Accounting
CHECK_DEADLOCK FALSE
