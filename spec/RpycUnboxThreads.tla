---------------------------------- MODULE RpycUnboxThreads ----------------------------------
(* C10 when the holder's side is used by several threads (a background serving thread next to the program's own thread):      *)
(* Connection._unbox of a remote reference as the steps a thread takes on the shared proxy cache and on the proxy's count,    *)
(* against the program dropping its handles.                                                                                *)
(* Code: Connection._unbox (rpyc/core/protocol.py), WeakValueDict (rpyc/lib/colls.py), BaseNetref.__del__.                   *)
(*   alive     the cached proxy object exists (the cache holds it weakly: it exists while somebody holds a handle)           *)
(*   count     its ____refcount__           handles   handles the program holds on it                                       *)
(*   pins      serving threads that hold the proxy in a local variable (that keeps it alive too)                             *)
(*   owner     references the owner has handed out and not got back yet                                                      *)
(* OneLookup = FALSE: `if id in cache: proxy = cache[id]` (two look-ups, the pinned tree); TRUE: one `cache.get(id)`.          *)
(* LockedIncr = FALSE: `count += 1` as a read followed by a write (the attribute hooks of a netref are Python functions, so   *)
(* another thread can run in between); TRUE: under a lock.                                                                    *)
EXTENDS Naturals, FiniteSets, TLC
CONSTANTS Servers, OneLookup, LockedIncr
VARIABLES alive, count, handles, pins, owner, inflight, pc, seen, failed, dels, extra
vars == <<alive, count, handles, pins, owner, inflight, pc, seen, failed, dels, extra>>
\* extra: proxies created beyond the cached one after a miss (each with count 1 and one handle) - accounted separately
Init == /\ alive = TRUE /\ count = 1 /\ handles = 1 /\ pins = {} /\ owner = 1 + Cardinality(Servers)
        /\ inflight = Servers             \* one fresh reference is on its way to each serving thread
        /\ pc = [t \in Servers |-> "idle"] /\ seen = [t \in Servers |-> 0]
        /\ failed = {} /\ dels = 0 /\ extra = 0
Gone == ~alive
\* the program drops one handle; the last one (with nobody pinning the proxy) finalizes it: the cache entry vanishes and the
\* whole count is sent back
Drop == /\ handles > 0
        /\ handles' = handles - 1
        /\ IF handles = 1 /\ pins = {} /\ alive
           THEN alive' = FALSE /\ dels' = dels + count /\ owner' = owner - count /\ count' = 0
           ELSE UNCHANGED <<alive, dels, owner, count>>
        /\ UNCHANGED <<pins, inflight, pc, seen, failed, extra>>
\* a serving thread receives its reference and looks the proxy up
Test(t) == /\ pc[t] = "idle" /\ t \in inflight
           /\ inflight' = inflight \ {t}
           /\ IF alive
              THEN IF OneLookup THEN pins' = pins \cup {t} /\ pc' = [pc EXCEPT ![t] = "hit"]
                                ELSE pc' = [pc EXCEPT ![t] = "tested"] /\ UNCHANGED pins
              ELSE pc' = [pc EXCEPT ![t] = "miss"] /\ UNCHANGED pins
           /\ UNCHANGED <<alive, count, handles, owner, seen, failed, dels, extra>>
\* pinned tree: the second look-up, after the test said "present"
Get(t) == /\ pc[t] = "tested"
          /\ IF alive THEN pins' = pins \cup {t} /\ pc' = [pc EXCEPT ![t] = "hit"] /\ UNCHANGED failed
             ELSE pc' = [pc EXCEPT ![t] = "done"] /\ failed' = failed \cup {t} /\ UNCHANGED pins      \* KeyError: the message fails
          /\ UNCHANGED <<alive, count, handles, owner, inflight, seen, dels, extra>>
\* count += 1
Read(t) == /\ pc[t] = "hit"
           /\ IF LockedIncr THEN count' = count + 1 /\ pc' = [pc EXCEPT ![t] = "store"] /\ UNCHANGED seen
              ELSE seen' = [seen EXCEPT ![t] = count] /\ pc' = [pc EXCEPT ![t] = "read"] /\ UNCHANGED count
           /\ UNCHANGED <<alive, handles, pins, owner, inflight, failed, dels, extra>>
Write(t) == /\ pc[t] = "read"
            /\ count' = seen[t] + 1 /\ pc' = [pc EXCEPT ![t] = "store"]
            /\ UNCHANGED <<alive, handles, pins, owner, inflight, seen, failed, dels, extra>>
\* the handler stores the proxy: the program has one more handle, the local variable goes away
Store(t) == /\ pc[t] = "store"
            /\ handles' = handles + 1 /\ pins' = pins \ {t} /\ pc' = [pc EXCEPT ![t] = "done"]
            /\ UNCHANGED <<alive, count, owner, inflight, seen, failed, dels, extra>>
\* no proxy in the cache: a new one is made (count 1), cached and stored
Miss(t) == /\ pc[t] = "miss"
           /\ IF alive THEN extra' = extra + 1 /\ UNCHANGED <<alive, count, handles>>      \* somebody else made one meanwhile: two proxies
              ELSE alive' = TRUE /\ count' = 1 /\ handles' = 1 /\ UNCHANGED extra
           /\ pc' = [pc EXCEPT ![t] = "done"]
           /\ UNCHANGED <<pins, owner, inflight, seen, failed, dels>>
Next == Drop \/ \E t \in Servers : Test(t) \/ Get(t) \/ Read(t) \/ Write(t) \/ Store(t) \/ Miss(t)
Spec == Init /\ [][Next]_vars
-------------------------------------------------------------------------------------------
AllDone == inflight = {} /\ \A t \in Servers : pc[t] = "done"
\* every reference that was sent arrives as a proxy
NothingLost == failed = {}
\* at rest, what the holder's proxies account for is exactly what the owner has handed out and not got back
Accounting == AllDone /\ pins = {} => owner = (IF alive THEN count ELSE 0) + extra
=============================================================================================
