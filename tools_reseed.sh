#!/bin/sh
# re-run confirmation + checks for seeded changes that are unconfirmed or unreported (after checks were strengthened)
cd /verif
for d in seeded/*/; do
  id=$(basename $d)
  need=$(python3 - "$d" <<'PY'
import json,sys
m=json.load(open(sys.argv[1]+"/meta.json"))
print("yes" if (not m.get("confirmed")) or not m.get("detected_by") else "no")
PY
)
  [ "$need" = "yes" ] || continue
  prop=$(python3 -c "import json;print(json.load(open('$d/meta.json'))['property'])")
  needs=$(python3 -c "import json;print(json.load(open('$d/meta.json')).get('needs',''))")
  checks=$(python3 -c "import json;print(' '.join(sorted(json.load(open('$d/meta.json')).get('checks',{}).keys())))")
  mkdir -p /tmp/reseed; cp $d/patch.diff /tmp/reseed/$id.diff; cp $d/demo.py /tmp/reseed/$id.py
  python3 tools_seed.py "$id" "$prop" /tmp/reseed/$id.diff /tmp/reseed/$id.py "$needs" $checks
done
