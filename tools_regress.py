#!/usr/bin/env python3
"""Regression over the seeded changes: for every seeded/<id>/ apply the patch in a scratch worktree of /repo HEAD and run the
check(s) recorded as reporting it (quick tier, through VERIF_REPO); each must still report a violation.
usage: tools_regress.py [workers]   (writes /verif/out/regress.json, prints one line per seed)"""
import concurrent.futures
import glob
import json
import os
import shutil
import subprocess
import sys

VERIF = os.path.dirname(os.path.abspath(__file__))


def sh(cmd, **kw):
    return subprocess.run(cmd, shell=True, stdout=subprocess.PIPE, stderr=subprocess.STDOUT, text=True, **kw)


def one(d):
    m = json.load(open(os.path.join(d, "meta.json")))
    sid = m["seed"]
    checks = m.get("detected_by") or [m["property"]]
    wt = "/tmp/regress_%s" % sid
    sh("git -C /repo worktree remove --force %s" % wt)
    shutil.rmtree(wt, ignore_errors=True)
    r = sh("git -C /repo worktree add -q --detach %s HEAD" % wt)
    out = {"seed": sid, "checks": {}}
    try:
        a = sh("git apply %s" % os.path.join(d, "patch.diff"), cwd=wt)
        if a.returncode != 0:
            # later repairs changed the context: three-way merge with the blobs the patch was made against
            a = sh("git apply --3way %s" % os.path.join(d, "patch.diff"), cwd=wt)
            if a.returncode == 0:
                sh("git reset -q", cwd=wt)
        if a.returncode != 0:
            out["apply"] = "failed: " + a.stdout[-200:]
            return out
        for c in checks[:2]:
            env = dict(os.environ, VERIF_REPO=wt)
            r = sh("timeout 1800 %s/check %s" % (VERIF, c), env=env, cwd=VERIF)
            out["checks"][c] = r.returncode
            if r.returncode == 1:
                break
    finally:
        sh("git -C /repo worktree remove --force %s" % wt)
        shutil.rmtree(wt, ignore_errors=True)
    return out


def main():
    workers = int(sys.argv[1]) if len(sys.argv) > 1 else 3
    dirs = sorted(glob.glob(os.path.join(VERIF, "seeded", "*")))
    only = [x for x in os.environ.get("REGRESS_ONLY", "").split(",") if x]
    if only:
        dirs = [d for d in dirs if os.path.basename(d) in only]
    res = []
    with concurrent.futures.ThreadPoolExecutor(workers) as ex:
        for o in ex.map(one, dirs):
            ok = any(v == 1 for v in o["checks"].values())
            print("%-45s %s %s" % (o["seed"], "reported" if ok else ("NOT REPORTED " + str(o.get("apply", ""))), o["checks"]), flush=True)
            res.append(o)
    os.makedirs(os.path.join(VERIF, "out"), exist_ok=True)
    json.dump(res, open(os.path.join(VERIF, "out", "regress.json"), "w"), indent=1)
    bad = [o["seed"] for o in res if not any(v == 1 for v in o["checks"].values())]
    print("seeds: %d, not reported: %s" % (len(res), bad))


if __name__ == "__main__":
    main()
