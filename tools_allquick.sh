#!/bin/sh
# usage: tools_allquick.sh [seed]  -- every quick check once on the working tree (evidence under out/evidence_all unless seed is 0)
cd /verif
seed=${1:-0}
[ "$seed" = "0" ] || export VERIF_EVIDENCE_DIR=/verif/out/evidence_all
export VERIF_SEED=$seed
for id in C01 C02 C03 C04 C05 C06 C07 C08 C09 C10 C11 C12 C13 C14 C15 C16 C17 C18 C19 C20; do
  t0=$(date +%s)
  ./check $id > /tmp/allquick_$id.log 2>&1; rc=$?
  t1=$(date +%s)
  echo "$id seed=$seed rc=$rc $((t1-t0))s $(grep -c '^VIOLATION' /tmp/allquick_$id.log) violations; $(grep -c '^KNOWN-FINDING' /tmp/allquick_$id.log) known"
done
