#!/usr/bin/env python3
"""Confirm a seeded change in a scratch worktree and file it under /verif/seeded/<id>/.

usage: tools_seed.py <seed-id> <property> <patch> <demo> <needs-text> [check ids to run ...]

Steps (all recorded in meta.json):
  1. scratch worktree of /repo HEAD under /tmp (removed afterwards)
  2. demo on the unchanged tree must exit 0
  3. patch applies; demo must exit != 0
  4. the repository's suite must still pass with the patch (BASELINE stable_pass all passing)
  5. the given checks are run against /repo with the patch applied (and /repo restored afterwards)
"""
import json
import os
import shutil
import subprocess
import sys
import xml.etree.ElementTree as ET

VERIF = os.path.dirname(os.path.abspath(__file__))


def sh(cmd, **kw):
    return subprocess.run(cmd, shell=True, stdout=subprocess.PIPE, stderr=subprocess.STDOUT, text=True, **kw)


def main():
    sid, prop, patch, demo, needs = sys.argv[1:6]
    checks = sys.argv[6:] or [prop]
    wt = "/tmp/seedverify_%s" % sid
    sh("git -C /repo worktree remove --force %s" % wt)
    r = sh("git -C /repo worktree add -q %s HEAD" % wt)
    meta = {"seed": sid, "property": prop, "needs": needs, "ran": []}
    try:
        env = dict(os.environ, PYTHONPATH=wt, PYTHONDONTWRITEBYTECODE="1")
        d0 = sh("timeout 300 /venv/bin/python %s" % demo, env=env, cwd=wt)
        meta["ran"].append({"cmd": "demo on unchanged tree", "exit": d0.returncode})
        a = sh("git apply %s" % patch, cwd=wt)
        if a.returncode != 0:
            a = sh("git apply --3way %s && git reset -q" % patch, cwd=wt)     # context changed by later repairs
        meta["ran"].append({"cmd": "git apply", "exit": a.returncode, "out": a.stdout[-300:]})
        d1 = sh("timeout 300 /venv/bin/python %s" % demo, env=env, cwd=wt)
        meta["ran"].append({"cmd": "demo with the change", "exit": d1.returncode, "out": d1.stdout[-600:]})
        junit = "/tmp/seedverify_%s.xml" % sid
        base = json.load(open("/root/.vp/BASELINE.json"))
        files = sorted({"tests/" + x.split(".")[1] + ".py" for x in base["stable_pass"]})
        # a private network namespace: test_registry binds the fixed port 18811 and would collide with any other suite run
        t = sh("unshare -n sh -c 'ip link set lo up; ip route add 255.255.255.255/32 dev lo; exec timeout 1500 /venv/bin/python -m pytest "
               "-q -p no:cacheprovider --timeout=300 --continue-on-collection-errors "
               "--junitxml=%s %s'" % (junit, " ".join(files)), env=env, cwd=wt)
        passed = set()
        try:
            for tc in ET.parse(junit).getroot().iter("testcase"):
                if not list(tc):
                    passed.add("%s::%s" % (tc.get("classname"), tc.get("name")))
        except Exception as ex:
            meta["ran"].append({"cmd": "parse junit", "error": repr(ex)})
        missing = [x for x in base["stable_pass"] if x not in passed]
        meta["ran"].append({"cmd": "repository suite with the change", "stable_pass_missing": missing})
        meta["confirmed"] = (d0.returncode == 0 and a.returncode == 0 and d1.returncode != 0 and not missing)
    finally:
        sh("git -C /repo worktree remove --force %s" % wt)
        shutil.rmtree(wt, ignore_errors=True)
    # our checks against the change: run on a second scratch worktree with the change applied (never on /repo itself)
    caught = {}
    wt2 = "/tmp/seedcheck_%s" % sid
    sh("git -C /repo worktree remove --force %s" % wt2)
    sh("git -C /repo worktree add -q %s HEAD" % wt2)
    try:
        a = sh("git apply %s" % patch, cwd=wt2)
        if a.returncode != 0:
            a = sh("git apply --3way %s && git reset -q" % patch, cwd=wt2)
        for c in checks:
            r = sh("%s/check %s --tier quick" % (VERIF, c), env=dict(os.environ, VERIF_REPO=wt2))
            lines = [l for l in r.stdout.splitlines() if l.startswith("VIOLATION") or "violation:" in l]
            caught[c] = {"exit": r.returncode, "first": lines[0][:300] if lines else ""}
    finally:
        sh("git -C /repo worktree remove --force %s" % wt2)
        shutil.rmtree(wt2, ignore_errors=True)
    meta["checks"] = caught
    meta["detected_by"] = sorted(c for c, v in caught.items() if v["exit"] == 1)
    out = os.path.join(VERIF, "seeded", sid)
    os.makedirs(out, exist_ok=True)
    shutil.copy(patch, os.path.join(out, "patch.diff"))
    shutil.copy(demo, os.path.join(out, "demo.py"))
    json.dump(meta, open(os.path.join(out, "meta.json"), "w"), indent=1)
    print(sid, "confirmed" if meta.get("confirmed") else "NOT CONFIRMED", "detected_by", meta["detected_by"],
          {c: v["exit"] for c, v in caught.items()})


if __name__ == "__main__":
    main()
