#!/usr/bin/env python3
"""Audit the evidence files of a run: conformance that silently degrades (implementation traces rejected, state
comparisons given up as drift, graph replays that cover little) does not raise an alarm by design - this lists it.

usage: tools_evidence_audit.py [evidence dir]     (default: /verif/evidence)
exit 0 always; prints one line per property and a WARN line for anything below par."""
import glob
import json
import os
import sys

d = sys.argv[1] if len(sys.argv) > 1 else os.path.join(os.path.dirname(os.path.abspath(__file__)), "evidence")
for f in sorted(glob.glob(os.path.join(d, "C*.json"))):
    e = json.load(open(f))
    c = e["coverage"]
    warn = []
    pairs = [(k, k.replace("impl_traces", "impl_traces_accepted").replace("nested_traces", "nested_traces_accepted"))
             for k in c if (k.startswith("impl_traces") or k.startswith("nested_traces")) and "accepted" not in k]
    for tot, acc in pairs:
        if acc in c and c[tot] and c[acc] < c[tot]:
            warn.append("%s: %d of %d accepted by TLC" % (tot, c[acc], c[tot]))
    if c.get("drift"):
        warn.append("%d drift note(s), first: %s" % (len(c["drift"]), str(c["drift"][0])[:160]))
    if e.get("violations"):
        warn.append("%d violation(s)" % e["violations"])
    print("%s tier=%s states=%s evaluations=%s validated=%s known=%s" % (
        e["property_id"], e["tier"], c.get("states"), c.get("evaluations"), c.get("traces_validated_against_impl"),
        c.get("known_findings_seen")))
    for w in warn:
        print("   WARN " + w)
